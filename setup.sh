#!/bin/sh
# Build the framework from files on disk only (offline). Idempotent.
set -e
cd "$(dirname "$0")"
mkdir -p build evidence reports .cache
if [ ! -x build/irdump ] || [ tools/irdump.cc -nt build/irdump ]; then
  clang++ $(llvm-config-14 --cxxflags) -fno-rtti -O1 tools/irdump.cc -o build/irdump \
      /usr/lib/llvm-14/lib/libLLVM-14.so
fi
echo "setup ok"
