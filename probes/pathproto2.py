#!/usr/bin/env python3
"""Throw-away prototype 2 of the path-flag engine: C05 (handler count/code) + C04 (clearing) flags,
   with a bounded state (code-like phis only, call results keyed by call site) and return conventions."""
import json, glob, sys, os, time
from collections import defaultdict, deque

HANDLERS = {"invoke_safe_str_constraint_handler": 2, "invoke_safe_mem_constraint_handler": 2,
            "handle_error": 3, "handle_werror": 3, "handle_mem_error": 3}
CLEARERS = {"handle_error": (0, 1, 1), "handle_werror": (0, 1, 4), "handle_mem_error": (0, 1, 1),
            "mem_prim_set": (0, 1, 1), "mem_prim_set16": (0, 1, 2), "mem_prim_set32": (0, 1, 4)}   # (ptr arg, len arg, unit)
REPORT_RET = {"handle_str_bos_overflow"}
WRITERS = {"memcpy": 0, "memmove": 0, "mem_prim_move": 0, "mem_prim_move8": 0, "mem_prim_move16": 0, "mem_prim_move32": 0, "fgets": 0,
           "mbstowcs": 0, "mbsrtowcs": 0, "wcstombs": 0, "wcsrtombs": 0, "wcrtomb": 0, "wctomb": 0, "vswprintf": 0, "asctime_r": 1, "ctime_r": 1,
           "strncpy": 0, "explicit_bzero": 0, "tmpnam": 0}
EXIT = {"abort"}

class Fn:
    def __init__(s, j):
        s.j = j; s.name = j["name"]
        s.blocks = {b["id"]: b for b in j["blocks"]}
        s.entry = j["blocks"][0]["id"]
        s.defs = {}
        for b in j["blocks"]:
            for i in b["insts"]:
                if "id" in i: s.defs[i["id"]] = i
        s.pn = {p["name"]: p["id"] for p in j["params"]}

def opkey(o):
    if o["k"] == "c": return ("c", o["v"])
    if o["k"] == "v": return ("v", o["id"])
    if o["k"] == "null": return ("c", 0)
    return ("?", json.dumps(o, sort_keys=True)[:30])

def derived_from(fn, root):
    """SSA ids of pointers derived from param `root` (gep/bitcast/phi/select)"""
    d = {root}
    changed = True
    while changed:
        changed = False
        for b in fn.j["blocks"]:
            for i in b["insts"]:
                if "id" not in i or i["id"] in d: continue
                if i["op"] == "getelementptr":
                    if i["base"]["k"] == "v" and i["base"]["id"] in d: d.add(i["id"]); changed = True
                elif i["op"] in ("bitcast", "select"):
                    if any(o["k"] == "v" and o["id"] in d for o in i["ops"]): d.add(i["id"]); changed = True
                elif i["op"] == "phi":
                    if any(inc["v"]["k"] == "v" and inc["v"]["id"] in d for inc in i["incoming"]): d.add(i["id"]); changed = True
    return d

def code_like(fn, v, seen=None):
    """value is a constant / call result / param / negation / phi of such"""
    seen = seen or set()
    if v in seen: return True
    seen.add(v)
    d = fn.defs.get(v)
    if d is None: return True
    if d["op"] == "call": return True
    if d["op"] == "load": return True
    if d["op"] in ("zext", "sext", "trunc"):
        o = d["ops"][0]
        return o["k"] != "v" or code_like(fn, o["id"], seen)
    if d["op"] == "sub" and d["ops"][0]["k"] == "c" and d["ops"][0]["v"] == 0:
        o = d["ops"][1]; return o["k"] != "v" or code_like(fn, o["id"], seen)
    if d["op"] in ("phi",):
        return all(inc["v"]["k"] != "v" or code_like(fn, inc["v"]["id"], seen) for inc in d["incoming"])
    if d["op"] == "select":
        return all(o["k"] != "v" or code_like(fn, o["id"], seen) for o in d["ops"][1:])
    return False

def analyse(fn, funcs, budget=200000):
    dest = fn.pn.get("dest"); dmax = fn.pn.get("dmax") or fn.pn.get("dlen") or fn.pn.get("len")
    destbos = fn.pn.get("destbos")
    dd = derived_from(fn, dest) if dest else set()
    relevant = set()
    for b in fn.j["blocks"]:
        for i in b["insts"]:
            if i["op"] == "phi" and i["ty"] in ("i32", "i64", "i1", "i8*", "i32*") and code_like(fn, i["id"]): relevant.add(i["id"])
    # which call results are branched on directly (icmp x, 0) or returned -> worth remembering
    def resolve(o, env):
        envd = dict(env)
        k = opkey(o); g = 0
        while k[0] == "v" and g < 30:
            g += 1
            if k[1] in envd: k = envd[k[1]]; continue
            d = fn.defs.get(k[1])
            if d is None: break
            if d["op"] == "sub" and d["ops"][0]["k"] == "c" and d["ops"][0]["v"] == 0:
                inner = resolve(d["ops"][1], env)
                return ("c", -inner[1]) if inner[0] == "c" else ("neg", inner)
            if d["op"] in ("zext", "sext", "trunc"): k = opkey(d["ops"][0]); continue
            break
        return k
    results = []
    # state = (hc, code, dirty, clr1, clrfull, exempt, env, known)
    start = (0, None, False, False, False, False, (), ())
    seen = defaultdict(set)
    q = deque([(fn.entry, None, start)])
    nstates = 0
    # liveness of relevant phis: block -> set of phi ids possibly still needed (cheap over-approx: phis defined in blocks that can reach this block and used later)
    # prototype: keep env entries only for phis that are (transitively) used by a ret operand or handler/clearer code argument
    needed = set()
    work = []
    for b in fn.j["blocks"]:
        for i in b["insts"]:
            if i["op"] == "ret" and i["ops"] and i["ops"][0]["k"] == "v": work.append(i["ops"][0]["id"])
            if i["op"] == "call" and i.get("callee") in HANDLERS:
                a = i["args"][HANDLERS[i["callee"]]]
                if a["k"] == "v": work.append(a["id"])
            if i["op"] == "store" and i["ops"][0]["k"] == "v" and i["ty"] == "void":   # *errp = code ; errno = code
                work.append(i["ops"][0]["id"])
            if i["op"] in ("br",) and "cond" in i and i["cond"]["k"] == "v": work.append(i["cond"]["id"])
    while work:
        v = work.pop()
        if v in needed: continue
        needed.add(v)
        d = fn.defs.get(v)
        if d is None: continue
        if d["op"] == "phi":
            for inc in d["incoming"]:
                if inc["v"]["k"] == "v": work.append(inc["v"]["id"])
        elif d["op"] in ("sub", "zext", "sext", "trunc", "icmp", "select"):
            for o in d["ops"]:
                if o["k"] == "v": work.append(o["id"])
    relevant &= needed
    def cond_decide(cond, env, known):
        """try to decide a branch condition from env/known"""
        if cond["k"] == "c": return bool(cond["v"])
        cd = fn.defs.get(cond["id"])
        if cd is None: return None
        if cd["op"] == "phi" and cond["id"] in dict(env):
            k = dict(env)[cond["id"]]
            if k[0] == "c": return bool(k[1])
            if k[0] == "v": return cond_decide({"k": "v", "id": k[1]}, env, known)
            return None
        if cd["op"] in ("zext", "sext"): return cond_decide(cd["ops"][0], env, known)
        if cd["op"] == "icmp" and cd["pred"] in ("ne", "eq"):
            a = resolve(cd["ops"][0], env); b = resolve(cd["ops"][1], env)
            kd = dict(known)
            def val(k):
                if k[0] == "c": return k[1]
                return None
            va, vb = val(a), val(b)
            if va is not None and vb is not None:
                return (va != vb) if cd["pred"] == "ne" else (va == vb)
            # known zero/nonzero call results
            for x, y in ((a, b), (b, a)):
                if x[0] == "v" and x[1] in kd and y == ("c", 0):
                    iszero = kd[x[1]]
                    return (not iszero) if cd["pred"] == "ne" else iszero
        return None
    while q:
        blk, pred, st = q.popleft()
        nstates += 1
        if nstates > budget: return None
        hc, code, dirty, clr1, clrf, exempt, env, known = st
        b = fn.blocks[blk]
        envd = dict(env)
        if pred is not None:
            newv = {}
            for i in b["insts"]:
                if i["op"] != "phi": break
                if i["id"] in relevant:
                    for inc in i["incoming"]:
                        if inc["bb"] == pred: newv[i["id"]] = resolve(inc["v"], env)
            envd.update(newv)
        env = tuple(sorted(envd.items()))
        states = [(hc, code, dirty, clr1, clrf, exempt, env, known)]
        for i in b["insts"]:
            if i["op"] == "store" and dest:
                po = i["ops"][1]
                if po["k"] == "v" and po["id"] in dd:
                    zero = i["ops"][0]["k"] == "c" and i["ops"][0]["v"] == 0
                    at0 = po["id"] == dest
                    states = [(h, c, True if not (zero and at0) else d_, (True if (zero and at0) else False) if not zero or at0 else c1, False if not (zero and at0) else cf, ex, e, k)
                              for (h, c, d_, c1, cf, ex, e, k) in states]
                continue
            if i["op"] != "call": continue
            c = i.get("callee")
            nxt = []
            for (hc, code, dirty, clr1, clrf, exempt, env, known) in states:
                if c is None or c.startswith("llvm.dbg"):
                    nxt.append((hc, code, dirty, clr1, clrf, exempt, env, known)); continue
                # clearing effects
                is_clear = False
                if dest and (c in CLEARERS or c.startswith("llvm.memset")):
                    pa, la, unit = CLEARERS.get(c, (0, 2, 1))
                    p = i["args"][pa]
                    valz = True
                    if c.startswith("llvm.memset") or c.startswith("mem_prim_set"):
                        va = i["args"][1 if c.startswith("llvm.memset") else 2]
                        valz = va["k"] == "c" and va["v"] == 0
                    if p["k"] == "v" and p["id"] in dd and valz:
                        ln = resolve(i["args"][la], env)
                        if p["id"] == dest:
                            full = ln == ("v", dmax) or (destbos and ln == ("v", destbos))
                            clr1, clrf, dirty = True, (True if full else clrf), (False if full else dirty)
                            is_clear = True
                        else:
                            is_clear = True   # tail clear (slack): does not make dirty
                if dest and not is_clear:
                    w = WRITERS.get(c)
                    if c.startswith("llvm.memcpy") or c.startswith("llvm.memmove"): w = 0
                    if w is not None and w < len(i["args"]) and i["args"][w]["k"] == "v" and i["args"][w]["id"] in dd:
                        dirty, clr1, clrf = True, False, False
                if c in HANDLERS:
                    k = resolve(i["args"][HANDLERS[c]], env)
                    nxt.append((min(hc + 1, 2), k if hc == 0 else code, dirty, clr1, clrf, exempt, env, known)); continue
                if c in REPORT_RET:
                    # clears dest (strnlen bytes) and reports once
                    nxt.append((min(hc + 1, 2), ("v", i["id"]) if hc == 0 else code, dirty, True, clrf, exempt, env, kadd(known, i["id"], False))); continue
                if c in funcs and not funcs[c].j["internal"] and c not in ("invoke_safe_str_constraint_handler",) and not c.startswith("mem_prim") and c not in ("_towcase", "_towupper", "iswfc", "_dec_w16", "isExclusion", "strerrorlen_s", "_towfc_single", "_decomp_s", "safec_vsnprintf_s"):
                    rid = i.get("id")
                    writes_dest = dest and any(a["k"] == "v" and a["id"] in dd for a in i["args"][:2])
                    d2 = dirty or bool(writes_dest)
                    if rid and funcs[c].j["ret_ty"] == "i32":
                        nxt.append((hc, code, d2, clr1 and not writes_dest, clrf and not writes_dest, exempt, env, kadd(known, rid, True)))
                        nxt.append((min(hc + 1, 2), ("v", rid) if hc == 0 else code, d2 if not writes_dest else False, clr1 or bool(writes_dest), clrf or bool(writes_dest), exempt, env, kadd(known, rid, False)))
                    else:
                        nxt.append((hc, code, d2, clr1, clrf, exempt, env, known))
                        nxt.append((min(hc + 1, 2), ("nested", c) if hc == 0 else code, d2, clr1, clrf, exempt, env, known))
                    continue
                nxt.append((hc, code, dirty, clr1, clrf, exempt, env, known))
            states = nxt
        t = b["insts"][-1]
        for st in states:
            hc, code, dirty, clr1, clrf, exempt, env, known = st
            if t["op"] == "ret":
                rv = resolve(t["ops"][0], env) if t["ops"] else None
                results.append((blk, t.get("line"), hc, code, rv, dirty, clr1, clrf, exempt, known))
                continue
            if t["op"] == "unreachable": continue
            succs = []
            if t["op"] == "br":
                if "cond" in t:
                    dec = cond_decide(t["cond"], env, known)
                    cands = [(t["t"], True), (t["f"], False)] if dec is None else [(t["t"] if dec else t["f"], dec)]
                    for s2, val in cands:
                        ex = exempt
                        # exemption edges: dest == NULL (true), dmax == 0 (true), dmax > K (true), dmax > destbos (true)
                        cd = fn.defs.get(t["cond"]["id"]) if t["cond"]["k"] == "v" else None
                        if cd is not None and cd["op"] == "icmp":
                            a, bb_ = cd["ops"]; p = cd["pred"]
                            ak, bk = opkey(a), opkey(bb_)
                            if dest and ak == ("v", dest) and bb_["k"] == "null" and ((p == "eq" and val) or (p == "ne" and not val)): ex = True
                            if dmax and ak == ("v", dmax):
                                if bk == ("c", 0) and ((p == "eq" and val) or (p == "ne" and not val)): ex = True
                                if p == "ugt" and val and (bk[0] == "c" or (destbos and bk == ("v", destbos))): ex = True
                                if p == "ult" and val and bk[0] == "c": ex = True     # dmax < minimum
                        succs.append((s2, ex))
                else: succs = [(t["t"], exempt)]
            elif t["op"] == "switch":
                succs = [(x, exempt) for x in set([t["default"]] + [c["bb"] for c in t["cases"]])]
            for s2, ex in succs:
                # prune env to relevant phis only (already) ; drop known entries never consulted again? keep small: only last 4
                kn = known[-6:]
                key = (hc, code, dirty, clr1, clrf, ex, env, kn)
                if key not in seen[(s2, blk)]:
                    seen[(s2, blk)].add(key)
                    q.append((s2, blk, key))
    return results

def kadd(known, rid, val):
    d = dict(known); d[rid] = val
    return tuple(sorted(d.items()))

CONV = {}   # name -> convention
def convention(fn):
    n = fn.name
    if fn.j["ret_ty"] != "i32":
        return "ptr" if fn.j["ret_ty"].endswith("*") else "other"
    if "scanf" in n: return "eof"
    if "printf" in n or n in ("_towfc_s_chk", "iswfc", "_decomp_s", "_towfc_single"): return "count"
    if "timingsafe" in n: return "count"
    return "errno"

def main():
    funcs = {}
    for f in sorted(glob.glob("/tmp/probe/json/*.json")):
        m = json.load(open(f))
        for F in m["functions"]:
            if not F["decl"]:
                fn = Fn(F)
                if not F["internal"] or F["name"] not in funcs: funcs[F["name"]] = fn
    only = sys.argv[1:]
    nfun = nbad5 = nbad4 = 0; blown = []
    t0 = time.time()
    for name, fn in sorted(funcs.items()):
        if fn.j["internal"] and name not in ("handle_str_bos_overflow",): continue
        if only and not any(o in name for o in only): continue
        if name in HANDLERS or name.startswith("mem_prim") or name in ("abort_handler_s", "ignore_handler_s", "invoke_safe_str_constraint_handler", "invoke_safe_mem_constraint_handler"): continue
        conv = convention(fn)
        t1 = time.time()
        fs = analyse(fn, funcs)
        if fs is None: blown.append(name); continue
        nfun += 1
        i5 = set(); i4 = set()
        has_dest = "dest" in fn.pn
        for (blk, line, hc, code, rv, dirty, clr1, clrf, exempt, known) in fs:
            kd = dict(known)
            if hc >= 2: i5.add((line, "handler may run twice", str(code), str(rv)))
            if conv == "errno":
                iserr = None
                if rv is not None and rv[0] == "c": iserr = rv[1] not in (0, 409, 408, -1)
                elif rv is not None and rv[0] == "v" and rv[1] in kd: iserr = not kd[rv[1]]
                if hc == 1:
                    same = (code == rv) or (code and rv and code[0] == "c" and rv[0] == "c" and abs(code[1]) == abs(rv[1]))
                    if not same: i5.add((line, "handler code != returned", str(code), str(rv)))
                elif hc == 0 and iserr:
                    i5.add((line, "error returned, no handler", "-", str(rv)))
                if has_dest and iserr and not exempt:
                    if not clr1: i4.add((line, "error exit without clearing dest[0]", str(rv)))
                    elif dirty: i4.add((line, "error exit after writes without full clear", str(rv)))
        if i5: nbad5 += 1
        if i4: nbad4 += 1
        if i5 or i4:
            print("%-30s (%s, %.1fs)" % (name, conv, time.time() - t1))
            for x in sorted(i5, key=lambda z: (z[0] or 0)): print("   C05  line %-5s %-30s code=%-24s ret=%s" % x)
            for x in sorted(i4, key=lambda z: (z[0] or 0)): print("   C04  line %-5s %-44s ret=%s" % x)
    print("functions analysed %d in %.0fs; C05 issues in %d, C04 issues in %d; budget exceeded: %s" % (nfun, time.time() - t0, nbad5, nbad4, blown))

if __name__ == "__main__":
    main()
