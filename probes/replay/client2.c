#include <stddef.h>
typedef int errno_t; typedef size_t rsize_t;
extern errno_t _strzero_s_chk(char *dest, rsize_t dmax, const size_t destbos);
extern void fill(char *p);
void client(void) {
    char secret[64];
    fill(secret);
    _strzero_s_chk(secret, 64, 64);
}
