#include <stdio.h>
#include <locale.h>
#include <wchar.h>
#include "safe_lib.h"
#include "safe_str_lib.h"
int main(void){ char b[64]; setlocale(LC_ALL,"C.UTF-8"); int r=_sprintf_s_chk(b,64,(size_t)-1,"%lc",(wint_t)0x4000000); printf("r=%d\n",r); return 0; }
