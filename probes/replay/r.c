#define _GNU_SOURCE
#include <stdio.h>
#include <stdlib.h>
#include <string.h>
#include <wchar.h>
#include <locale.h>
#include <stdarg.h>
#include <signal.h>
#include <unistd.h>
#include <sys/mman.h>
#include <sys/wait.h>
#include "safe_lib.h"
#include "safe_str_lib.h"
#include "safe_mem_lib.h"

static int hcount; static int hcodes[8];
static void H(const char *m, void *p, errno_t e){ if (hcount<8) hcodes[hcount]=e; hcount++; }

/* returns pointer to n bytes ending exactly at a PROT_NONE page */
static char *guard_after(size_t n){
  long pg=sysconf(_SC_PAGESIZE); char *m=mmap(0,3*pg,PROT_READ|PROT_WRITE,MAP_PRIVATE|MAP_ANONYMOUS,-1,0);
  mprotect(m+2*pg,pg,PROT_NONE); mprotect(m,pg,PROT_NONE); return m+2*pg-n; }

#define RUN(name, ...) do{ fflush(stdout); pid_t c=fork(); if(!c){ __VA_ARGS__; fflush(stdout); _exit(0);} int st; waitpid(c,&st,0); \
  if (WIFSIGNALED(st)) printf("%-28s SIGNAL %d\n", name, WTERMSIG(st)); else printf("%-28s exit %d\n", name, WEXITSTATUS(st)); }while(0)

static int call_vprintf_s(const char *fmt, ...){ va_list ap; va_start(ap,fmt); int r=vprintf_s(fmt,ap); va_end(ap); return r; }
static int call_vsscanf_s(const char *s,const char *fmt, ...){ va_list ap; va_start(ap,fmt); int r=vsscanf_s(s,fmt,ap); va_end(ap); return r; }

int main(void){
  set_str_constraint_handler_s(H); set_mem_constraint_handler_s(H);
  RUN("C02 strnlen_s exact-fit", { char *p=guard_after(8); memset(p,'a',8); rsize_t r=_strnlen_s_chk(p,8,(size_t)-1); printf(" r=%zu\n",(size_t)r); });
  RUN("C02 strcmp_s exact-fit", { char *p=guard_after(8); memset(p,'a',8); int d; _strcmp_s_chk(p,8,"aaaaaaaaaa",&d,(size_t)-1,(size_t)-1); });
  RUN("C01 strtok_s unterminated", { char *p=guard_after(8); memset(p,'a',8); rsize_t m=8; char *q; char *t=_strtok_s_chk(p,&m,",",&q,(size_t)-1); printf(" t=%p\n",(void*)t); });
  RUN("C05 double handler strcpy", { static char big[8192]; hcount=0; errno_t r=_strcpy_s_chk(big,9000,"x",8192); printf(" r=%d hcount=%d codes=%d,%d\n",r,hcount,hcodes[0],hcodes[1]); });
  RUN("C05 stpcpy code mismatch", { char b[8]; errno_t e=0; hcount=0; _stpcpy_s_chk(b,0,"x",&e,(size_t)-1,(size_t)-1); printf(" err=%d handler=%d\n",e,hcodes[0]); });
  RUN("C09 vprintf_s %ln", { long n=-1; hcount=0; int r=call_vprintf_s("abc%ln\n",&n); printf(" r=%d n=%ld hcount=%d\n",r,n,hcount); });
  RUN("C09 vsscanf_s %%%n", { int n=-1; hcount=0; int r=call_vsscanf_s("%x","%%%n",&n); printf(" r=%d n=%d hcount=%d\n",r,n,hcount); });
  RUN("C09 sscanf_s %ln", { long n=-1; int a=0; hcount=0; int r=sscanf_s("12 x","%d%ln",&a,&n); printf(" r=%d a=%d n=%ld hcount=%d\n",r,a,n,hcount); });
  RUN("C01 wcrtomb_s dmax=1", { setlocale(LC_ALL,"C.UTF-8"); char *p=guard_after(1); size_t r; mbstate_t ps; memset(&ps,0,sizeof ps); errno_t e=_wcrtomb_s_chk(&r,p,1,L'€',&ps,(size_t)-1); printf(" e=%d\n",e); });
  RUN("C01 memset_s n>dmax bos", { char b[16]; memset(b,'x',16); hcount=0; errno_t e=_memset_s_chk(b,4,0,10,16); int z=0; for(int i=0;i<16;i++) z+= b[i]==0; printf(" e=%d zeroed=%d (dmax=4)\n",e,z); });
  RUN("C01 sprintf_s %lc dmax=2", { setlocale(LC_ALL,"C.UTF-8"); char *p=guard_after(2); int r=_sprintf_s_chk(p,2,(size_t)-1,"%lc",(wint_t)0x20ac); printf(" r=%d\n",r); });
  RUN("C01 mbstowcs_s len>dmax", { wchar_t *w=(wchar_t*)guard_after(4*sizeof(wchar_t)); size_t r; errno_t e=_mbstowcs_s_chk(&r,w,4,"abcdefghijkl",12,(size_t)-1); printf(" e=%d\n",e); });
  RUN("C04 stpcpy_s srcbos unterm", { char d[16]; memset(d,'#',16); errno_t e=0; char s[4]={'a','b','c','d'}; _stpcpy_s_chk(d,16,s,&e,(size_t)-1,4); printf(" e=%d d[0]=%c\n",e,d[0]); });
  RUN("C14 strtok_s last token ptr", { char s[]="ab"; rsize_t m=sizeof s; char *q=(char*)0x1; char *t=_strtok_s_chk(s,&m,",",&q,(size_t)-1); printf(" t=%s q=%p m=%zu\n",t,(void*)q,(size_t)m); });
  RUN("C06 stpncpy_s slen", { char d[16]; errno_t e=0; char *r=_stpncpy_s_chk(d,16,"abcdef",3,&e,(size_t)-1,(size_t)-1); printf(" e=%d d=%s\n",e,d); });
  RUN("C10 strpbrk_s clears dest", { char d[8]="hello"; char s[4]="xyz"; char *f; errno_t e=_strpbrk_s_chk(d,8,s,5,&f,8,4); printf(" e=%d d[0]=%d\n",e,d[0]); });
  return 0; }
