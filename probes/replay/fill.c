#include <string.h>
void fill(char *p) { memset(p, 'A', 63); p[63] = 0; __asm__ volatile("" : : "r"(p) : "memory"); }
