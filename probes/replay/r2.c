#include <stdio.h>
#include <string.h>
#include "safe_lib.h"
#include "safe_str_lib.h"
static int hcount; static int hcodes[8];
static void H(const char *m, void *p, errno_t e){ if (hcount<8) hcodes[hcount]=e; hcount++; printf("  handler: %s (%d)\n", m, e); }
int main(void){
  set_str_constraint_handler_s(H);
  { char d[16]; char s[4]="abc"; memset(d,'#',16); hcount=0; errno_t r=_strncpy_s_chk(d,16,s,8,(size_t)-1,4); printf("strncpy_s slen>srcbos, destbos unknown: r=%d hcount=%d d[0]=%c\n", r, hcount, d[0]); }
  { static char big[8192]; big[0]='q'; big[1]=0; hcount=0; errno_t r=_strncpy_s_chk(big,8192,"abc",5000,8192,(size_t)-1); printf("strncpy_s slen>MAX, dmax=destbos=8192: r=%d hcount=%d\n", r, hcount); }
  { static char big[8192]; hcount=0; errno_t r=_strcpy_s_chk(big,8192,"abc",8192); printf("strcpy_s dmax=destbos=8192 > RSIZE_MAX_STR: r=%d hcount=%d big=%s\n", r, hcount, big); }
  return 0; }
