#include <stddef.h>
#include <stdint.h>
typedef int errno_t; typedef size_t rsize_t;
extern errno_t _memset_s_chk(void *dest, rsize_t dmax, int value, rsize_t n, const size_t destbos);
extern errno_t _memzero_s_chk(void *dest, rsize_t len, const size_t destbos);
extern errno_t _memset16_s_chk(uint16_t *dest, rsize_t dmax, uint16_t value, rsize_t n, const size_t destbos);
extern errno_t _memzero32_s_chk(uint32_t *dest, rsize_t len, const size_t destbos);
extern void fill(char *p);
__attribute__((noinline)) void client_memset(void) { char secret[64]; fill(secret); _memset_s_chk(secret, 64, 0, 64, 64); }
__attribute__((noinline)) void client_memzero(void) { char secret[64]; fill(secret); _memzero_s_chk(secret, 64, 64); }
__attribute__((noinline)) void client_memset16(void) { uint16_t secret[32]; fill((char*)secret); _memset16_s_chk(secret, 64, 0, 32, 64); }
__attribute__((noinline)) void client_memzero32(void) { uint32_t secret[16]; fill((char*)secret); _memzero32_s_chk(secret, 16, 64); }
int main(void){ client_memset(); client_memzero(); client_memset16(); client_memzero32(); return 0; }
