#include <stddef.h>
typedef int errno_t; typedef size_t rsize_t;
extern errno_t _memset_s_chk(void *dest, rsize_t dmax, int value, rsize_t n, const size_t destbos);
extern void fill(char *p);
void client(void) {
    char secret[64];
    fill(secret);
    _memset_s_chk(secret, 64, 0, 64, 64);
}
