#!/usr/bin/env python3
"""Throw-away prototype of the bounded-access engine (capcheck) -- feasibility probe only."""
import json, glob, sys, itertools, os
from fractions import Fraction as Fr
from collections import defaultdict

# ---------------------------------------------------------------- linear forms
class Lin:
    __slots__ = ("t", "c")
    def __init__(self, t=None, c=0):
        self.t = {k: Fr(v) for k, v in (t or {}).items() if v != 0}
        self.c = Fr(c)
    @staticmethod
    def atom(a): return Lin({a: 1}, 0)
    @staticmethod
    def const(c): return Lin({}, c)
    def __add__(s, o):
        t = dict(s.t)
        for k, v in o.t.items():
            t[k] = t.get(k, 0) + v
        return Lin(t, s.c + o.c)
    def __neg__(s): return Lin({k: -v for k, v in s.t.items()}, -s.c)
    def __sub__(s, o): return s + (-o)
    def scale(s, k): return Lin({a: v * k for a, v in s.t.items()}, s.c * k)
    def is_const(s): return not s.t
    def atoms(s): return set(s.t)
    def subst(s, a, l):
        if a not in s.t: return s
        k = s.t[a]
        r = Lin({x: v for x, v in s.t.items() if x != a}, s.c)
        return r + l.scale(k)
    def __repr__(s):
        parts = []
        for a, v in sorted(s.t.items()):
            parts.append(("%s" % a) if v == 1 else ("-%s" % a) if v == -1 else "%s*%s" % (v, a))
        if s.c != 0 or not parts: parts.append(str(s.c))
        return " + ".join(parts).replace("+ -", "- ")
    def key(s): return (tuple(sorted(s.t.items())), s.c)

# constraints are Lin l meaning  l >= 0
def fm_unsat(cons, limit=4000):
    """Fourier-Motzkin: True if {l >= 0 for l in cons} has no rational solution."""
    cons = list({c.key(): c for c in cons}.values())
    while True:
        # constants
        nc = []
        for c in cons:
            if c.is_const():
                if c.c < 0: return True
            else: nc.append(c)
        cons = nc
        if not cons: return False
        # pick variable with minimal pos*neg
        occ = defaultdict(lambda: [0, 0])
        for c in cons:
            for a, v in c.t.items():
                occ[a][0 if v > 0 else 1] += 1
        var = min(occ, key=lambda a: occ[a][0] * occ[a][1] - occ[a][0] - occ[a][1])
        pos = [c for c in cons if c.t.get(var, 0) > 0]
        neg = [c for c in cons if c.t.get(var, 0) < 0]
        rest = [c for c in cons if var not in c.t]
        new = []
        for p in pos:
            for n in neg:
                # p: a*x + P >= 0 (a>0) ; n: -b*x + N >= 0 (b>0)  =>  b*P + a*N >= 0
                a = p.t[var]; b = -n.t[var]
                new.append(p.scale(b) + n.scale(a))
        cons = list({c.key(): c for c in rest + new}.values())
        if len(cons) > limit: return False  # give up = not proven

def entails(facts, goal):
    """facts: list of Lin (>=0). goal: Lin (>=0). integers: not goal  <=>  goal <= -1"""
    return fm_unsat(facts + [(-goal) + Lin.const(-1)])

# ---------------------------------------------------------------- IR model
class Fn:
    def __init__(s, j, mod):
        s.j = j; s.name = j["name"]; s.mod = mod
        s.blocks = {b["id"]: b for b in j["blocks"]}
        s.order = [b["id"] for b in j["blocks"]]
        s.defs = {}; s.where = {}
        for b in j["blocks"]:
            for i in b["insts"]:
                if "id" in i: s.defs[i["id"]] = i; s.where[i["id"]] = b["id"]
        s.params = {p["id"]: p for p in j["params"]}
        s.succ = defaultdict(list)
        for b in j["blocks"]:
            t = b["insts"][-1]
            if t["op"] == "br":
                s.succ[b["id"]].append(t["t"])
                if "f" in t: s.succ[b["id"]].append(t["f"])
            elif t["op"] == "switch":
                s.succ[b["id"]] += [t["default"]] + [c["bb"] for c in t["cases"]]
        s.loops = {l["header"]: l for l in j["loops"]}
        s.idom = {b["id"]: b.get("idom") for b in j["blocks"]}
    def dominates(s, a, b):
        while b is not None:
            if a == b: return True
            b = s.idom.get(b)
        return False

UNSIGNED_PARAMS = ("dmax", "slen", "smax", "n", "len", "dlen", "count", "destbos", "srcbos", "strbos", "nmemb", "size", "maxlen", "idx", "bufsize", "maxsize")

class Analysis:
    def __init__(s, fn, funcs):
        s.fn = fn; s.funcs = funcs
        s.lincache = {}; s.ptrcache = {}
        s.offphi = {}      # pointer phi id -> (root, offset atom)
        s.extra_eq = []    # equalities (Lin == 0) introduced by decompositions
        s.notes = []
        s.retb_done = set()

    # ---- integer linear form
    def lin(s, o):
        if o["k"] == "c": return Lin.const(o["v"])
        if o["k"] != "v": return Lin.atom("?" + json.dumps(o, sort_keys=True)[:40])
        v = o["id"]
        if v in s.lincache: return s.lincache[v]
        s.lincache[v] = Lin.atom(v)  # cycle guard
        r = s._lin(v)
        s.lincache[v] = r
        return r
    def _lin(s, v):
        d = s.fn.defs.get(v)
        if d is None: return Lin.atom(v)     # parameter
        op = d["op"]
        if op in ("add", "sub"):
            a, b = s.lin(d["ops"][0]), s.lin(d["ops"][1])
            return a + b if op == "add" else a - b
        if op == "mul":
            a, b = s.lin(d["ops"][0]), s.lin(d["ops"][1])
            if a.is_const(): return b.scale(a.c)
            if b.is_const(): return a.scale(b.c)
            return Lin.atom(v)
        if op == "shl":
            a, b = s.lin(d["ops"][0]), s.lin(d["ops"][1])
            if b.is_const() and 0 <= b.c < 32: return a.scale(2 ** int(b.c))
            return Lin.atom(v)
        if op in ("zext", "sext", "trunc", "ptrtoint", "bitcast") and d["ty"].startswith("i"):
            if op == "ptrtoint": return Lin.atom(v)
            return s.lin(d["ops"][0])
        if op == "udiv":
            a, b = s.lin(d["ops"][0]), s.lin(d["ops"][1])
            if b.is_const() and b.c > 0:
                # v = a / k : k*v <= a  and a <= k*v + k-1
                s.extra_ineq.append(a - Lin.atom(v).scale(b.c))
                s.extra_ineq.append(Lin.atom(v).scale(b.c) + Lin.const(b.c - 1) - a)
            return Lin.atom(v)
        if op == "call" and d.get("callee") in RETBOUND:
            bi = RETBOUND[d["callee"]]
            if v not in s.retb_done:
                s.retb_done.add(v)
                s.extra_ineq.append(s.lin(d["args"][bi]) - Lin.atom(v))
                s.extra_ineq.append(Lin.atom(v))
            return Lin.atom(v)
        return Lin.atom(v)

    # ---- pointer decomposition: (root, byte offset Lin)
    def ptr(s, o):
        if o["k"] == "null": return ("null", Lin.const(0))
        if o["k"] == "g": return ("@" + o["name"], Lin.const(0))
        if o["k"] == "ce":
            if o.get("op") == "getelementptr":
                r, off = s.ptr(o["base"])
                off = off + Lin.const(o["coff"])
                return (r, off)
            if o.get("op") == "bitcast": return s.ptr(o["ops"][0])
            return ("?ce", Lin.const(0))
        if o["k"] != "v": return ("?", Lin.const(0))
        v = o["id"]
        if v in s.ptrcache: return s.ptrcache[v]
        s.ptrcache[v] = (v, Lin.const(0))
        r = s._ptr(v)
        s.ptrcache[v] = r
        return r
    def _ptr(s, v):
        d = s.fn.defs.get(v)
        if d is None: return (v, Lin.const(0))
        op = d["op"]
        if op == "getelementptr":
            r, off = s.ptr(d["base"])
            off = off + Lin.const(d["coff"])
            for t in d["terms"]:
                off = off + s.lin(t["v"]).scale(t["stride"])
            return (r, off)
        if op in ("bitcast",): return s.ptr(d["ops"][0])
        if op == "phi":
            roots = set(); self_only = True
            incs = []
            for inc in d["incoming"]:
                r, off = s.ptr(inc["v"])
                incs.append((r, off, inc["bb"]))
            roots = {r for r, _, _ in incs if r != v}
            if len(roots) == 1:
                root = roots.pop()
                a = "off(" + v + ")"
                s.offphi[v] = (root, a, [((off if r == root else (Lin.atom(a) + off) if r == v else None), bb) for r, off, bb in incs])
                return (root, Lin.atom(a))
            return (v, Lin.const(0))
        return (v, Lin.const(0))

    extra_ineq = []

# ---------------------------------------------------------------- per-function driver
def block_guards(fn, A, blk):
    """conditions known at entry of blk from dominating single-pred conditional edges"""
    facts = []
    b = blk
    seen = set()
    while b is not None and b not in seen:
        seen.add(b)
        preds = fn.blocks[b]["preds"]
        if len(preds) == 1:
            p = preds[0]
            t = fn.blocks[p]["insts"][-1]
            if t["op"] == "br" and "cond" in t and t["t"] != t.get("f"):
                val = (t["t"] == b)
                facts += cond_facts(fn, A, t["cond"], val)
            elif t["op"] == "switch":
                cases = [c for c in t["cases"] if c["bb"] == b]
                x = A.lin(t["cond"])
                if b != t["default"] and len(cases) == 1:
                    k = Lin.const(cases[0]["v"])
                    facts += [x - k, k - x]
                elif b == t["default"] and not cases:
                    vals = sorted(c["v"] for c in t["cases"])
                    # default: x not in vals. if vals == 1..m contiguous and x >= 1 known elsewhere -> x >= m+1 ; encode weak: handled by caller via 'notin'
                    facts.append(("notin", x, vals))
        b = fn.idom.get(b)
    return facts

def cond_facts(fn, A, cond, val):
    """facts (list of Lin >= 0) implied by cond == val"""
    if cond["k"] != "v": return []
    d = fn.defs.get(cond["id"])
    if d is None: return []
    if d["op"] in ("zext", "sext") :
        return cond_facts(fn, A, d["ops"][0], val)
    if d["op"] == "phi" and d["ty"] == "i1":
        live = []
        for inc in d["incoming"]:
            if inc["v"]["k"] == "c" and bool(inc["v"]["v"]) != val: continue
            live.append(inc)
        if len(live) == 1:
            inc = live[0]
            f = block_guards(fn, A, inc["bb"])
            if inc["v"]["k"] == "v": f = f + cond_facts(fn, A, inc["v"], val)
            return f
        return []
    if d["op"] == "icmp":
        a, b = d["ops"]
        # (zext i1 x) != 0  /  == 0
        if b["k"] == "c" and b["v"] == 0 and a["k"] == "v" and d["pred"] in ("ne", "eq"):
            da = fn.defs.get(a["id"])
            if da is not None and (da["ty"] == "i1" or (da["op"] in ("zext", "sext") and da["ops"][0].get("ty") == "i1")):
                return cond_facts(fn, A, a, val if d["pred"] == "ne" else not val)
        if "*" in a.get("ty", "") or "*" in b.get("ty", "") or a["k"] == "null" or b["k"] == "null":
            return []
        x, y = A.lin(a), A.lin(b)
        p = d["pred"]
        if not val:
            p = {"eq": "ne", "ne": "eq", "ugt": "ule", "uge": "ult", "ult": "uge", "ule": "ugt",
                 "sgt": "sle", "sge": "slt", "slt": "sge", "sle": "sgt"}[p]
        p = p.lstrip("us") if p not in ("eq", "ne") else p
        if p == "gt": return [x - y - Lin.const(1)]
        if p == "ge": return [x - y]
        if p == "lt": return [y - x - Lin.const(1)]
        if p == "le": return [y - x]
        if p == "eq": return [x - y, y - x]
        if p == "ne":
            return [("ne", x, y)]
        return []
    if d["op"] in ("and", "or") and d["ty"] == "i1":
        # and true => both ; or false => both false
        if (d["op"] == "and" and val) or (d["op"] == "or" and not val):
            return cond_facts(fn, A, d["ops"][0], val) + cond_facts(fn, A, d["ops"][1], val)
    if d["op"] == "xor" and d["ty"] == "i1":
        o = d["ops"]
        if o[1]["k"] == "c": return cond_facts(fn, A, o[0], not val)
    return []

def normalize_facts(facts, nonneg):
    """turn ('ne', x, y) with known x>=y into x>=y+1 etc; return pure Lin list"""
    pure = [f for f in facts if isinstance(f, Lin)]
    base = pure + nonneg
    out = list(pure)
    for f in facts:
        if isinstance(f, tuple) and f[0] == "ne":
            _, x, y = f
            if entails(base, x - y): out.append(x - y - Lin.const(1))
            elif entails(base, y - x): out.append(y - x - Lin.const(1))
        if isinstance(f, tuple) and f[0] == "notin":
            _, x, vals = f
            # smallest allowed value progression
            lo = None
            # find lower bound candidates: if x >= v0 is entailed, bump past consecutive vals
            for start in (0, 1):
                if entails(base + out, x - Lin.const(start)):
                    lo = start
            if lo is not None:
                vs = set(vals)
                while lo in vs: lo += 1
                out.append(x - Lin.const(lo))
    return out

def analyse(fn, funcs, roles, verbose=False):
    A = Analysis(fn, funcs); A.extra_ineq = []
    res = []
    # capacities (bytes) of parameter roots
    caps = {}
    pn = {p["name"]: p for p in fn.j["params"]}
    def psz(p):
        t = p["ty"]
        return {"i8*": 1, "i16*": 2, "i32*": 4, "i64*": 8}.get(t, 1)
    for (bufname, lenname, unit) in roles.get(fn.name, []):
        if bufname in pn and lenname in pn:
            u = unit if unit else psz(pn[bufname])
            caps[pn[bufname]["id"]] = Lin.atom(pn[lenname]["id"]).scale(u)
    nonneg = []
    for p in fn.j["params"]:
        if p["ty"] in ("i64", "i32") and p["name"] in UNSIGNED_PARAMS:
            nonneg.append(Lin.atom(p["id"]))
    # force decomposition of all pointer phis and lin of all ints
    for b in fn.j["blocks"]:
        for i in b["insts"]:
            if "id" in i:
                if i["ty"].endswith("*"): A.ptr({"k": "v", "id": i["id"]})
                elif i["ty"].startswith("i"): A.lin({"k": "v", "id": i["id"]})
    # ---- loop equalities (Karr-lite on header phis)
    eqs = []       # Lin == 0
    eq_loop = []
    hdr_ranges = []  # Lin >= 0 proven by induction
    loopinfo = {}
    for h, L in fn.loops.items():
        hb = fn.blocks[h]
        inside = set(L["blocks"])
        phis = []
        for i in hb["insts"]:
            if i["op"] != "phi": continue
            v = i["id"]
            if i["ty"].endswith("*"):
                if v not in A.offphi: continue
                root, a, incs = A.offphi[v]
                if any(off is None for off, _ in incs):
                    # self-referential entries: off None means root==v (shouldn't)
                    continue
                init = [off for off, bb in incs if bb not in inside]
                nxt = [(off, bb) for off, bb in incs if bb in inside]
                phis.append((a, init, nxt))
            elif i["ty"].startswith("i"):
                init = [A.lin(inc["v"]) for inc in i["incoming"] if inc["bb"] not in inside]
                nxt = [(A.lin(inc["v"]), inc["bb"]) for inc in i["incoming"] if inc["bb"] in inside]
                phis.append((v, init, nxt))
        phis = [p for p in phis if len(p[1]) == 1 and p[2]]
        if not phis: continue
        # increments per latch
        latches = sorted({bb for _, _, nx in phis for _, bb in nx})
        rows = []   # each row: for one (latch, basis-atom) the coefficient per phi
        basis = set()
        inc = {}
        for (a, init, nxt) in phis:
            for off, bb in nxt:
                d = off - Lin.atom(a)
                inc[(a, bb)] = d
                basis |= d.atoms()
        basis = sorted(basis) + ["#1"]
        names = [p[0] for p in phis]
        M = []
        for bb in latches:
            for bt in basis:
                row = []
                for a in names:
                    d = inc.get((a, bb))
                    if d is None: row.append(Fr(0)); continue
                    row.append(d.c if bt == "#1" else d.t.get(bt, Fr(0)))
                if any(row): M.append(row)
        ns = nullspace(M, len(names))
        inits = {p[0]: p[1][0] for p in phis}
        for vec in ns:
            l = Lin.const(0)
            for a, k in zip(names, vec):
                if k: l = l + (Lin.atom(a) - inits[a]).scale(k)
            eqs.append(l); eq_loop.append(h)
        loopinfo[h] = (names, inits, inc, latches)
    # ---- Houdini ranges
    cands = []
    for h, (names, inits, inc, latches) in loopinfo.items():
        for a in names:
            cands.append((h, a, "le", inits[a] - Lin.atom(a)))
            cands.append((h, a, "ge", Lin.atom(a) - inits[a]))
            cands.append((h, a, "ge0", Lin.atom(a)))
            cands.append((h, a, "ge1", Lin.atom(a) - Lin.const(1)))
        consts = set()
        for bid in fn.loops[h]["blocks"]:
            for i in fn.blocks[bid]["insts"]:
                if i["op"] == "icmp":
                    for o in i["ops"]:
                        if o["k"] == "c" and 0 < o["v"] <= 4096: consts.add(o["v"])
        for a in names:
            for K in consts:
                cands.append((h, a, "leK", Lin.const(K) - Lin.atom(a)))
                cands.append((h, a, "leK", Lin.const(K - 1) - Lin.atom(a)))
    # candidate lockstep equalities (cursor offset / unit + budget == const), proved by induction per path
    for h, (names, inits, inc, latches) in loopinfo.items():
        offs = [a for a in names if a.startswith("off(")]
        ints = [a for a in names if not a.startswith("off(")]
        for a in offs:
            v = a[4:-1]
            unit = fn.defs[v].get("pointee_size", 1) or 1
            for n in ints:
                for sgn in (1, -1):
                    l = (Lin.atom(a) - inits[a]).scale(Fr(1, unit)) + (Lin.atom(n) - inits[n])
                    cands.append((h, (a, n), "pair", l.scale(sgn)))
    def eqfacts(): return [e for e in eqs] + [-e for e in eqs]
    def inside_or_same(h2, h):
        return h2 == h or h2 in set(fn.loops[h]["blocks"])
    def live_facts(point, cands, exclude=None):
        """facts of loops whose header dominates `point` (their current instance exists on every path to point)"""
        out = []
        for e, eh in zip(eqs, eq_loop):
            if eh != exclude and fn.dominates(eh, point): out += [e, -e]
        for c in cands:
            if c[0] != exclude and fn.dominates(c[0], point): out.append(c[3])
        return out
    changed = True
    while changed:
        changed = False
        assumed = [c[3] for c in cands]
        for cand in list(cands):
            h, a, kind, l = cand
            names, inits, inc, latches = loopinfo[h]
            ok = True
            if kind == "pair":
                for bb in latches:
                    g = l
                    for a2 in names:
                        d2 = inc.get((a2, bb))
                        if d2 is not None and a2 in g.atoms(): g = g.subst(a2, Lin.atom(a2) + d2)
                    lf = live_facts(bb, cands)
                    gf = normalize_facts(block_exit_facts(fn, A, bb, h), nonneg + lf)
                    hdr_atoms = set()
                    for hh, (nn, _, _, _) in loopinfo.items(): hdr_atoms |= set(nn)
                    if not entails_split(fn, A, gf + nonneg + lf + A.extra_ineq, g, hdr_atoms, bb, 0, lambda b: live_facts(b, cands)):
                        ok = False; break
                if not ok:
                    cands.remove(cand); changed = True
                continue
            # base: at entry a == init: le/ge trivial ; ge0 needs init >= 0
            if kind in ("ge0", "ge1", "leK"):
                pre = [bb for bb in fn.blocks[h]["preds"] if bb not in set(fn.loops[h]["blocks"])]
                gf = []
                for bb in pre: gf += block_exit_facts(fn, A, bb, h)
                g0 = l.subst(a, inits[a])
                for bb in pre:
                    of = live_facts(bb, cands, exclude=h)
                    gfb = normalize_facts(block_exit_facts(fn, A, bb, h), nonneg + of)
                    if not entails(gfb + nonneg + of + A.extra_ineq, g0):
                        ok = False
            for bb in latches:
                if not ok: break
                d = inc.get((a, bb))
                if d is None: continue
                lf = live_facts(bb, cands)
                gf = block_exit_facts(fn, A, bb, h)
                gf = normalize_facts(gf, nonneg + lf)
                nxt = Lin.atom(a) + d
                goal = {"le": inits[a] - nxt, "ge": nxt - inits[a]}.get(kind)
                if goal is None: goal = l.subst(a, nxt)
                if not entails(gf + nonneg + lf + A.extra_ineq, goal):
                    ok = False
            if not ok:
                cands.remove(cand); changed = True
    ranges = [c[3] for c in cands]
    headers_atoms = set()
    for h, (names, inits, inc, latches) in loopinfo.items(): headers_atoms |= set(names)
    # ---- obligations
    def facts_at(blk):
        gf = block_guards(fn, A, blk)
        base = nonneg + live_facts(blk, cands) + A.extra_ineq
        return normalize_facts(gf, base) + base
    def check(blk, what, line, root, off, size, kind):
        cap = caps.get(root)
        if cap is None:
            d = fn.defs.get(root)
            if d is not None and d["op"] == "alloca" and "alloc_size" in d:
                cap = Lin.const(d["alloc_size"])
            elif root.startswith("@"):
                g = fn.mod["gmap"].get(root[1:])
                if g and "size" in g: cap = Lin.const(g["size"])
        if cap is None: return
        F = facts_at(blk)
        lo = entails_split(fn, A, F, off, headers_atoms, blk, 0, lambda b: live_facts(b, cands))
        hi = entails_split(fn, A, F, cap - off - size, headers_atoms, blk, 0, lambda b: live_facts(b, cands))
        res.append(dict(fn=fn.name, line=line, kind=kind, what=what, root=root, off=repr(off), size=repr(size), cap=repr(cap), lo=lo, hi=hi))
    for b in fn.j["blocks"]:
        for i in b["insts"]:
            op = i["op"]
            if op in ("load", "store"):
                po = i["ops"][0] if op == "load" else i["ops"][1]
                root, off = A.ptr(po)
                check(b["id"], op, i.get("line"), root, off, Lin.const(i["size"]), "R" if op == "load" else "W")
            elif op == "call":
                cal = i.get("callee", "")
                eff = EFFECTS.get(cal)
                if cal.startswith("llvm.memset"): eff = [("W", 0, ("arg", 2, 1))]
                if cal.startswith("llvm.memcpy") or cal.startswith("llvm.memmove"): eff = [("W", 0, ("arg", 2, 1)), ("R", 1, ("arg", 2, 1))]
                if eff is None and cal in funcs and cal in ROLES:
                    callee = funcs[cal]
                    cpn = [p["name"] for p in callee.j["params"]]
                    eff = []
                    for (bn, ln, unit) in ROLES[cal]:
                        if bn in cpn and ln in cpn:
                            u = unit or {"i8*": 1, "i16*": 2, "i32*": 4}.get(callee.j["params"][cpn.index(bn)]["ty"], 1)
                            eff.append(("W", cpn.index(bn), ("arg", cpn.index(ln), u)))
                if not eff: continue
                for (k, pi, ln) in eff:
                    if pi >= len(i["args"]): continue
                    root, off = A.ptr(i["args"][pi])
                    if ln[0] == "arg": size = A.lin(i["args"][ln[1]]).scale(ln[2])
                    else: size = Lin.const(ln[1])
                    check(b["id"], "call " + cal, i.get("line"), root, off, size, k)
    return res, eqs, ranges, A

def merge_cases(fn, A, atom):
    """if atom is a non-header merge phi (int or pointer offset) return list of (Lin value, pred block, phi block)"""
    if atom.startswith("off("):
        v = atom[4:-1]
        if v not in A.offphi: return None
        root, a, incs = A.offphi[v]
        if any(o is None for o, _ in incs): return None
        return [(o, bb, fn.where[v]) for o, bb in incs]
    d = fn.defs.get(atom)
    if d is None or d["op"] != "phi" or not d["ty"].startswith("i") or d["ty"] == "i1": return None
    return [(A.lin(inc["v"]), inc["bb"], fn.where[atom]) for inc in d["incoming"]]

def entails_split(fn, A, F, goal, hdr, blk, depth=0, lf=None):
    if entails(F, goal): return True
    if depth >= 3: return False
    atoms = set(goal.atoms())
    for f in F: atoms |= f.atoms()
    def splittable(a):
        mc = merge_cases(fn, A, a)
        return a not in hdr and mc and fn.dominates(mc[0][2], blk)
    cand = [a for a in sorted(goal.atoms()) if splittable(a)]
    if not cand:
        cand = [a for a in sorted(atoms) if splittable(a)]
    for a in cand[:2]:
        cases = merge_cases(fn, A, a)
        pb = cases[0][2]
        # all merge atoms defined in the same block are substituted together, per incoming edge
        group = {}
        for b2 in sorted(atoms | set(goal.atoms())):
            mc = merge_cases(fn, A, b2)
            if b2 not in hdr and mc and mc[0][2] == pb:
                group[b2] = {pred: val for (val, pred, _) in mc}
        preds = sorted({pred for (_, pred, _) in cases})
        ok = True
        for pred in preds:
            sub = {b2: m[pred] for b2, m in group.items() if pred in m}
            if any(b2 in v.atoms() for b2, v in sub.items()): ok = False; break
            def S(l):
                for b2, v in sub.items(): l = l.subst(b2, v)
                return l
            extra = lf(pred) if lf else []
            gf = normalize_facts(block_exit_facts(fn, A, pred, pb), F + extra)
            F2 = [S(f) for f in F] + [S(g) for g in gf] + extra
            if not entails_split(fn, A, F2, S(goal), hdr, blk, depth + 1, lf): ok = False; break
        if ok: return True
    return False

def block_exit_facts(fn, A, bb, succ):
    """guards valid at the end of block bb (dominating edges) ; plus the edge bb->succ condition"""
    f = block_guards(fn, A, bb)
    t = fn.blocks[bb]["insts"][-1]
    if t["op"] == "br" and "cond" in t and t["t"] != t.get("f"):
        f += cond_facts(fn, A, t["cond"], t["t"] == succ)
    return f

def nullspace(M, n):
    """basis of {x : M x = 0}"""
    M = [list(r) for r in M]
    piv = []; r = 0
    for c in range(n):
        p = None
        for i in range(r, len(M)):
            if M[i][c] != 0: p = i; break
        if p is None: continue
        M[r], M[p] = M[p], M[r]
        k = M[r][c]; M[r] = [x / k for x in M[r]]
        for i in range(len(M)):
            if i != r and M[i][c] != 0:
                f = M[i][c]; M[i] = [x - f * y for x, y in zip(M[i], M[r])]
        piv.append(c); r += 1
        if r == len(M): break
    free = [c for c in range(n) if c not in piv]
    out = []
    for fcol in free:
        v = [Fr(0)] * n; v[fcol] = Fr(1)
        for i, pc in enumerate(piv):
            v[pc] = -M[i][fcol]
        out.append(v)
    return out

EFFECTS = {
    "memset": [("W", 0, ("arg", 2, 1))],
    "memcpy": [("W", 0, ("arg", 2, 1)), ("R", 1, ("arg", 2, 1))],
    "memmove": [("W", 0, ("arg", 2, 1)), ("R", 1, ("arg", 2, 1))],
    "handle_error": [("W", 0, ("arg", 1, 1))],
    "handle_werror": [("W", 0, ("arg", 1, 4))],
    "handle_mem_error": [("W", 0, ("arg", 1, 1))],
    "handle_str_bos_overflow": [("W", 1, ("arg", 2, 1))],
    "mem_prim_set": [("W", 0, ("arg", 1, 1))],
    "mem_prim_set16": [("W", 0, ("arg", 1, 2))],
    "mem_prim_set32": [("W", 0, ("arg", 1, 4))],
    "mem_prim_move": [("W", 0, ("arg", 2, 1)), ("R", 1, ("arg", 2, 1))],
    "mem_prim_move16": [("W", 0, ("arg", 2, 2)), ("R", 1, ("arg", 2, 2))],
    "mem_prim_move32": [("W", 0, ("arg", 2, 4)), ("R", 1, ("arg", 2, 4))],
    "fgets": [("W", 0, ("arg", 1, 1))],
    "mbstowcs": [("W", 0, ("arg", 2, 4))],
    "wcstombs": [("W", 0, ("arg", 2, 1))],
    "mbsrtowcs": [("W", 0, ("arg", 2, 4))],
    "wcsrtombs": [("W", 0, ("arg", 2, 1))],
    "wcrtomb": [("W", 0, ("const", 16))],
    "wctomb": [("W", 0, ("const", 16))],
    "explicit_bzero": [("W", 0, ("arg", 1, 1))],
    "vswprintf": [("W", 0, ("arg", 1, 4))],
    "asctime_r": [("W", 1, ("const", 26))],
    "ctime_r": [("W", 1, ("const", 26))],
    "strnlen": [("R", 0, ("arg", 1, 1))],
    "memchr": [("R", 0, ("arg", 2, 1))],
    "memrchr": [("R", 0, ("arg", 2, 1))],
}
ROLES = {}
RETBOUND = {'_strnlen_s_chk': 1, '_wcsnlen_s_chk': 1, 'strnlen': 1, 'wcsnlen': 1, 'safec_strnlen_s': 1}

def main():
    mods = []
    funcs = {}
    for f in sorted(glob.glob("/tmp/probe/json/*.json")):
        m = json.load(open(f))
        m["gmap"] = {g["name"]: g for g in m["globals"]}
        mods.append(m)
        for F in m["functions"]:
            if not F["decl"]:
                fn = Fn(F, m)
                if not F["internal"] or F["name"] not in funcs: funcs[F["name"]] = fn
    # roles from parameter names
    for name, fn in funcs.items():
        pn = [p["name"] for p in fn.j["params"]]
        r = []
        for b, l in (("dest", "dmax"), ("dest", "dlen"), ("dest", "len"), ("src", "slen"), ("src", "smax"), ("str", "smax"), ("buffer", "maxlen"), ("buffer", "bufsize"), ("b1", "n"), ("b2", "n"), ("b1", "len"), ("b2", "len"), ("src", "count"), ("src", "n")):
            if b in pn and l in pn and not any(x[0] == b for x in r):
                r.append((b, l, None))
        ROLES[name] = r
    # byte-unit exceptions
    for n in ("_memcpy16_s_chk", "_memcpy32_s_chk", "_memmove16_s_chk", "_memmove32_s_chk", "_memset16_s_chk", "_memset32_s_chk"):
        ROLES[n] = [("dest", "dmax", 1)] + [x for x in ROLES.get(n, []) if x[0] != "dest"]
    only = sys.argv[1:] or None
    tot = defaultdict(int)
    perfn = {}
    for name, fn in sorted(funcs.items()):
        if only and not any(o in name for o in only): continue
        try:
            res, eqs, ranges, A = analyse(fn, funcs, ROLES)
        except RecursionError:
            print("RECURSION", name); continue
        ok = sum(1 for r in res if r["lo"] and r["hi"]); bad = len(res) - ok
        perfn[name] = (ok, bad)
        tot["ok"] += ok; tot["bad"] += bad
        if only or os.environ.get("V"):
            print("==", name, "roles", ROLES.get(name))
            for e in eqs: print("   EQ  ", e, "== 0")
            for r in ranges: print("   RNG ", r, ">= 0")
            for r in res:
                print("   %s %-4s line %-4s %-28s root=%-14s off=%-30s size=%-10s cap=%s" % ("ok " if r["lo"] and r["hi"] else "BAD(lo=%d,hi=%d)" % (r["lo"], r["hi"]), r["kind"], r["line"], r["what"], r["root"], r["off"], r["size"], r["cap"]))
    print()
    full = [n for n, (o, b) in perfn.items() if b == 0 and o > 0]
    part = [(n, o, b) for n, (o, b) in perfn.items() if b > 0]
    print("functions with obligations: %d ; all discharged: %d ; with undischarged: %d" % (len(full) + len(part), len(full), len(part)))
    print("obligations ok=%d bad=%d" % (tot["ok"], tot["bad"]))
    for n, o, b in sorted(part):
        print("   %-32s ok=%d bad=%d" % (n, o, b))

if __name__ == "__main__":
    sys.setrecursionlimit(10000)
    main()
