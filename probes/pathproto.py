#!/usr/bin/env python3
"""Throw-away prototype of the path-flag engine, C05 rule only (handler count / code vs returned code)."""
import json, glob, sys, os
from collections import defaultdict, deque

HANDLERS = {"invoke_safe_str_constraint_handler": 2, "invoke_safe_mem_constraint_handler": 2,
            "handle_error": 3, "handle_werror": 3, "handle_mem_error": 3}
# helpers that report once with code == their return value
REPORT_RET = {"handle_str_bos_overflow"}
QUIET = {"memset", "memcpy", "memmove", "strlen", "strerror", "strcat", "mem_prim_set", "mem_prim_set16", "mem_prim_set32",
         "mem_prim_move", "mem_prim_move8", "mem_prim_move16", "mem_prim_move32", "malloc", "free", "realloc", "snprintf",
         "sprintf", "__errno_location", "toupper", "tolower", "iswspace", "iswupper", "setlocale", "wcslen", "strcoll", "wcscoll",
         "strchr", "memchr", "memrchr", "fgets", "feof", "fopen", "freopen", "tmpfile", "fileno", "vprintf", "vfprintf",
         "vsscanf", "vfscanf", "vscanf", "vswscanf", "vfwscanf", "vwscanf", "vswprintf", "vfwprintf", "vwprintf", "strstr", "wcsstr",
         "mbstowcs", "mbsrtowcs", "wcstombs", "wcsrtombs", "wcrtomb", "wctomb", "asctime_r", "ctime_r", "gmtime_r", "localtime_r",
         "secure_getenv", "getenv", "explicit_bzero", "strnlen", "putchar", "fputc", "bsearch", "qsort", "isinfl", "strncpy",
         "_towcase", "_towupper", "towlower", "towupper", "iswfc", "_dec_w16", "isExclusion", "strerrorlen_s", "abort", "fprintf", "printf"}

class Fn:
    def __init__(s, j):
        s.j = j; s.name = j["name"]
        s.blocks = {b["id"]: b for b in j["blocks"]}
        s.entry = j["blocks"][0]["id"]
        s.defs = {}
        for b in j["blocks"]:
            for i in b["insts"]:
                if "id" in i: s.defs[i["id"]] = i

def opkey(o):
    if o["k"] == "c": return ("c", o["v"])
    if o["k"] == "v": return ("v", o["id"])
    if o["k"] == "null": return ("null",)
    return ("?", json.dumps(o, sort_keys=True)[:30])

def kadd(known, rid, val):
    d = dict(known); d[rid] = val
    return tuple(sorted(d.items()))

def analyse(fn, funcs, exported):
    """returns list of findings"""
    # which phis matter: backward slice of ret operands, handler code operands, errno/errp stores (ignored here)
    rets = []
    for b in fn.j["blocks"]:
        t = b["insts"][-1]
        if t["op"] == "ret" and t["ops"]: rets.append((b["id"], t["ops"][0]))
    relevant = set()
    work = [o["id"] for _, o in rets if o["k"] == "v"]
    for b in fn.j["blocks"]:
        for i in b["insts"]:
            if i["op"] == "call":
                c = i.get("callee")
                if c in HANDLERS and i["args"][HANDLERS[c]]["k"] == "v": work.append(i["args"][HANDLERS[c]]["id"])
    while work:
        v = work.pop()
        if v in relevant: continue
        d = fn.defs.get(v)
        if d is None: continue
        if d["op"] == "phi":
            relevant.add(v)
            for inc in d["incoming"]:
                if inc["v"]["k"] == "v": work.append(inc["v"]["id"])
        elif d["op"] in ("sub", "select", "zext", "sext", "trunc"):
            relevant.add(v)
            for o in d["ops"]:
                if o["k"] == "v": work.append(o["id"])
    findings = []
    # state: (hcount, hcode, env(tuple of (phi, chosen opkey)), known(tuple of (callresult id, zero?)))
    start = (0, None, (), ())
    seen = defaultdict(set)
    q = deque([(fn.entry, None, start)])
    def resolve(o, env):
        """resolve operand through chosen phi incomings to a constant or ssa key"""
        envd = dict(env)
        k = opkey(o)
        guard = 0
        while k[0] == "v" and guard < 20:
            guard += 1
            if k[1] in envd: k = envd[k[1]]; continue
            d = fn.defs.get(k[1])
            if d is not None and d["op"] == "sub" and d["ops"][0]["k"] == "c" and d["ops"][0]["v"] == 0:
                inner = resolve(d["ops"][1], env)
                if inner[0] == "c": return ("c", -inner[1])
                return ("neg", inner)
            if d is not None and d["op"] in ("zext", "sext", "trunc"):
                k = opkey(d["ops"][0]); continue
            break
        return k
    while q:
        blk, pred, st = q.popleft()
        hc, code, env, known = st
        b = fn.blocks[blk]
        envd = dict(env)
        # phis
        if pred is not None:
            for i in b["insts"]:
                if i["op"] != "phi": break
                if i["id"] in relevant:
                    for inc in i["incoming"]:
                        if inc["bb"] == pred:
                            envd[i["id"]] = resolve(inc["v"], tuple(envd.items()))
        env = tuple(sorted(envd.items()))
        states = [(hc, code, env, known)]
        for i in b["insts"]:
            if i["op"] != "call": continue
            c = i.get("callee")
            nxt = []
            for (hc, code, env, known) in states:
                if c is None:
                    nxt.append((hc, code, env, known)); continue   # indirect (out(), handler itself, comparator)
                if c.startswith("llvm.") or c in QUIET:
                    nxt.append((hc, code, env, known)); continue
                if c in HANDLERS:
                    k = resolve(i["args"][HANDLERS[c]], env)
                    nxt.append((min(hc + 1, 2), k if hc == 0 else code, env, known)); continue
                if c in REPORT_RET:
                    nxt.append((min(hc + 1, 2), ("v", i["id"]) if hc == 0 else code, env, kadd(known, i["id"], False))); continue
                if c in funcs:
                    # nested library function: quiet (result zero) or loud (reports once, code == result != 0)
                    rid = i.get("id")
                    if funcs[c].j["ret_ty"] == "i32" and rid:
                        nxt.append((hc, code, env, kadd(known, rid, True)))
                        nxt.append((min(hc + 1, 2), ("v", rid) if hc == 0 else code, env, kadd(known, rid, False)))
                    else:
                        nxt.append((hc, code, env, known))
                        nxt.append((min(hc + 1, 2), ("nested", c) if hc == 0 else code, env, known))
                    continue
                nxt.append((hc, code, env, known))
            states = nxt
        t = b["insts"][-1]
        for st in states:
            hc, code, env, known = st
            if t["op"] == "ret":
                rv = resolve(t["ops"][0], env) if t["ops"] else None
                findings.append((blk, t.get("line"), hc, code, rv, known))
                continue
            succs = []
            if t["op"] == "br":
                if "cond" in t:
                    # prune on known call results: icmp (ne|eq) r, 0
                    dec = None
                    cd = fn.defs.get(t["cond"]["id"]) if t["cond"]["k"] == "v" else None
                    if cd is not None and cd["op"] == "icmp" and cd["pred"] in ("ne", "eq"):
                        a, bb_ = cd["ops"]
                        if bb_["k"] == "c" and bb_["v"] == 0 and a["k"] == "v":
                            kd = dict(known)
                            ra = a["id"]
                            if ra in kd:
                                iszero = kd[ra]
                                dec = (not iszero) if cd["pred"] == "ne" else iszero
                    if dec is None: succs = [t["t"], t["f"]]
                    else: succs = [t["t"] if dec else t["f"]]
                else: succs = [t["t"]]
            elif t["op"] == "switch":
                succs = [t["default"]] + [c["bb"] for c in t["cases"]]
            for s2 in set(succs):
                key = (hc, code, env, known)
                if key not in seen[(s2, blk)]:
                    seen[(s2, blk)].add(key)
                    q.append((s2, blk, key))
    return findings

def main():
    funcs = {}
    for f in sorted(glob.glob("/tmp/probe/json/*.json")):
        m = json.load(open(f))
        for F in m["functions"]:
            if not F["decl"]:
                fn = Fn(F)
                if not F["internal"] or F["name"] not in funcs: funcs[F["name"]] = fn
    only = sys.argv[1:]
    nfun = nret = nbad = 0
    for name, fn in sorted(funcs.items()):
        if fn.j["internal"] and name not in ("handle_str_bos_overflow",): continue
        if only and not any(o in name for o in only): continue
        if name in HANDLERS or name.startswith("mem_prim") or name in ("abort_handler_s", "ignore_handler_s"): continue
        fs = analyse(fn, funcs, None)
        nfun += 1
        issues = set()
        for (blk, line, hc, code, rv, known) in fs:
            nret += 1
            kd = dict(known)
            def is_zero(k):
                if k is None: return None
                if k[0] == "c": return k[1] == 0
                if k[0] == "v" and k[1] in kd: return kd[k[1]]
                if k[0] == "null": return True
                return None
            rz = is_zero(rv)
            if hc >= 2: issues.add((line, "handler may run twice", str(code), str(rv)))
            elif hc == 1:
                same = (code == rv) or (code is not None and rv is not None and code[0] == "c" and rv[0] == "c" and abs(code[1]) == abs(rv[1]))
                if rv is not None and rv[0] == "neg" and rv[1] == code: same = True
                if not same and fn.j["ret_ty"] == "i32":
                    issues.add((line, "handler code != returned", str(code), str(rv)))
            else:
                if fn.j["ret_ty"] == "i32" and rz is False and rv[0] == "c" and rv[1] not in (409, 408, -1, 1):
                    issues.add((line, "error returned without handler", "-", str(rv)))
        if issues:
            nbad += 1
            print("%-32s" % name)
            for x in sorted(issues, key=lambda z: (z[0] or 0)): print("      line %-5s %-34s code=%-22s ret=%s" % x)
    print("functions analysed %d, return path-classes %d, functions with issues %d" % (nfun, nret, nbad))

if __name__ == "__main__":
    main()
