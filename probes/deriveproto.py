#!/usr/bin/env python3
"""Throw-away probe for the cheap 'derive' rules: C12 (mutable statics), C19 (secret taint), C09 (stores through va args), C18 (volatile/barrier)."""
import json, glob, sys
from collections import defaultdict

mods = [json.load(open(f)) for f in sorted(glob.glob("/tmp/probe/json/*.json"))]

def insts(F):
    for b in F["blocks"]:
        for i in b["insts"]:
            yield b, i

def operands(i):
    for k in ("ops", "args"):
        for o in i.get(k, []): yield o
    if "base" in i: yield i["base"]
    for t in i.get("terms", []): yield t["v"]
    for inc in i.get("incoming", []): yield inc["v"]
    if "cond" in i: yield i["cond"]

def global_roots(o, acc):
    if o["k"] == "g": acc.add(o["name"])
    elif o["k"] == "ce":
        if "base" in o: global_roots(o["base"], acc)
        for x in o.get("ops", []): global_roots(x, acc)

# ------------------------------------------------------------------ C12
print("== C12: writable objects with static storage duration, and who writes them")
WRITERS = {"memset": [0], "memcpy": [0], "memmove": [0], "snprintf": [0], "sprintf": [0], "vswprintf": [0], "asctime_r": [1], "ctime_r": [1],
           "strcat": [0], "strcpy": [0], "strncpy": [0], "wctomb": [0], "wcrtomb": [0], "fgets": [0], "mbstowcs": [0], "wcstombs": [0]}
n_globals = 0
for m in mods:
    gl = {g["name"]: g for g in m["globals"] if not g["decl"] and not g["constant"]}
    if not gl: continue
    n_globals += len(gl)
    writes = defaultdict(list)
    for F in m["functions"]:
        if F["decl"]: continue
        # derived-from-global: propagate through gep/bitcast/phi within function
        der = {}
        changed = True
        while changed:
            changed = False
            for b, i in insts(F):
                if "id" not in i or i["op"] not in ("getelementptr", "bitcast", "phi", "select"): continue
                roots = set()
                for o in operands(i):
                    global_roots(o, roots)
                    if o["k"] == "v" and o["id"] in der: roots |= der[o["id"]]
                roots &= set(gl)
                if roots - der.get(i["id"], set()):
                    der[i["id"]] = der.get(i["id"], set()) | roots; changed = True
        def roots_of(o):
            r = set(); global_roots(o, r)
            if o["k"] == "v": r |= der.get(o["id"], set())
            return r & set(gl)
        for b, i in insts(F):
            if i["op"] == "store":
                for g in roots_of(i["ops"][1]): writes[g].append((F["name"], i.get("line"), "store"))
            elif i["op"] == "call":
                cal = i.get("callee", "?")
                idxs = WRITERS.get(cal, [])
                if cal.startswith("llvm.mem"): idxs = [0]
                for k, a in enumerate(i["args"]):
                    for g in roots_of(a):
                        kind = "written by " + cal if k in idxs else "passed to " + cal
                        writes[g].append((F["name"], i.get("line"), kind))
    for g, info in gl.items():
        w = writes.get(g, [])
        print("  %-28s %-12s tls=%-5s %-26s %s" % (g, info["ty"][:12], info["tls"], m["source"].split("/")[-1], "; ".join("%s:%s %s" % x for x in w[:3]) or "NEVER WRITTEN"))
print("  total non-constant definitions:", n_globals)

# ------------------------------------------------------------------ C19
print("\n== C19: taint from *b1/*b2 to branch conditions / addresses")
for m in mods:
    for F in m["functions"]:
        if F["decl"] or not F["name"].startswith("_timingsafe"): continue
        secret_ptr = {p["id"] for p in F["params"] if p["name"] in ("b1", "b2")}
        changed = True
        while changed:   # pointers derived from b1/b2
            changed = False
            for b, i in insts(F):
                if "id" in i and i["ty"].endswith("*") and i["id"] not in secret_ptr and i["op"] in ("getelementptr", "bitcast", "phi", "select"):
                    ops = [o for o in operands(i) if o["k"] == "v"]
                    basep = i.get("base", {}).get("id") if i["op"] == "getelementptr" else None
                    if (i["op"] == "getelementptr" and basep in secret_ptr) or (i["op"] != "getelementptr" and any(o["id"] in secret_ptr for o in ops)):
                        secret_ptr.add(i["id"]); changed = True
        taint = set()
        for b, i in insts(F):
            if i["op"] == "load" and i["ops"][0]["k"] == "v" and i["ops"][0]["id"] in secret_ptr: taint.add(i["id"])
        changed = True
        while changed:
            changed = False
            for b, i in insts(F):
                if "id" in i and i["id"] not in taint and i["op"] not in ("load", "call", "alloca"):
                    if any(o["k"] == "v" and o["id"] in taint for o in operands(i)):
                        taint.add(i["id"]); changed = True
        viol = []; nload = 0
        for b, i in insts(F):
            if i["op"] == "load" and i["id"] in taint: nload += 1
            if i["op"] in ("br", "switch") and "cond" in i and i["cond"]["k"] == "v" and i["cond"]["id"] in taint: viol.append(("branch", i.get("line")))
            if i["op"] == "select" and i["ops"][0]["k"] == "v" and i["ops"][0]["id"] in taint: viol.append(("select", i.get("line")))
            if i["op"] in ("load", "store"):
                po = i["ops"][0] if i["op"] == "load" else i["ops"][1]
                # address tainted?  (gep index tainted)
                if po["k"] == "v":
                    d = None
                    for bb, ii in insts(F):
                        if ii.get("id") == po["id"]: d = ii
                    if d is not None and d["op"] == "getelementptr" and any(t["v"]["k"] == "v" and t["v"]["id"] in taint for t in d["terms"]): viol.append(("address", i.get("line")))
            if i["op"] in ("udiv", "sdiv", "urem", "srem") and any(o["k"] == "v" and o["id"] in taint for o in i["ops"]): viol.append(("div", i.get("line")))
            if i["op"] == "call" and any(o["k"] == "v" and o["id"] in taint for o in i["args"]): viol.append(("call-arg", i.get("line")))
        print("  %-26s secret loads=%d tainted values=%d violations=%s" % (F["name"], nload, len(taint), viol))

# ------------------------------------------------------------------ C09
print("\n== C09: stores through pointers obtained from the va_list (load depth >= 1)")
for m in mods:
    for F in m["functions"]:
        if F["decl"]: continue
        va = {p["id"]: 0 for p in F["params"] if "__va_list_tag" in p["ty"]}
        # local va_list objects (va_start): allocas of the va_list struct
        for b, i in insts(F):
            if i["op"] == "alloca" and "__va_list_tag" in i.get("alloc_ty", ""): va[i["id"]] = 0
        if not va: continue
        depth = dict(va)
        changed = True
        while changed:
            changed = False
            for b, i in insts(F):
                if "id" not in i: continue
                new = None
                if i["op"] in ("getelementptr", "bitcast", "phi", "select", "inttoptr", "ptrtoint", "add"):
                    ds = [depth[o["id"]] for o in operands(i) if o["k"] == "v" and o["id"] in depth]
                    if i["op"] == "getelementptr":
                        ds = [depth[i["base"]["id"]]] if i["base"]["k"] == "v" and i["base"]["id"] in depth else []
                    if ds: new = max(ds)
                elif i["op"] == "load":
                    o = i["ops"][0]
                    if o["k"] == "v" and o["id"] in depth and i["ty"].endswith("*"): new = depth[o["id"]] + 1
                if new is not None and depth.get(i["id"], -1) < new and new <= 3:
                    depth[i["id"]] = new; changed = True
        bad = []; ok = 0
        for b, i in insts(F):
            if i["op"] == "store":
                o = i["ops"][1]
                if o["k"] == "v" and o["id"] in depth:
                    if depth[o["id"]] >= 2: bad.append((i.get("line"), depth[o["id"]]))
                    else: ok += 1
            if i["op"] == "call":
                for k, a in enumerate(i["args"]):
                    if a["k"] == "v" and a["id"] in depth and depth[a["id"]] >= 2:
                        bad.append((i.get("line"), "arg%d of %s" % (k, i.get("callee", "?"))))
        nptr = sum(1 for v, d in depth.items() if d >= 2)
        sinks = sorted({i.get("callee") for b, i in insts(F) if i["op"] == "call" and i.get("callee", "").startswith(("v", "_v")) and any(a["k"] == "v" and a["id"] in depth for a in i["args"])})
        print("  %-24s va-bookkeeping stores=%-3d caller-pointer values=%-3d uses-of-caller-pointers=%s  va passed to=%s" % (F["name"], ok, nptr, bad[:6], sinks))

# ------------------------------------------------------------------ C18
print("\n== C18: erase entry points: volatile stores / barriers")
BARRIER = ("llvm.x86.sse2.mfence", "explicit_bzero")
for m in mods:
    for F in m["functions"]:
        if F["decl"]: continue
        n = F["name"]
        if not (n.startswith("mem_prim_set") or n in ("_memset_s_chk", "_memset16_s_chk", "_memset32_s_chk", "_memzero_s_chk", "_memzero16_s_chk", "_memzero32_s_chk", "_strzero_s_chk")): continue
        st = [(i.get("line"), i["volatile"]) for b, i in insts(F) if i["op"] == "store" and not (i["ops"][1]["k"] == "v" and i["ops"][1]["id"].endswith(".addr"))]
        calls = [i.get("callee", "?") for b, i in insts(F) if i["op"] == "call"]
        fences = [i for b, i in insts(F) if i["op"] == "fence" or (i["op"] == "call" and (i.get("callee") in BARRIER or (i.get("callee_v", {}).get("k") == "asm" and "memory" in i["callee_v"].get("cons", ""))))]
        print("  %-20s stores=%d volatile=%d  barriers=%d  calls=%s" % (n, len(st), sum(1 for _, v in st if v), len(fences), [c for c in calls if not c.startswith("llvm.dbg") and "constraint" not in c][:6]))
