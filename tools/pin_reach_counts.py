#!/usr/bin/env python3
"""Development aid (never run by a registered check): record, per function and access kind, how many undischarged accesses of the CURRENT
(pinned, clean) tree match a reach rule of tables/cap_reach.json.  The checks report a function whose count grows."""
import json, os, re, sys
ROOT = os.path.dirname(os.path.dirname(os.path.abspath(__file__)))
sys.path.insert(0, ROOT)
from sa import frontend, capcheck, par
from sa.ir import Program
prog = Program(frontend.load_modules()[0])
roles = capcheck.all_roles(prog)
path = os.path.join(ROOT, "tables", "cap_reach.json")
table = json.load(open(path))
reach = [re.compile(rx) for rx, why in table["reach"]]
def w(prog, key):
    fn = next(f for f in prog.allfuncs if f.name == key[1] and f.mod["tu"] == key[0])
    res, _ = capcheck.analyse(fn, roles.get(fn.name, []), prog, roles, want_kinds=("W", "R", "L"))
    from sa.checks import capcommon
    und = [x for x in res if not (x["lo"] and x["hi"]) and x.get("const_index") and x["what"] in ("store", "load") and not x["role"].startswith(("local:", "global:"))]
    if und:
        capcommon.refine(prog, fn, roles.get(fn.name, []), res)
    return res
res, err = par.pmap(prog, w, [(f.mod["tu"], f.name) for f in prog.allfuncs])
counts = {}
for k, r in res.items():
    for x in r:
        if x["kind"] not in ("W", "R") or (x["lo"] and x["hi"]):
            continue
        sig = "%s|%s|%s|%s" % (k[1], x["kind"], x["what"], x["role"])
        if any(rx.search(sig) for rx in reach):
            fk = "%s|%s" % (k[1], x["kind"])
            counts[fk] = counts.get(fk, 0) + 1
table["counts"] = dict(sorted(counts.items()))
json.dump(table, open(path, "w"), indent=1)
print("recorded", len(counts), "function/kind counts,", sum(counts.values()), "accesses")
