#!/bin/sh
# tools/benign_matrix.sh [names]: apply each behaviour-preserving refactoring under /verif/benign/<name>/patch.diff to /repo, run ALL quick checks,
# print every VIOLATION / ANALYSIS-BROKEN line (each is a false alarm / a brittle anchor), revert.  Development aid; modifies /repo while it runs.
cd /verif
if ! git -C /repo diff --quiet; then echo "/repo has uncommitted changes; refusing"; exit 3; fi
mkdir -p /verif/.cache/ev_backup && cp -f evidence/*.json /verif/.cache/ev_backup/
IDS="${IDS:-C01 C02 C03 C04 C05 C06 C07 C08 C09 C10 C12 C13 C14 C16 C17 C18 C19 C20}"
for d in ${@:-$(ls benign)}; do
  [ -f benign/$d/patch.diff ] || continue
  git -C /repo apply /verif/benign/$d/patch.diff || { echo "$d: patch does not apply"; continue; }
  for id in $IDS; do ( bin/check $id > /tmp/ben_${d}_$id.out 2>&1; echo $? > /tmp/ben_${d}_$id.rc ) & done; wait
  git -C /repo checkout -- .
  for id in $IDS; do
    rc=$(cat /tmp/ben_${d}_$id.rc)
    if [ "$rc" != "0" ]; then echo "$d: $id rc=$rc"; grep -v "^KNOWN-FINDING\|^VIOLATION" /tmp/ben_${d}_$id.out | grep -v "^OK" | head -6 | cut -c1-400 | sed 's/^/      /'; fi
  done
  echo "$d: done"
done
cp -f /verif/.cache/ev_backup/*.json evidence/
