#!/bin/sh
# tools/try_patch.sh <patch.diff> <ID>... : apply a seeded change to /repo, run the given checks, undo it, restore evidence.
# Development aid only; nothing in MANIFEST.json refers to it.
set -u
P="$1"; shift
cd /verif
if ! git -C /repo diff --quiet; then echo "/repo has uncommitted changes; refusing"; exit 3; fi
git -C /repo apply "$P" || { echo "patch does not apply"; exit 3; }
mkdir -p /verif/.cache/ev_backup && cp -f evidence/*.json /verif/.cache/ev_backup/ 2>/dev/null
for id in "$@"; do
  echo "--- $id on $(basename $(dirname $P))"
  bin/check "$id" --tier "${TIER:-quick}" | grep -v "^KNOWN-FINDING" | tail -${TAIL:-6}
  echo "rc=$?"
done
git -C /repo checkout -- .
cp -f /verif/.cache/ev_backup/*.json evidence/ 2>/dev/null
