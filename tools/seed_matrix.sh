#!/bin/sh
# tools/seed_matrix.sh [seed-dir-name ...]: run every stored seeded change against the check of its own property (development aid).
# Applies each patch to /repo, runs bin/check <ID>, reverts. Prints one line per seed: caught / MISSED.
cd /verif
if ! git -C /repo diff --quiet; then echo "/repo has uncommitted changes; refusing"; exit 3; fi
mkdir -p /verif/.cache/ev_backup && cp -f evidence/*.json /verif/.cache/ev_backup/
for d in ${@:-$(ls seeded)}; do
  id=$(echo $d | cut -c1-3)
  [ -f seeded/$d/patch.diff ] || continue
  git -C /repo apply /verif/seeded/$d/patch.diff || { echo "$d: patch does not apply"; continue; }
  out=$(bin/check $id 2>&1); rc=$?
  git -C /repo checkout -- .
  v=$(echo "$out" | grep -c "^VIOLATION property=$id")
  if [ $rc -eq 1 ] && [ $v -ge 1 ]; then echo "$d: caught by $id ($(echo "$out" | grep -v "^KNOWN-FINDING\|^VIOLATION\|^OK\|^FAIL" | head -1 | cut -c1-160))"; else echo "$d: MISSED by $id (rc=$rc)"; fi
done
cp -f /verif/.cache/ev_backup/*.json evidence/
