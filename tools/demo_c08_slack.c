#include <stdio.h>
#include <string.h>
#include <wchar.h>
#include <time.h>
#include <stdarg.h>
#include "safe_str_lib.h"
#include "safe_lib.h"
static int stale_w(const wchar_t *d, size_t n){ size_t i=0; while(i<n && d[i]) i++; for(;i<n;i++) if(d[i]) return (int)i; return -1; }
static int stale_c(const char *d, size_t n){ size_t i=0; while(i<n && d[i]) i++; for(;i<n;i++) if(d[i]) return (int)i; return -1; }
static int vw(wchar_t *d, size_t n, const wchar_t *f, ...){ va_list ap; va_start(ap,f); int r=vswprintf_s(d,n,f,ap); va_end(ap); return r; }
static int vnw(wchar_t *d, size_t n, const wchar_t *f, ...){ va_list ap; va_start(ap,f); int r=vsnwprintf_s(d,n,f,ap); va_end(ap); return r; }
int main(void){ int bad=0,k; wchar_t w[32]; char c[128]; struct tm tm={0}; time_t t=0;
 wmemset(w,L'S',32); swprintf_s(w,32,L"ab"); k=stale_w(w,32); printf("swprintf_s stale at %d\n",k); bad+=k>=0;
 wmemset(w,L'S',32); vw(w,32,L"ab"); k=stale_w(w,32); printf("vswprintf_s stale at %d\n",k); bad+=k>=0;
 wmemset(w,L'S',32); snwprintf_s(w,32,L"ab"); k=stale_w(w,32); printf("snwprintf_s stale at %d\n",k); bad+=k>=0;
 wmemset(w,L'S',32); vnw(w,32,L"ab"); k=stale_w(w,32); printf("vsnwprintf_s stale at %d\n",k); bad+=k>=0;
 tm.tm_mday=1; memset(c,'S',128); asctime_s(c,128,&tm); k=stale_c(c,128); printf("asctime_s(dmax 128) stale at %d\n",k); bad+=k>=0;
 memset(c,'S',128); ctime_s(c,128,&t); k=stale_c(c,128); printf("ctime_s(dmax 128) stale at %d\n",k); bad+=k>=0;
 memset(c,'S',128); if (freopen("in.txt","r",stdin)) { gets_s(c,128); k=stale_c(c,128); printf("gets_s stale at %d\n",k); bad+=k>=0; }
 return bad!=0; }
