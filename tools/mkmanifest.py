#!/usr/bin/env python3
"""Regenerates /verif/MANIFEST.json from the table below (keeps it schema-valid at all times)."""
import json, os, sys
ROOT = os.path.dirname(os.path.dirname(os.path.abspath(__file__)))

TB = "clang-14 lowering of the configured build to LLVM IR (x86-64/glibc), LLVM mem2reg/early-cse, the libc effect table sa/effects.py, the tables under /verif/tables (validated against the IR on every run)"

CHECKS = {
 "C12": dict(
    engine="derive",
    technique="whole-library static-storage census over LLVM IR: pointer-derivation + inter-procedural write/escape summaries; who-may-call rule for MT-unsafe libc",
    category="other",
    text="Exhaustive static argument over the source: every object with static storage duration in all 140 TUs is enumerated and every store, writing callee effect and address escape reaching it is collected; the property's own schedule-free formulation ('the library's own static storage is bit-identical before and after every call') holds iff the only written objects are the handler registrations. No schedule is explored because none needs to be.",
    design_ref="DESIGN.md §3.1, §4 C12",
    note=TB + "; libc routines are assumed reentrant except the listed MT-unsafe set; tmpfile_s's documented call counter is a recorded known finding"),
 "C09": dict(
    engine="derive",
    technique="call-graph format-flow classification of all 28 printf/scanf entry points; va_list load-depth pointer derivation in the formatter; path-sensitive decision of which outcomes of the \"%n\" search reach the libc call; filter-language vs libc-directive-grammar intersection by enumeration; width check of the look-behind comparison (no truncation between the loaded element and the comparison with 37)",
    category="other",
    text="For every format string at once: (E) in the library's own formatter no store or writing effect can go through a caller-supplied variadic pointer on any path (exact over the IR), and the 'n' arm only fails; (D) for entry points that delegate to libc, the code inspecting the format is classified by shape and what its guard lets through is decided on all paths (search outcome: not found / at offset 0 / behind '%' / behind another character); the accepted language is intersected with libc's %n-executing language, yielding a concrete accepted format when the filter is unsound. A library bounded searcher used as the filter must be bounded by a length measured from the format itself (not by dmax). A filter that cannot be classified makes the check answer analysis-broken (exit 2), never a violation and never a pass.",
    design_ref="DESIGN.md §4 C09",
    note=TB + "; clang's x86-64 SysV va_arg lowering; libc directive grammars as modelled in sa/checks/c09.py; 21 delegating entry points are recorded known findings (unsound literal \"%n\" pre-scan, reproduced)"),
 "C19": dict(
    engine="derive",
    technique="taint analysis over SSA (sources: loads from either compared region; sinks: branch/select conditions, addresses, division operands, call arguments) at -O0 and, thorough, at -O1/-O2/-O3 IR; relational value-set abstract interpretation of the comparison loop (byte pairs abstracted to <, =, >; accumulators followed to a fixpoint with the sign of the first difference as ghost); significant-bit-width analysis of secret-derived values (no truncation below their width on the way to the verdict)",
    category="other",
    text="Decides the data-independence clause for all contents and all n: no instruction whose execution or address depends on a byte of either region exists in the two functions, at the IR the compiler actually optimises (vectorised forms included in the thorough tier). The result clause is decided by abstract interpretation over the finite set of byte-pair relations: from every reachable abstract state of the loop accumulators the returned value is 0 iff no pair differed (timingsafe_bcmp) / has the sign of the first differing pair (timingsafe_memcmp), for every length and content.",
    design_ref="DESIGN.md §4 C19",
    note=TB + "; the x86 back end is trusted not to turn the remaining arithmetic into secret-dependent branches; the result clause is decided on the -O0 IR; a loop body that branches on data is not handled by it (and is a violation of the first clause)"),
 "C10": dict(
    engine="derive",
    technique="inter-procedural pointer-derivation and write-summary analysis: no store or writing callee effect reaches any operand of the 39 query functions; per-loop path enumeration with linear facts classifying budget exits (sa/scan.py); sentinel-collision rule on position trackers (a tracker and the cursor it records start from the same value and 'found' is decided by comparing the tracker with that value); window rule evaluating every comparison between (libc searcher result - operand) and the declared length at offsets L-1, L, L+1; signedness rule on byte differences stored through result parameters (zext required)",
    category="other",
    text="Decides, for all operand contents and sizes, the clause 'query functions never modify their operands': every pointer derived from an operand parameter (through casts, arithmetic, phi, libc/library functions that return interior pointers) is followed into every callee; any store or writing effect is a violation. Also decided (scan completeness): in the 36 budgeted scan loops of these functions (a counter from a length argument decreasing by a constant, a cursor advancing by a constant) every exit whose guards bound the counter leaves the loop only after all `budget` elements were examined - a pre-decremented or `> 1` guard that leaves the last element untried is reported. The difference a comparison function stores through its result parameter is not truncated to the width of the compared elements. The answer of a length-less libc searcher applied to an operand is accepted only at offsets < the declared length (strchr_s). Byte differences stored as the ordering are taken of zero-extended bytes (unsigned char comparison, C11 7.24.4). Which exit yields which answer (equality with strcmp/strstr/strspn/...) is value-level and is not decided.",
    design_ref="DESIGN.md §4 C10",
    note=TB + "; only the operands-unmodified clause is claimed; out-of-bounds reads of these functions belong to C02"),
 "C13": dict(
    engine="formula",
    technique="decision-table extraction: the six loop-free registration/invocation functions are interpreted over abstract handler values {NULL, symbols standing for every other handler, the default handler} and compared row by row with the reference model; storage-class and who-writes facts from the IR; who-reports-through-which-dispatch rule (no function calls both the string and the memory dispatch, directly or through the units' error helpers)",
    category="proof",
    text="The functions touch handler values only by copies and null tests (enforced: anything else is 'not modelled'), so their behaviour is a finite decision table; all 162 rows equal the model (a function that reads writable state other than the two registrations is reported: the handler invoked must depend on the registrations alone) (set returns the previous value of its own variable and stores arg-or-default; invoke calls exactly one handler: thread-local, else process-wide, else default, with unchanged arguments). With per-step equality the property over all histories and interleavings follows by induction; per-thread isolation is the thread_local storage class read from the IR.",
    design_ref="DESIGN.md §3.4, §4 C13",
    note=TB + "; platform TLS semantics; registration is not synchronised (a data race between a registering and a violating thread is outside the property as stated); inheritance by later-created threads is left open as in the property"),
 "C16": dict(
    engine="derive",
    technique="SSA value-identity chain over the call graph of qsort_s.c/bsearch_s.c: every comparator call uses the function's own comparator/context parameters, forwarded unchanged from the exported entry; inductive-invariant check of bsearch_s's search loop in the element-index domain (pointer arithmetic base + size*k divided by the symbolic element size; Fourier-Motzkin); operand-width rule on the bit-scan intrinsics of qsort_s.c (no truncation between the heap shape word and cttz)",
    category="other",
    text="Decides the clause 'the caller's context (and key) reaches every comparison' for all arrays and comparators: it is a property of the shape of the 7 comparator call sites and the internal calls leading to them. For bsearch_s, 'compares only elements of the array and stays inside nmemb*size' is decided: 0 <= B, B + n <= nmemb is inductive over both paths of the search loop and the element handed to the comparator has an index in [0, nmemb). For qsort_s a necessary condition of 'every element count' is decided: the trailing-zero scans that navigate the Leonardo heap see the whole shape word. Sortedness, permutation, search completeness and qsort_s's staying inside nmemb*size are not decided (non-linear Leonardo-heap arithmetic).",
    design_ref="DESIGN.md §4 C16",
    note=TB + "; only the context/key-forwarding clause, bsearch_s bounds and the bit-scan width are claimed"),
 "C18": dict(
    engine="derive",
    technique="volatile/barrier must-follow path rule over the IR of the 7 erase entry points and their primitives; byte-lane abstract interpretation of the fill word (which byte of the value parameter each stored byte holds); quotient/remainder agreement of the word/tail count split; thorough: static inspection of LTO-compiled client machine code (gcc-12, clang-14, -O0..-O3); erase-length clause (callee unit x length argument = element size x the entry point's own count)",
    category="other",
    text="Quick decides the mechanism C offers against dead-store elimination: every write into dest that can be followed by a success return is volatile, or barrier-followed on all paths, or done by a callee with that property. Two value/extent clauses of 'the n addressed bytes hold the fill value' are decided structurally for the fill primitives: every one of their 95 stores into dest holds the value parameter's bytes replicated over the store width (byte-lane domain: zext/sext/shift/or/and/phi; a sign-extended or missing lane is reported), the entry points hand their own value parameter (or 0) down, and where the byte count is split into words and a tail, count >> k and count & (2^k - 1) are taken from the same value. Thorough additionally compiles 448 client programs whose erased buffer is dead (stack / heap-then-free) together with the library's current sources and checks in the disassembly that the erase survived; nothing is executed.",
    design_ref="DESIGN.md §4 C18",
    note=TB + "; compilers honour volatile and asm/fence barriers; 'every optimisation level and every client' is a quantifier over compilers that the thorough tier samples with the two installed ones; the clause 'no more than the requested bytes are changed' is otherwise C01's (the unrolled word loops themselves are outside its reach)"),
 "C05": dict(
    engine="pathflags",
    technique="path-sensitive abstract interpretation (symbolic store, linear path facts decided by Fourier-Motzkin, opaque loop phis, bounded inlining of helpers and nested exported callees) with a handler-count/code typestate; return conventions per function; null-order rule over unsimplified (mem2reg-only) SSA: no dereference of a pointer parameter dominates that parameter's own null test",
    category="other",
    text="For every exported function all paths are covered at once: at each return the number of constraint-handler invocations on the path and the code passed are compared with the returned indication (errno_t, negated int, EOF, NULL+*errp, false, 0). Nested calls are inlined so that whether they can report is decided from the guards on the path, which is what separates a real double report from a quiet nested call. Which inputs are violations is taken from the code's own checks. Ordering clause: in the 102 functions with a structurally recognised RSIZE limit check (size > K whose taken side reports), no load, store or libc call reaches dest/src/str at a path state where size > K is still possible (clearing inside the error helpers, dest == NULL length queries and sizes bounded by a known object size are exempt). Status discipline of the formatting engine: the result of each of the 54 calls of the output callback / of the engine's status-returning routines is tested for < 0 or returned (callback) or at least used (routines), so a 'does not fit' reported by the callback cannot be dropped.",
    design_ref="DESIGN.md §3.3, §4 C05",
    note=TB + "; the handler returns normally with errno intact; listed value-level assumptions for four nested copies (sa/checks/c05.py ASSUME_QUIET); 46 triaged known findings (reproduced representatives) remain in known_findings.json"),
 "C04": dict(
    engine="pathflags",
    technique="path-sensitive abstract interpretation with a destination typestate (written / cleared-at-entry-pointer / cleared-over-dmax), clearing lengths compared symbolically with the entry dmax (or the known object size); null-source exits must clear all dmax elements; exemptions from path facts; source-write rule from inter-procedural write summaries",
    category="other",
    text="Every error exit of the 40 destination-writing functions is covered on all paths: dest must have been cleared at its entry value since the last write, over all dmax elements once the call has written (default build; thorough adds the no-slack configuration, where the first element suffices). The rule checks what is cleared - entry pointer and entry length, which is what orig_dest/orig_dmax exist for - so clearing from an advanced cursor or with a decremented counter is caught. Which exits are errors follows the function's return convention.",
    design_ref="DESIGN.md §3.3, §4 C04",
    note=TB + "; decided assuming C01 (writes stay inside dest); value-level assumptions as for C05; 28 triaged known findings (early exits before dest is validated, uncleared source-size / format violations)"),
 "C03": dict(
    engine="pathflags",
    technique="path-sensitive abstract interpretation with a 'NUL known in dest' typestate over all returns (success and error) of the 31 string producers; exemptions (null dest, zero/oversize dmax, zero-length request) from path facts; libc wide formatters modelled with two outcomes (result >= 0: terminated, result < 0: contents unspecified)",
    category="other",
    text="For all inputs and prior dest contents: every non-exempt return is reached only after a zero store / zeroing write of length >= 1 into dest, the edge on which the element just stored into (or scanned in) dest compared equal to zero, or a terminating libc routine, with no later write of this call into dest. Thorough adds the no-slack configuration. That the terminator lies inside [0, dmax) is C01's obligation on the same store.",
    design_ref="DESIGN.md §3.3, §4 C03",
    note=TB + "; decided assuming C01; libc routines listed as terminating in sa/flags.py; 36 triaged known findings, most of them the same exits as the C04 findings (dest left as passed on early error exits)"),
 "C20": dict(
    engine="pathflags",
    technique="path-sensitive abstract interpretation with an allocation typestate over every malloc/calloc/realloc site of the library: null-tested before any dereference, freed or handed over at every return; realloc split into success/failure edges; correlated flag tests followed by SSA identity of the condition",
    category="other",
    text="Covers every allocation site (18 in 10 functions) and every path from it, which is the statement 'for every position k at which the k-th allocation fails' without enumerating fault positions: a block that may be NULL must not be dereferenced or passed to a dereferencing routine, and a block that may be non-NULL must not be owned at a return. In functions with up to three allocation sites every allocation forks into a succeeded and a failed outcome, and on the failed outcome the call must not return a success value (a library callee that rejects a NULL dest itself - confirmed per callee by exploring it under dest == NULL - is assumed to fail there). The clause 'dest cleared as for any other violation' on the failure exit is C04's.",
    design_ref="DESIGN.md §3.3, §4 C20",
    note=TB + "; allocator contract (NULL on failure, realloc keeps the old block on failure); a callee receiving a block is assumed to dereference it; 25 triaged known findings (12 unchecked allocations, leaks on the wcsnorm error exits and the %ls failure path); 'an allocation site runs again while its block is owned' is a verdict only at the fine precision level - wcsnorm_reorder_s/compose_s are explored at the coarse level, where it is listed as not decided (two earlier entries of that kind were false alarms and were removed)"),
 "C01": dict(
    engine="capcheck",
    technique="relational abstract interpretation of the cursor/budget idiom: linear loop equalities (null space of header-phi increments), lock-step and range candidates proved by induction (Houdini), dominating branch guards, Fourier-Motzkin entailment of 0 <= off and off + size <= declared capacity for every write; path-by-path cursor-and-count accounting of the 91 loops that test their remaining count (room established before each store / bounded block write; cursor advance = count decrease); room clause for the Hangul decomposition routine (linear entailment of dmax >= slot + 1 on every path, selected constants forked)",
    category="other",
    text="For every size relation and content at once: each store, memset/memcpy/memmove, libc writer and clearing/moving helper call in all 243 function definitions carries the obligation that the written range lies inside the buffer's declared capacity (caller's dmax under the truthfulness premise, local arrays, globals). 497 of 632 obligations are discharged (constant-offset accesses the relational domain cannot settle because of correlated branches get a path-sensitive second opinion); undischarged ones are known findings (40 + 5 no-slack, genuine), listed reach limits (95 obligations in functions the domain cannot treat: unrolled primitives, smoothsort, Unicode tables, second-pass scans) or violations. The truthfulness premise is followed to the API boundary: for the 113 public wrapper macros (preprocessor macro table of the public headers against the callee's parameter names) every object-size parameter receives BOS() of the macro parameter that is passed as the operand it describes, and same-named parameters are forwarded unswapped. Both object-size branches are in the IR and covered; the thorough tier repeats the analysis on the no-slack configuration (an access identical to one of the default build is the same finding).",
    design_ref="DESIGN.md §3.2, §4 C01",
    note=TB + "; truthfulness premise; unsigned wrap-around ignored; functions in tables/cap_reach.json are not analysed and not claimed"),
 "C02": dict(
    engine="capcheck",
    technique="same relational abstract interpretation as C01 applied to every load and reading effect; facts must hold at the evaluation of the access (deref-before-counter loops fail); NUL-bounded libc readers on length-declared buffers are undischargeable by construction; sibling cross-check of symmetric copy loops (a counter one copy steps and tests against an object-size limit while the other tests it unstepped); terminator rule (no libc block reader on a string operand with a declared maximum as its length); precision rule (a length probe's bound `x ? x : unlimited` treats an explicit 0 as no bound)",
    category="other",
    text="Each load, memcpy source, libc reader and helper call carries the obligation that the read range lies inside the declared extent (dmax of dest, slen/n/len of a length-declared source, local arrays, constant tables), including lower bounds for backward scans. 304 of 444 obligations are discharged; 22 known findings; 118 obligations in listed reach-limited functions are not claimed. A nested call to a library function that never writes its dest (42 search/compare functions, from the write summaries) is a read obligation on the length handed down. A pointer without a declared length that the function measures with strnlen_s/wcsnlen_s gets the measured length (+ terminator) as its extent from there on; other pointer parameters without a declared length carry the lower-bound obligation only (nothing is read in front of the buffer; searcher results are interior pointers of their argument), that they are read only up to their terminator is not decided. Thorough: also the no-slack configuration.",
    design_ref="DESIGN.md §3.2, §4 C02",
    note=TB + "; truthfulness premise; functions in tables/cap_reach.json are not analysed and not claimed; two fix: commits in /repo repaired 31 deref-before-counter loops"),
 "C07": dict(
    engine="pathflags",
    technique="(a) enumeration of all 13 weak orderings of the four byte endpoints of the two operands; per ordering the reachable returns of each interval-testing function are computed by the path engine under the ordering's linear facts and compared with 'intervals intersect'; (b) structural dominance rule for the bumper comparisons in the 26 copy loops of the string family",
    category="other",
    text="Clause (a) is exhaustive over relative placements for all sizes: an ordering fixes which comparisons of the overlap test are entailed; a test in the wrong unit or with a missing half leaves a branch undecided and a forbidden return reachable (success under intersection, ESOVRLP under disjointness, ESOVRLP for identical pointers where they are accepted). Clause (b): every write into dest inside a copy loop's body region (the store through the cursor, and any other store, memset or nested clearing helper in the blocks dominated by the loop's first body block) is strictly dominated, in the same iteration, by the comparison of a moving cursor with the fixed start of the other operand, whose equal edge leaves the loop. The same holds for a write through the loop's cursor behind the loop when the loop can be left before that iteration's comparison (six known findings: the field functions' slack clearing). Clause (c): under an overlapping placement only copy loops of the safe direction are reachable in the move primitives. Not decided: that the memmove family produces exactly the bytes of a copy through a temporary.",
    design_ref="DESIGN.md §3.4, §4 C07",
    note=TB + "; object sizes unknown to the library and byte sizes that are multiples of the element size are assumed for clause (a); identical-pointer acceptance is taken from the table in sa/checks/c07.py"),
 "C08": dict(
    engine="capcheck",
    technique="relational abstract interpretation: for every zeroing memset and every zero-only store loop into a caller buffer the equality 'start offset + length == declared size' is entailed in both directions from the loop invariants; cursor-and-count lockstep at every back edge of the loops that test their remaining count (a count running ahead of its cursor ends the final clearing early)",
    category="other",
    text="Decides a necessary structural clause for all result lengths and all dmax (including both sides of the 0x20 memset/loop switch, since both forms are obligations): slack clearing ends exactly at dest + dmax (a stale counter, a unit slip - elements for bytes - or a loop that stops early breaks the equality), and it starts without a gap: at the buffer start or not behind the end of something the function wrote (a store, or the element count returned by a converter/formatter); a start a constant distance behind every such write is reported, starts computed from a reloaded value are not decided. Third clause (path engine, destination typestate): on every success return of the 28 string producers on which the call stored into dest, dest has been zeroed up to dest+dmax since the last non-zero store - by a memset or zero-only loop that the end clause certified, a full clearing, or a nested producer's own success; seven functions that returned success without any clearing were repaired (fix: c47f74e); the clause also covers the fill family strset_s/strnset_s/strzero_s, where an exit on which the remaining capacity reached zero has no slack (strnset_s repaired, fix: 94b27df). That a terminator is present on every success path is C03 (thorough: no-slack build); that the elements in front are exactly the result is value-level (C06) and not decided.",
    design_ref="DESIGN.md §3.2, §4 C08",
    note=TB + "; functions in tables/cap_reach.json (4 clearing writes: strnset_s, wcsnset_s, wcsfc_s, wcsnorm_compose_s) are not analysed"),
 "C17": dict(
    engine="capcheck",
    technique="bounded-index obligations on the plane-table loads (cp >> 16 into 17-entry arrays), discharged inside the lookup helper or turned into a precondition that every call site must entail, followed through private helpers to the exported entry points; interval-partition abstract interpretation of iswfc's comparison tree against the constant folding tables read by towfc_s; reader/table agreement of the generated normalisation tables (pointer and integer tables exported from the IR; interval-set reachability for the layout selector; constant folding of the reader's decode arithmetic over all stored values; composition/decomposition inverse check); decision-table extraction of the algorithmic Hangul composition (interval x residue-class partition of the two code points, followed through file-local helpers) compared with the two rows of UAX #15 3.12",
    category="other",
    text="Decides the clause 'code points above U+10FFFF are rejected rather than used as table indices' for every input string: each plane-table access is bounded where it happens or at all call sites of its helper. The iswfc/towfc_s agreement is decided for the multi-character foldings: iswfc touches its argument only through comparisons with constants, so its decision tree is evaluated exactly over the interval partition those constants induce; the code points it announces as 2 resp. 3 characters are exactly the key columns of towfc_s's 2- resp. 3-character tables (88 and 16 entries), the tables are strictly ascending and zero-terminated (the search stops at the first larger key), and a hit stores k+1 elements and returns k. Table agreement of the normalisation tables, exhaustive over every table entry: (L) each of the 442 composition lists is walked with the element size it is stored in (the 16-/32-bit layout selector, decided by interval-set reachability over the reader's comparisons), is reachable, strictly ascending and zero-terminated; (K) the searched code point is not truncated before the key comparison; (D) every packed (length, index) value stored in the three-level canonical decomposition table decodes, with the reader's own shifts, masks and address arithmetic constant-folded over the table contents, to exactly one row of an existing value table, the returned length is the row width, and every row is referenced; (I) the composition lists are the inverse of the stored decompositions (1022 pairs). Rejection (R): in the four entry points that take characters from a caller's string every element handed to a code-point consumer was range-checked against U+10FFFF in the entry point itself (interval-set reachability of the decoded value at the call). The reorder/compose algorithm itself (blocking, combining classes), Hangul arithmetic, the identity of the tables with the UCD, and the single-character folding cases (libc iswupper/towlower) are not decided. The arithmetic part of the pair composition is a finite decision table over (interval of cp) x (residue of cp - SBase modulo 28) x (interval of cp2); it is enumerated path by path and must be exactly UAX #15's L x V and LV x T rows (domain and expression), both covered completely.",
    design_ref="DESIGN.md §3.2, §4 C17",
    note=TB + "; 32-bit wchar_t configuration; three fix: commits in /repo (two crashes on out-of-range code points; second code point truncated to 16 bits before the composition-list comparison; reorder/compose/wcsfc_s did not reject out-of-range code points); one known finding (U+037E stored as the reserved value 0: not decomposed; the repair contradicts an expectation pinned in the unedited test suite)"),
 "C06": dict(
    engine="pathflags",
    technique="path-sensitive abstract interpretation with a 'destination budget exhausted before a terminator was copied' flag over the 10 non-truncating copy/concatenate functions; plus (in C05) a checked precondition 'measured strlen(src) < dmax' where the result of a nested copy is ignored; terminator-position typestate for the pointer-returning functions; byte accounting of the memory primitives (linear-arithmetic loop summaries + interval chaining); sibling cross-check of symmetric copy loops (budget counters identified by their start values); overwrite rule (no zero fill starts at the pointer of a dominating store unless the branch established that element to be 0)",
    category="other",
    text="Decides the clause 'if the complete result does not fit the non-truncating functions fail instead of storing a shortened result': on no path does a success return follow the edge on which the counter initialised from dmax reached zero while data had been written and no terminator copied; every function has such exhausted paths (the rule is not vacuous) and they reach error returns. Also decided: the pointer returned by stpcpy_s/stpncpy_s on every success path is the address of the terminating null (the typestate remembers where the terminator was stored or proven, followed through merge phis). Also decided, for every length and alignment: the seven word-unrolled mem_prim_* primitives write every byte of dest[0 .. len*size) exactly once, in one direction, each element from the same offset of src (byte accounting: linear forms with quotient/remainder ties, a per-iteration progress rule for each of the 17 loops including the 16-way unrolled switch bodies, path walk with summarised loops, interval chaining at the return; mem_prim_move's precondition len >= 1 is established at its call sites); and the length strerrorlen_s announces for each library message equals the length of that message (length table vs message table, all rows). Equality of the bytes stored by the string functions with strcpy/strcat/..., results produced inside libc, and returned counts are value-level and not decided.",
    design_ref="DESIGN.md §4 C06",
    note=TB + "; only the no-silent-truncation clause is claimed"),
 "C14": dict(
    engine="capcheck",
    technique="relational abstract interpretation of the two tokenizers with the string = merge(dest, *ptr) and capacity = entry value of *dmaxp: bounded accesses, consistency of the continuation pair, exactness of the delimiter-limit exit (off(delim cursor) == STRTOK_DELIM_MAX_LEN entailed both ways); CFG must-pass rule for storing *ptr; only-zero-stores rule; dominance rule for the continuation step; like-with-like rule for the delimiter comparisons; error-exit rule (every exit that reports through the handler returns a value known to be null)",
    category="other",
    text="Decides the bound clauses for all strings, dmax and delimiter sets: every access through the string cursor lies inside *dmaxp, the (*ptr, *dmaxp) pair handed back never permits access past the original *dmaxp, only zeros are stored into the string, a returned token implies *ptr was stored, and the 'delim is unterminated' exit fires exactly after STRTOK_DELIM_MAX_LEN scanned delimiters (so all of them take part), the continuation is set behind the cursor only where a dominating store nulled the element at the cursor (never behind the string's own terminator), string and delimiter characters are compared with the same width and extension, and no loop advances the string cursor over an element it has not compared with the terminator (inside the iteration, or at the bottom of the previous one and before entry). Not decided: that the sequence of calls yields each maximal token exactly once.",
    design_ref="DESIGN.md §4 C14",
    note=TB + "; the caller hands back the previous (*ptr, *dmaxp) pair unchanged; 9 known findings (reads/writes at dest[*dmaxp] on the unterminated path, last token returned without storing *ptr)"),
}

NOT_APPLICABLE = {
 "C11": "Rendering of integers/floats, rounding, padding and returned counts are numerical results of a 1500-line converter; no structural rule is a necessary condition of text equality with printf (its structural neighbours are decided under C01, C04, C12, C20).",
 "C15": "Agreement of converted characters/counts with libc in the current locale and round-trip equality are value-level and locale-dependent; the statically visible parts of these files (length handed to the delegate, clearing, reporting) are decided under C01, C04, C05, C08.",
}
PENDING = "check not built yet in this revision of /verif (planned, see DESIGN.md §7); not claimed until it is"

def main():
    props = [json.loads(l)["id"] for l in open(os.path.join(ROOT, "properties.jsonl"))]
    checks = []
    for pid in props:
        c = CHECKS.get(pid)
        if not c:
            continue
        checks.append(dict(
            property_id=pid,
            quick_cmd="bin/check %s --tier quick" % pid,
            thorough_cmd="bin/check %s --tier thorough" % pid,
            evidence_file="/verif/evidence/%s.json" % pid,
            replay_cmd_template="bin/check %s --explain {path}" % pid,
            engine=c["engine"],
            level_claimed=dict(category=c["category"], text=c["text"], design_ref=c["design_ref"]),
            level_note=c["note"],
            technique=c["technique"]))
    na = []
    for pid in props:
        if pid in CHECKS:
            continue
        na.append(dict(property_id=pid, reason=NOT_APPLICABLE.get(pid, PENDING)))
    man = dict(
        version=1,
        setup_cmd="sh setup.sh",
        hooks=dict(guard="SAFECLIB_VERIF", enable="none needed: the analyses read the unmodified sources; no hook commits exist",
                   baseline_off_cmd="cd /repo && make -k check", source_commits=[], add_only=True),
        engines=[
            dict(name="frontend", path="sa/frontend.py + tools/irdump.cc", serves_properties=sorted(CHECKS), kind_free_text="real build's TU list and flags -> clang-14 -O0 -> mem2reg SSA -> JSON (content-hash cache)"),
            dict(name="derive", path="sa/derive.py", serves_properties=[p for p in sorted(CHECKS) if CHECKS[p]["engine"] == "derive"], kind_free_text="pointer derivation, write/escape summaries, taint over SSA"),
            dict(name="pathflags", path="sa/pathflags.py", serves_properties=[p for p in sorted(CHECKS) if CHECKS[p]["engine"] == "pathflags"], kind_free_text="path-sensitive typestate over the CFG"),
            dict(name="capcheck", path="sa/capcheck.py", serves_properties=[p for p in sorted(CHECKS) if CHECKS[p]["engine"] == "capcheck"], kind_free_text="relational abstract interpretation of cursor/budget loops (linear invariants + Fourier-Motzkin entailment)"),
            dict(name="formula", path="sa/formula.py", serves_properties=[p for p in sorted(CHECKS) if CHECKS[p]["engine"] == "formula"], kind_free_text="finite evaluation of extracted loop-free decision trees"),
        ],
        checks=checks,
        notes="Static analysis only: no library code is executed by any registered command. Exit 2 = analysis broken (vanished anchor, unmodelled callee, fixture self-test failed). Known genuine defects: /verif/known_findings.json.",
        not_applicable=na)
    man["engines"] = [e for e in man["engines"] if e["serves_properties"]]
    json.dump(man, open(os.path.join(ROOT, "MANIFEST.json"), "w"), indent=1)
    try:
        import jsonschema
        jsonschema.validate(man, json.load(open("/root/.vp/MANIFEST.schema.json")))
        print("MANIFEST.json valid:", len(checks), "checks,", len(na), "not_applicable")
    except ImportError:
        print("written (jsonschema not available)")

if __name__ == "__main__":
    main()
