#!/bin/sh
# tools/verify_seed.sh <ID> [srcdir] [destname]: independently confirm a seeded change produced by a sub-agent and store it under /verif/seeded/<ID>/.
#  - applies seed/patch.diff to a fresh scratch copy of the pristine tree, builds, runs the unedited test suite (must pass),
#  - builds demo.c against the changed and the pristine library (must fail / pass),
#  - copies patch.diff, demo.c, meta.json and a verification log to /verif/seeded/<ID>/, removes the scratch copy.
# Development aid; nothing in MANIFEST.json refers to it.
ID="$1"; SRC="${2:-/tmp/wt_$ID/seed}"; DEST="${3:-$ID}"; W=/tmp/vs_$ID; P=/tmp/pristine_repo
set -u
rm -rf "$W"; cp -a "$P" "$W" || exit 3
LOG=/tmp/vs_$ID.log; : > "$LOG"
( cd "$W" && git apply "$SRC/patch.diff" ) >> "$LOG" 2>&1 || { echo "$ID: patch does not apply"; exit 3; }
# the in-tree build has no dependency tracking for the private headers: a header change needs a clean rebuild of library and tests
if grep -q '^+++ b/.*\.h$' "$SRC/patch.diff"; then make -s -C "$W/src" clean >> "$LOG" 2>&1; make -s -C "$W/tests" clean >> "$LOG" 2>&1; fi
make -s -C "$W/src" >> "$LOG" 2>&1 || { echo "$ID: changed tree does not build"; exit 3; }
( cd "$W" && make -k check > /tmp/vs_$ID.check 2>&1 ); FAILS=$(grep -c "^FAIL\|^ERROR" /tmp/vs_$ID.check); PASS=$(grep -c "^PASS" /tmp/vs_$ID.check)
echo "suite: pass=$PASS fail=$FAILS" >> "$LOG"
EXTRA=$(python3 -c "import json,sys; m=json.load(open('$SRC/meta.json')); c=m.get('demo_cmd',''); print('-lpthread' if 'pthread' in c else '')" 2>/dev/null)
gcc -w -I"$W/include" "$SRC/demo.c" "$W/src/.libs/libsafec.a" -o /tmp/vs_$ID.bad -lpthread >> "$LOG" 2>&1
gcc -w -I"$P/include" "$SRC/demo.c" "$P/src/.libs/libsafec.a" -o /tmp/vs_$ID.good -lpthread >> "$LOG" 2>&1
BAD=0; for k in 1 2 3; do timeout 120 /tmp/vs_$ID.bad > /dev/null 2>&1; r=$?; [ $r -ne 0 ] && BAD=$r; done
timeout 120 /tmp/vs_$ID.good > /dev/null 2>&1; GOOD=$?
echo "demo: changed-exit=$BAD pristine-exit=$GOOD" >> "$LOG"
OK=no; [ "$FAILS" = "0" ] && [ "$PASS" -ge 127 ] && [ "$BAD" != "0" ] && [ "$GOOD" = "0" ] && OK=yes
echo "$ID verified=$OK  (suite pass=$PASS fail=$FAILS; demo changed=$BAD pristine=$GOOD)"
if [ "$OK" = yes ]; then
  mkdir -p /verif/seeded/$DEST && cp "$SRC/patch.diff" "$SRC/demo.c" /verif/seeded/$DEST/ && cp "$LOG" /verif/seeded/$DEST/verify.log
  python3 - "$DEST" "$SRC" "$PASS" "$BAD" <<'PY'
import json,sys
pid,src,npass,bad=sys.argv[1:5]
m=json.load(open(src+'/meta.json'))
m['verified_by_me']=dict(ran=["git apply patch.diff on a fresh copy of the pinned tree (incl. earlier fix: commits)", "make -C src", "make -k check  -> %s PASS / 0 FAIL" % npass,
    "gcc demo.c + changed libsafec.a -> exit %s (3 runs)" % bad, "gcc demo.c + pristine libsafec.a -> exit 0"])
json.dump(m,open('/verif/seeded/%s/meta.json'%pid,'w'),indent=1)
PY
fi
rm -rf "$W" /tmp/vs_$ID.bad /tmp/vs_$ID.good /tmp/vs_$ID.check
