#!/usr/bin/env python3
"""Development aid (never run by a registered check): adopt the violations currently in reports/<ID>/ as known findings,
with triage text chosen by pattern.  Each adoption is a manual, reviewed act; the result is committed in known_findings.json."""
import json, glob, sys, re, os
ROOT = os.path.dirname(os.path.dirname(os.path.abspath(__file__)))
pid = sys.argv[1]
rules = json.load(open(sys.argv[2]))      # list of [regex on key, what, reproducer, why_not_fixed]
k = json.load(open(os.path.join(ROOT, "known_findings.json")))
have = {f["key"] for f in k["findings"]}
n = 0
for f in sorted(glob.glob(os.path.join(ROOT, "reports", pid, "*.json")), key=lambda x: int(os.path.basename(x)[:-5])):
    r = json.load(open(f))
    if r["key"] in have:
        continue
    for rx, what, repro, why in rules:
        if re.search(rx, r["key"]):
            k["findings"].append(dict(property=pid, key=r["key"], what=r["text"].split(" (returns")[0] + " -- " + what, reproducer=repro, why_not_fixed=why))
            have.add(r["key"]); n += 1
            break
    else:
        print("UNTRIAGED", r["key"])
json.dump(k, open(os.path.join(ROOT, "known_findings.json"), "w"), indent=1)
print("adopted", n, "total", len(k["findings"]))
