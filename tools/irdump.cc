// irdump: serialise an LLVM-14 module to JSON for the Python analyses
#include "llvm/IR/LLVMContext.h"
#include "llvm/IR/Module.h"
#include "llvm/IR/Instructions.h"
#include "llvm/IR/IntrinsicInst.h"
#include "llvm/IR/Constants.h"
#include "llvm/IR/Dominators.h"
#include "llvm/IR/DebugInfoMetadata.h"
#include "llvm/IR/DataLayout.h"
#include "llvm/IR/InlineAsm.h"
#include "llvm/IR/Operator.h"
#include "llvm/IR/GetElementPtrTypeIterator.h"
#include "llvm/Analysis/LoopInfo.h"
#include "llvm/IRReader/IRReader.h"
#include "llvm/Support/SourceMgr.h"
#include "llvm/Support/raw_ostream.h"
#include "llvm/Support/JSON.h"
#include <map>
#include <functional>
using namespace llvm;

static std::map<const Value *, std::string> Names;
static unsigned Counter;

static std::string tyStr(Type *T) {
  std::string s; raw_string_ostream os(s); T->print(os); return os.str();
}
static std::string vid(const Value *V) {
  auto it = Names.find(V);
  if (it != Names.end()) return it->second;
  std::string n;
  if (V->hasName()) n = ("%" + V->getName()).str();
  else n = "%t" + std::to_string(Counter++);
  Names[V] = n; return n;
}

static json::Value opnd(const Value *V, const DataLayout &DL);

static json::Value gepTerms(const GEPOperator *G, const DataLayout &DL, json::Object &o) {
  // decompose into const byte offset + sum(index * stride)
  int64_t coff = 0; json::Array terms;
  for (gep_type_iterator GTI = gep_type_begin(G), E = gep_type_end(G); GTI != E; ++GTI) {
    Value *Idx = GTI.getOperand();
    if (StructType *ST = GTI.getStructTypeOrNull()) {
      unsigned f = cast<ConstantInt>(Idx)->getZExtValue();
      coff += DL.getStructLayout(ST)->getElementOffset(f);
    } else {
      uint64_t stride = DL.getTypeAllocSize(GTI.getIndexedType());
      if (auto *CI = dyn_cast<ConstantInt>(Idx)) coff += CI->getSExtValue() * (int64_t)stride;
      else terms.push_back(json::Object{{"v", opnd(Idx, DL)}, {"stride", (int64_t)stride}});
    }
  }
  o["coff"] = coff; o["terms"] = std::move(terms);
  o["base"] = opnd(G->getPointerOperand(), DL);
  o["src_elem_size"] = (int64_t)DL.getTypeAllocSize(G->getSourceElementType());
  return json::Value(nullptr);
}

static json::Value opnd(const Value *V, const DataLayout &DL) {
  if (auto *CI = dyn_cast<ConstantInt>(V)) {
    if (CI->getBitWidth() <= 64)
      return json::Object{{"k", "c"}, {"v", CI->getSExtValue()}, {"bits", (int64_t)CI->getBitWidth()}};
    return json::Object{{"k", "cbig"}};
  }
  if (isa<ConstantPointerNull>(V)) return json::Object{{"k", "null"}};
  if (isa<UndefValue>(V)) return json::Object{{"k", "undef"}};
  if (isa<ConstantFP>(V)) return json::Object{{"k", "fp"}};
  if (auto *F = dyn_cast<Function>(V)) return json::Object{{"k", "f"}, {"name", F->getName().str()}};
  if (auto *G = dyn_cast<GlobalVariable>(V)) return json::Object{{"k", "g"}, {"name", G->getName().str()}};
  if (auto *CE = dyn_cast<ConstantExpr>(V)) {
    json::Object o{{"k", "ce"}, {"op", CE->getOpcodeName()}};
    if (auto *G = dyn_cast<GEPOperator>(CE)) gepTerms(G, DL, o);
    else { json::Array a; for (auto &U : CE->operands()) a.push_back(opnd(U.get(), DL)); o["ops"] = std::move(a); }
    return std::move(o);
  }
  if (isa<Constant>(V)) return json::Object{{"k", "const"}};
  if (isa<BasicBlock>(V)) return json::Object{{"k", "bb"}, {"id", vid(V)}};
  if (isa<MetadataAsValue>(V)) return json::Object{{"k", "md"}};
  if (isa<InlineAsm>(V)) {
    auto *IA = cast<InlineAsm>(V);
    return json::Object{{"k", "asm"}, {"asm", IA->getAsmString()}, {"cons", IA->getConstraintString()}, {"sideeffect", IA->hasSideEffects()}};
  }
  return json::Object{{"k", "v"}, {"id", vid(V)}, {"ty", tyStr(V->getType())}};
}

int main(int argc, char **argv) {
  LLVMContext C; SMDiagnostic E;
  auto M = parseIRFile(argv[1], E, C);
  if (!M) { E.print(argv[0], errs()); return 2; }
  const DataLayout &DL = M->getDataLayout();
  json::Object mod; mod["source"] = M->getSourceFileName();
  json::Array globals;
  for (auto &G : M->globals()) {
    json::Object g{{"name", G.getName().str()}, {"constant", G.isConstant()}, {"tls", G.isThreadLocal()},
                   {"internal", G.hasLocalLinkage()}, {"decl", G.isDeclaration()}, {"ty", tyStr(G.getValueType())}};
    if (G.getValueType()->isSized()) g["size"] = (int64_t)DL.getTypeAllocSize(G.getValueType());
    if (auto *AT = dyn_cast<ArrayType>(G.getValueType())) { g["nelem"] = (int64_t)AT->getNumElements(); g["elem_size"] = (int64_t)DL.getTypeAllocSize(AT->getElementType()); }
    if (G.hasInitializer()) {
      const Constant *In = G.getInitializer();
      if (auto *CDA = dyn_cast<ConstantDataArray>(In)) {
        if (CDA->isString()) g["str"] = json::fixUTF8(CDA->getAsString());
        else if (CDA->getElementType()->isIntegerTy(32) && CDA->getNumElements() <= 64) {
          std::string w; bool ok = true;
          for (unsigned k = 0; k < CDA->getNumElements(); k++) { uint64_t c = CDA->getElementAsInteger(k); if (c == 0 && k + 1 == CDA->getNumElements()) break; if (c == 0 || c > 126) { ok = false; break; } w.push_back((char)c); }
          if (ok) g["wstr"] = w;
        }
      }
      else if (isa<ConstantPointerNull>(In) || isa<Function>(In) || isa<ConstantInt>(In) || isa<GlobalVariable>(In)) g["init"] = opnd(In, DL);
      g["zeroinit"] = In->isNullValue();
      // constant integer tables (arrays of integers or of structs of integers), bounded: rows of field values
      if (G.isConstant()) {
        std::function<bool(const Constant *, json::Array &)> flat = [&](const Constant *C, json::Array &out) -> bool {
          if (auto *CI = dyn_cast<ConstantInt>(C)) { if (CI->getBitWidth() > 64) return false; out.push_back((int64_t)CI->getZExtValue()); return true; }
          if (isa<ConstantAggregateZero>(C)) {
            if (auto *ST = dyn_cast<StructType>(C->getType())) { for (unsigned k = 0; k < ST->getNumElements(); k++) { if (!ST->getElementType(k)->isIntegerTy()) return false; out.push_back((int64_t)0); } return true; }
            if (auto *AT2 = dyn_cast<ArrayType>(C->getType())) { if (!AT2->getElementType()->isIntegerTy() || AT2->getNumElements() > 64) return false; for (uint64_t k = 0; k < AT2->getNumElements(); k++) out.push_back((int64_t)0); return true; }
            return false;
          }
          if (auto *CS = dyn_cast<ConstantStruct>(C)) { for (unsigned k = 0; k < CS->getNumOperands(); k++) if (!flat(CS->getOperand(k), out)) return false; return true; }
          if (auto *CD = dyn_cast<ConstantDataSequential>(C)) { if (!CD->getElementType()->isIntegerTy() || CD->getNumElements() > 64) return false; for (unsigned k = 0; k < CD->getNumElements(); k++) out.push_back((int64_t)CD->getElementAsInteger(k)); return true; }
          return false;
        };
        if (auto *AT = dyn_cast<ArrayType>(G.getValueType())) {
          if (AT->getNumElements() <= 8192 && !(isa<ConstantDataArray>(In) && cast<ConstantDataArray>(In)->isString())) {
            json::Array rows; bool ok = true;
            if (auto *CA = dyn_cast<ConstantArray>(In)) {
              for (unsigned k = 0; ok && k < CA->getNumOperands(); k++) { json::Array row; ok = flat(CA->getOperand(k), row); rows.push_back(std::move(row)); }
            } else if (auto *CD = dyn_cast<ConstantDataArray>(In)) {
              if (CD->getElementType()->isIntegerTy()) for (unsigned k = 0; k < CD->getNumElements(); k++) { json::Array row; row.push_back((int64_t)CD->getElementAsInteger(k)); rows.push_back(std::move(row)); }
              else ok = false;
            } else ok = false;
            if (ok && !rows.empty()) g["table"] = std::move(rows);
          }
        }
      }
    }
    // integer tables that clang emitted as a packed struct of arrays (initialised prefix + zero tail): one value per row
    if (G.hasInitializer() && G.isConstant()) {
      if (auto *CS = dyn_cast<ConstantStruct>(G.getInitializer())) {
        json::Array rows; bool ok = CS->getNumOperands() > 0; size_t total = 0;
        for (unsigned k = 0; ok && k < CS->getNumOperands(); k++) {
          const Constant *P = CS->getOperand(k);
          if (auto *CI = dyn_cast<ConstantInt>(P)) { if (CI->getBitWidth() > 64 || ++total > 8192) { ok = false; break; } json::Array row; row.push_back((int64_t)CI->getZExtValue()); rows.push_back(std::move(row)); continue; }
          auto *AT2 = dyn_cast<ArrayType>(P->getType());
          if (!AT2 || !AT2->getElementType()->isIntegerTy() || (total += AT2->getNumElements()) > 8192) { ok = false; break; }
          if (auto *CD = dyn_cast<ConstantDataArray>(P)) { for (unsigned j = 0; j < CD->getNumElements(); j++) { json::Array row; row.push_back((int64_t)CD->getElementAsInteger(j)); rows.push_back(std::move(row)); } }
          else if (isa<ConstantAggregateZero>(P)) { for (uint64_t j = 0; j < AT2->getNumElements(); j++) { json::Array row; row.push_back((int64_t)0); rows.push_back(std::move(row)); } }
          else ok = false;
        }
        if (ok && !rows.empty()) g["table"] = std::move(rows);
      }
    }
    // pointer tables (nested radix tables): the flattened leaves, each null or the name of the global pointed into
    if (G.hasInitializer()) {
      const Constant *In = G.getInitializer();
      json::Array leaves; size_t budget = 70000;
      std::function<bool(const Constant *)> pflat = [&](const Constant *C) -> bool {
        Type *T = C->getType();
        if (T->isPointerTy()) {
          if (leaves.size() >= budget) return false;
          if (isa<ConstantPointerNull>(C)) { leaves.push_back(nullptr); return true; }
          const Value *B = C->stripInBoundsOffsets();
          if (auto *GV = dyn_cast<GlobalVariable>(B)) { leaves.push_back(GV->getName().str()); return true; }
          return false;
        }
        if (isa<ConstantAggregateZero>(C)) {
          if (auto *AT2 = dyn_cast<ArrayType>(T)) { if (!AT2->getElementType()->isPointerTy() || leaves.size() + AT2->getNumElements() > budget) return false; for (uint64_t k = 0; k < AT2->getNumElements(); k++) leaves.push_back(nullptr); return true; }
          return false;
        }
        if (isa<ConstantArray>(C) || isa<ConstantStruct>(C)) { for (unsigned k = 0; k < C->getNumOperands(); k++) if (!pflat(cast<Constant>(C->getOperand(k)))) return false; return true; }
        return false;
      };
      if ((isa<ConstantArray>(In) || isa<ConstantStruct>(In)) && pflat(In) && !leaves.empty()) g["ptrs"] = std::move(leaves);
    }
    SmallVector<DIGlobalVariableExpression *, 1> GVs; G.getDebugInfo(GVs);
    if (!GVs.empty()) { g["line"] = (int64_t)GVs[0]->getVariable()->getLine(); g["file"] = GVs[0]->getVariable()->getFilename().str(); g["srcname"] = GVs[0]->getVariable()->getName().str(); }
    globals.push_back(std::move(g));
  }
  mod["globals"] = std::move(globals);
  json::Array funcs;
  for (auto &F : *M) {
    Names.clear(); Counter = 0;
    json::Object f{{"name", F.getName().str()}, {"internal", F.hasLocalLinkage()}, {"decl", F.isDeclaration()},
                   {"ret_ty", tyStr(F.getReturnType())}, {"vararg", F.isVarArg()}, {"noreturn", F.doesNotReturn()}};
    json::Array params;
    for (auto &A : F.args()) params.push_back(json::Object{{"id", vid(&A)}, {"ty", tyStr(A.getType())}, {"name", A.getName().str()}, {"noalias", A.hasNoAliasAttr()}});
    f["params"] = std::move(params);
    if (F.isDeclaration()) { funcs.push_back(std::move(f)); continue; }
    if (auto *SP = F.getSubprogram()) { f["line"] = (int64_t)SP->getLine(); f["file"] = SP->getFilename().str(); }
    for (auto &B : F) vid(&B);
    DominatorTree DT(F); LoopInfo LI(DT);
    json::Array blocks;
    for (auto &B : F) {
      json::Object b{{"id", vid(&B)}};
      if (auto *N = DT.getNode(&B)) if (N->getIDom()) b["idom"] = vid(N->getIDom()->getBlock());
      if (Loop *L = LI.getLoopFor(&B)) { b["loop"] = vid(L->getHeader()); b["loop_depth"] = (int64_t)L->getLoopDepth(); }
      json::Array preds; for (auto *P : predecessors(&B)) preds.push_back(vid(P)); b["preds"] = std::move(preds);
      json::Array insts;
      for (auto &I : B) {
        if (isa<DbgInfoIntrinsic>(&I)) continue;
        json::Object i{{"op", I.getOpcodeName()}, {"ty", tyStr(I.getType())}};
        if (!I.getType()->isVoidTy()) i["id"] = vid(&I);
        if (auto *PE = dyn_cast<PossiblyExactOperator>(&I)) if (PE->isExact()) i["exact"] = true;
        if (auto &DLoc = I.getDebugLoc()) { i["line"] = (int64_t)DLoc.getLine(); i["col"] = (int64_t)DLoc.getCol(); }
        if (auto *G = dyn_cast<GetElementPtrInst>(&I)) { gepTerms(cast<GEPOperator>(G), DL, i); i["inbounds"] = G->isInBounds(); }
        else if (auto *P = dyn_cast<PHINode>(&I)) {
          json::Array inc; for (unsigned k = 0; k < P->getNumIncomingValues(); k++) inc.push_back(json::Object{{"v", opnd(P->getIncomingValue(k), DL)}, {"bb", vid(P->getIncomingBlock(k))}});
          i["incoming"] = std::move(inc);
        } else if (auto *CB = dyn_cast<CallBase>(&I)) {
          if (Function *Cal = CB->getCalledFunction()) { i["callee"] = Cal->getName().str(); i["intrinsic"] = Cal->isIntrinsic(); }
          else i["callee_v"] = opnd(CB->getCalledOperand(), DL);
          json::Array a; for (auto &U : CB->args()) a.push_back(opnd(U.get(), DL)); i["args"] = std::move(a);
        } else if (auto *Br = dyn_cast<BranchInst>(&I)) {
          if (Br->isConditional()) { i["cond"] = opnd(Br->getCondition(), DL); i["t"] = vid(Br->getSuccessor(0)); i["f"] = vid(Br->getSuccessor(1)); }
          else i["t"] = vid(Br->getSuccessor(0));
        } else if (auto *Sw = dyn_cast<SwitchInst>(&I)) {
          i["cond"] = opnd(Sw->getCondition(), DL); i["default"] = vid(Sw->getDefaultDest());
          json::Array cs; for (auto &Cs : Sw->cases()) cs.push_back(json::Object{{"v", Cs.getCaseValue()->getSExtValue()}, {"bb", vid(Cs.getCaseSuccessor())}});
          i["cases"] = std::move(cs);
        } else {
          json::Array a; for (auto &U : I.operands()) a.push_back(opnd(U.get(), DL)); i["ops"] = std::move(a);
          if (auto *Cm = dyn_cast<CmpInst>(&I)) i["pred"] = CmpInst::getPredicateName(Cm->getPredicate()).str();
          if (auto *L = dyn_cast<LoadInst>(&I)) { i["volatile"] = L->isVolatile(); i["size"] = (int64_t)DL.getTypeStoreSize(L->getType()); }
          if (auto *S = dyn_cast<StoreInst>(&I)) { i["volatile"] = S->isVolatile(); i["size"] = (int64_t)DL.getTypeStoreSize(S->getValueOperand()->getType()); }
          if (auto *Al = dyn_cast<AllocaInst>(&I)) { i["alloc_size"] = (int64_t)DL.getTypeAllocSize(Al->getAllocatedType()); i["alloc_ty"] = tyStr(Al->getAllocatedType());
            if (auto *AT = dyn_cast<ArrayType>(Al->getAllocatedType())) { i["nelem"] = (int64_t)AT->getNumElements(); i["elem_size"] = (int64_t)DL.getTypeAllocSize(AT->getElementType()); } }
          if (I.getType()->isIntegerTy()) i["bits"] = (int64_t)I.getType()->getIntegerBitWidth();
        }
        if (I.getType()->isPointerTy()) { Type *ET = I.getType()->getPointerElementType(); if (ET->isSized()) i["pointee_size"] = (int64_t)DL.getTypeAllocSize(ET); }
        insts.push_back(std::move(i));
      }
      b["insts"] = std::move(insts);
      blocks.push_back(std::move(b));
    }
    f["blocks"] = std::move(blocks);
    // loops
    json::Array loops;
    for (Loop *L : LI.getLoopsInPreorder()) {
      json::Object l{{"header", vid(L->getHeader())}, {"depth", (int64_t)L->getLoopDepth()}};
      if (L->getParentLoop()) l["parent"] = vid(L->getParentLoop()->getHeader());
      json::Array bs; for (auto *B : L->blocks()) bs.push_back(vid(B)); l["blocks"] = std::move(bs);
      SmallVector<BasicBlock *, 4> La; L->getLoopLatches(La); json::Array ls; for (auto *B : La) ls.push_back(vid(B)); l["latches"] = std::move(ls);
      loops.push_back(std::move(l));
    }
    f["loops"] = std::move(loops);
    // param pointee sizes
    funcs.push_back(std::move(f));
  }
  mod["functions"] = std::move(funcs);
  outs() << json::Value(std::move(mod)) << "\n";
  return 0;
}
