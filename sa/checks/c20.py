"""C20 -- running out of memory inside the library is an error, not a crash; no leaks.

For every function that calls malloc/calloc/realloc, all paths are explored with an allocation typestate: each allocation result must
be known non-null (a null test on the path) before it is dereferenced or handed to a routine that dereferences it, and every block
that may be non-null must have been freed (or handed to the caller) at every return.  realloc forks into its success edge (old block
released) and its failure edge (NULL, old block still owned).  Fault positions are not enumerated dynamically: the analysis covers
every allocation site and every path from it, which is the statement 'for every k'."""
import os
from ..ir import Program, exit_line
from ..lin import Lin
from ..pathflags import Engine, BudgetExceeded, run_adaptive
from ..flags import AFlags
from .. import frontend, api, par

ALLOCATORS = ("malloc", "calloc", "realloc")
MIN_SITES = 16


def sites(prog):
    out = {}
    for fn in prog.allfuncs:
        for c in fn.calls():
            if c.get("callee") in ALLOCATORS and prog.resolve(fn, c["callee"]) is None:
                out.setdefault((fn.mod["tu"], fn.name), []).append(c)
    return out


_NDF = {}


def null_dest_fails(prog, callee):
    """does the library function return an error on every path when its dest parameter is NULL? (decided once per callee by the path engine)"""
    k = (id(prog), callee.name)
    if k not in _NDF:
        ok = False
        d = callee.pnames.get("dest")
        if d is not None and callee.j["ret_ty"] == "i32":
            from ..pathflags import Plugin
            eng = Engine(prog, callee, Plugin(), budget=20000)
            eng.init_assumptions = [(("cmp", "eq", Lin.atom("&" + d["id"]), Lin.const(0)), True)]
            try:
                eng.run()
                rets = [rv for (rv, st, path) in eng.results]
                ok = bool(rets) and all(rv is not None and rv[0] == "i" and rv[1].is_const() and rv[1].c != 0 for rv in rets)
            except BudgetExceeded:
                ok = False
        _NDF[k] = ok
    return _NDF[k]


def _mk_plugin(prog, split):
    def mk():
        p = AFlags()
        p.split_alloc = split
        p.null_dest_fails = lambda callee: null_dest_fails(prog, callee)
        return p
    return mk


def worker(prog, key):
    tu, name = key
    fn = next(f for f in prog.allfuncs if f.name == name and f.mod["tu"] == tu)
    nalloc = sum(1 for c in fn.calls() if c.get("callee") in ("malloc", "calloc"))
    split = nalloc <= 3            # the failure/success fork doubles the paths per allocation: only where that stays small
    try:
        eng = run_adaptive(prog, fn, _mk_plugin(prog, split), budgets=(150000, 500000), low_set=())
    except BudgetExceeded as e:
        return dict(budget=str(e))
    finds = {}
    base = api.base_name(name)
    nret = 0
    # stable names for the allocation sites: <allocator>#<ordinal among the function's allocator calls, in code order>
    ordinal = {}
    for k_, c in enumerate(c for c in fn.calls() if c.get("callee") in ALLOCATORS):
        if "id" in c:
            ordinal[c["id"]] = "%s#%d(line %s)" % (c["callee"], k_ + 1, c.get("line"))
    def site_name(root):
        sid = root.split("/")[-1]
        return ordinal.get(sid, sid)
    def site_key(root):
        return site_name(root).split("(")[0]
    for (rv, st, path) in eng.results:
        allocs, viol = st.pl
        nret += 1
        for v in viol:
            kind, root, what, line = v
            site = site_name(root)
            key_ = "C20:%s:%s:%s" % (kind, base, site_key(root)) if kind == "unchecked-use" else "C20:%s:%s:%s:%s" % (kind, base, site_key(root), what.replace(" ", "-"))
            finds.setdefault(key_, dict(key=key_, rule="A-" + kind, where="%s:%s" % (fn.file, line),
                                        text="%s: the block allocated at %s is %s without a preceding null test on this path" % (base, site, what) if kind == "unchecked-use"
                                        else "%s: %s of the block allocated at %s" % (base, kind, site)))
        for (r, stt) in allocs:
            if stt == "failed" and conv_fail(fn, rv, eng, st.facts) is False and not any(v[0] == "unchecked-use" and v[1] == r for v in viol):
                site = site_name(r)
                key_ = "C20:failure-reported-as-success:%s:%s" % (base, site_key(r))
                finds.setdefault(key_, dict(key=key_, rule="A-failed-allocation-fails-the-call", where="%s:%s" % (fn.file, exit_line(fn, path)),
                                            text="%s: on the path where the allocation at %s returned NULL the function still returns a success value" % (base, site)))
            if stt != "live":
                continue
            nn = eng.decide(("cmp", "eq", Lin.atom("&" + r), Lin.const(0)), st.facts)
            if nn is True:
                continue
            if rv is not None and rv[0] == "p" and rv[1] == r:
                continue       # returned to the caller
            site = site_name(r)
            line = exit_line(fn, path)
            key_ = "C20:leak:%s:%s:exit@%s" % (base, site_key(r), _exit_desc(fn, path, rv))
            finds.setdefault(key_, dict(key=key_, rule="A-leak", where="%s:%s" % (fn.file, line),
                                        text="%s: the block allocated at %s is still owned (not freed) when the function returns through line %s" % (base, site, line)))
    und = sorted("%s of %s (line %s)" % (k_, site_name(r_), l_) for (k_, r_, l_) in getattr(eng.plugin, "undecided", ()))
    return dict(findings=list(finds.values()), returns=nret, states=eng.nstates, precision=eng.precision, failure_fork=split, undecided=und)


def conv_fail(fn, rv, eng, facts):
    """True: the returned value is a failure indication; False: it is a success value; None: cannot tell (not judged)"""
    from .c05 import convention, STATUS_OK
    conv = convention(fn)
    if rv is None or conv is None:
        return None
    r = eng.as_lin(rv) if rv[0] in ("i", "p") else None
    if conv == "errno" and r is not None:
        if r.is_const():
            return int(r.c) != 0
        z = eng.decide(("cmp", "eq", r, Lin.const(0)), facts)
        return None if z is None else (not z)
    if conv in ("neg", "eof") and r is not None:
        if r.is_const():
            return r.c < 0
        return eng.decide(("cmp", "slt", r, Lin.const(0)), facts)
    if conv == "ptr" and rv[0] == "p":
        return True if rv[1] == "null" else None
    return None


def _exit_desc(fn, path, rv=None):
    """semantic description of an exit: message of the last handler call on the path, else the returned constant block"""
    from ..ir import global_roots
    for bb in reversed(path or []):
        for i in reversed(fn.blocks[bb]["insts"]):
            if i["op"] == "call" and "constraint_handler" in (i.get("callee") or "") or (i["op"] == "call" and (i.get("callee") or "").startswith("handle_")):
                for a in i.get("args", ()):
                    for n in global_roots(a):
                        g = fn.mod["gmap"].get(n)
                        if g and "str" in g:
                            return g["str"].rstrip("\0").replace(" ", "_")[:50]
    from .c05 import describe
    d = describe(rv)
    if d == "value" and rv is not None and rv[0] == "i" and len(rv[1].t) == 1:
        # name the origin of the returned value: the result of which call is handed back
        a = list(rv[1].t)[0].split("/")[-1]
        df = fn.defs.get(a)
        if df is not None and df["op"] in ("call", "invoke"):
            d = "result-of-" + (df.get("callee") or "indirect-call")
    return "ret=" + d


def run(ck):
    mods, info = frontend.load_modules()
    prog = Program(mods)
    ss = sites(prog)
    nsites = sum(len(v) for v in ss.values())
    if nsites < MIN_SITES:
        ck.fail_broken("only %d allocation sites found (< %d confirmed by hand)" % (nsites, MIN_SITES))
    res, err = par.pmap(prog, worker, sorted(ss))
    for k, e in err.items():
        ck.fail_broken("%s: internal error: %s" % (k[1], e.strip().splitlines()[-1]))
    per = {}
    nret = 0
    for k in sorted(ss):
        r = res.get(k)
        if r is None:
            continue
        if "budget" in r:
            ck.fail_broken("path-state budget exceeded: " + r["budget"]); continue
        nret += r["returns"]
        per[k[1]] = dict(sites=len(ss[k]), return_paths=r["returns"], states=r["states"], precision=r["precision"], findings=len(r["findings"]), failure_fork=r.get("failure_fork"), not_decided_at_this_precision=r.get("undecided"))
        for f in r["findings"]:
            ck.report(f["key"], f["rule"], f["where"], f["text"])
    for n in list(per)[:6]:
        ck.sample(dict(function=n, **per[n]))
    fx = selftest(ck)
    cov = dict(explanation="All %d malloc/calloc/realloc call sites of the library (in %d functions) and every path from them to every return (%d return path classes): each result must be "
               "null-tested before any dereference (load, store, or argument of a routine that reads/writes through it), and every block that may be non-null is freed or handed to the caller "
               "at every return; realloc is split into its success and failure edges." % (nsites, len(ss), nret),
               obligations=nsites + nret, discharged=nsites + nret - len(ck.reports), functions=per, allocation_sites=nsites, fixtures=fx, frontend=info,
               summary="%d allocation sites in %d functions" % (nsites, len(ss)))
    return ck.finish(cov, ["the allocator's contract (NULL on failure; realloc leaves the old block untouched on failure)", "callees receiving an allocated block dereference it (conservative)",
                           "the clause 'dest cleared as for any other violation' is C04's"])


def selftest(ck):
    fdir = os.path.join(frontend.VERIF, "fixtures")
    prog = Program(frontend.load_sources([os.path.join(fdir, "c20.c")]))
    out = {}
    want = {"fx20_good": [], "fx20_unchecked": ["unchecked-use"], "fx20_leak": ["leak"], "fx20_realloc_leak": ["leak"], "fx20_realloc_good": [], "fx20_flag_correlated": []}
    for n, w in want.items():
        r = worker(prog, (prog.mods[0]["tu"], n))
        got = sorted({f["rule"][2:] for f in r.get("findings", [])}) if "findings" in r else ["budget"]
        out[n] = got
        if got != w:
            ck.fail_broken("fixture c20.c:%s: fired %s, expected %s" % (n, got, w))
    return out
