"""Shared exploration for the destination typestate rules (C03, C04, C08-ordering): one DFlags run per destination-writing function."""
import fnmatch
from ..lin import Lin
from ..ir import exit_line, exit_message
from ..pathflags import Engine, BudgetExceeded, run_adaptive
from ..flags import DFlags
from .. import api
from .c05 import convention, STATUS_OK, describe, ASSUME_QUIET, OPAQUE

# functions with a (dest, dmax) pair that are NOT destination writers (queries, tokenizers, erase-only handled elsewhere)
NOT_WRITERS_HINT = ("cmp", "chr", "str_s", "spn", "pbrk", "prefix", "first", "last", "stris", "nlen", "tok_s", "coll", "natcmp", "casestr", "timingsafe", "bsearch", "qsort")

DEST_ALIASES = {"_wcslwr_s_chk": ("src", "slen"), "_wcsupr_s_chk": ("src", "slen"), "safec_vsnprintf_s": ("buffer", "bufsize")}


def roles(fn):
    d, m = DEST_ALIASES.get(fn.name, ("dest", None))
    if m is None:
        for cand in ("dmax", "dlen", "len"):
            if cand in fn.pnames and fn.pnames[cand]["ty"] == "i64":
                m = cand
                break
    if d not in fn.pnames or not fn.pnames[d]["ty"].endswith("*"):
        return None
    return d, m


def explore(prog, name, budget=300000):
    fn = prog.funcs[name]
    r = roles(fn)
    if r is None:
        return dict(skip="no dest parameter")
    d, m = r
    mk = lambda: DFlags(dest=d, dmax=m or "dmax", noinline=[n for n in OPAQUE if n != name], assume_quiet=ASSUME_QUIET.get(name), opaque_convention=OPAQUE)
    try:
        eng = run_adaptive(prog, fn, mk, budgets=(60000, budget))
    except BudgetExceeded as e:
        return dict(budget=str(e))
    plugin = eng.plugin
    res = eng.results
    conv = convention(fn)
    # RSIZE-style limits the function itself applies to dmax
    limits = set()          # (scale, K): the function rejects scale*dmax > K
    mp = fn.pnames.get(m) if m else None
    for i in fn.insts():
        if i["op"] == "icmp" and i["pred"] in ("ugt", "uge") and mp is not None:
            a, b = i["ops"]
            if b.get("k") == "c" and b["v"] >= 64 and a.get("k") == "v":
                if a["id"] == mp["id"]:
                    limits.add((1, b["v"]))
                else:
                    da = fn.defs.get(a["id"])
                    if da is not None and da["op"] in ("mul", "shl") and da["ops"][0].get("k") == "v" and da["ops"][0]["id"] == mp["id"] and da["ops"][1].get("k") == "c":
                        c = da["ops"][1]["v"]
                        limits.add((c if da["op"] == "mul" else 2 ** c, b["v"]))
    # a limit may also be a merged value: limit = (destbos == BOS_UNKNOWN) ? RSIZE_MAX_STR : destbos;  if (dmax > limit) ...
    limit_values = set()          # SSA ids whose every alternative is a constant >= 64 or the object-size parameter
    bosp = fn.pnames.get("destbos")

    def alternatives(o, depth=0):
        if o.get("k") == "c":
            return [("c", o["v"])]
        if o.get("k") != "v" or depth > 3:
            return [("?", None)]
        if bosp is not None and o["id"] == bosp["id"]:
            return [("bos", None)]
        dd = fn.defs.get(o["id"])
        if dd is None:
            return [("?", None)]
        if dd["op"] == "select":
            return alternatives(dd["ops"][1], depth + 1) + alternatives(dd["ops"][2], depth + 1)
        if dd["op"] == "phi" and dd["_bb"] not in fn.loops:
            return [a for x in dd["incoming"] for a in alternatives(x["v"], depth + 1)]
        return [("?", None)]
    for i in fn.insts():
        if i["op"] == "icmp" and i["pred"] in ("ugt", "uge") and mp is not None:
            a, b = i["ops"]
            if a.get("k") == "v" and a["id"] == mp["id"] and b.get("k") == "v" and fn.defs.get(b["id"], {}).get("op") in ("select", "phi"):
                alts = alternatives(b)
                if alts and all(k_ == "bos" or (k_ == "c" and v_ >= 64) for (k_, v_) in alts):
                    limit_values.add(b["id"])
                    for (k_, v_) in alts:
                        if k_ == "c":
                            limits.add((1, v_))          # on the path that chose the constant the engine knows dmax > K itself
    outs = []
    seen = set()
    fam = dest_family(fn, fn.pnames[d]["id"])
    for (rv, st, path) in res:
        dirty, c1, cf, nul = st.pl[:4]
        wrote, slack = st.pl[7], st.pl[8]
        term = st.pl[10]
        ret_at_term = None
        if rv is not None and rv[0] == "p" and rv[1] == plugin.root and term is not None:
            ret_at_term = eng.decide(("cmp", "eq", rv[2], term), facts)
        facts = st.facts
        ex = []
        dl = Lin.atom("&" + plugin.root)
        if eng.decide(("cmp", "eq", dl, Lin.const(0)), facts) is True:
            ex.append("dest-null")
        if plugin.dmax is not None:
            if eng.decide(("cmp", "eq", plugin.dmax, Lin.const(0)), facts) is True:
                ex.append("dmax-zero")
            for (sc, K) in limits:
                if eng.decide(("cmp", "ugt", plugin.dmax.scale(sc), Lin.const(K)), facts) is True:
                    ex.append("dmax-above-limit")
                    break
            if plugin.destbos is not None and eng.decide(("cmp", "ugt", plugin.dmax.scale(plugin.unit), plugin.destbos), facts) is True:
                ex.append("dmax-above-object")
            if not any(x.startswith("dmax-above") for x in ex):
                for lv in limit_values:
                    if eng.decide(("cmp", "ugt", plugin.dmax, Lin.atom(lv)), facts) is True:
                        ex.append("dmax-above-limit")
                        break
        if "out" in fn.pnames:
            # the formatter writes into `buffer` only through the buffer output callback
            po = Lin.atom("&" + fn.pnames["out"]["id"])
            isbuf = None
            for a_ in facts.atoms():
                if a_.startswith("&@fn:safec_out_buffer"):
                    isbuf = eng.decide(("cmp", "eq", po, Lin.atom(a_)), facts)
            if isbuf is not True:
                ex.append("not-known-to-be-buffer-output")
        for zn in ("slen", "n", "count", "len"):
            zp = fn.pnames.get(zn)
            if zp is not None and zp["ty"] == "i64" and zn != m and not dirty:
                if eng.decide(("cmp", "eq", Lin.atom(zp["id"]), Lin.const(0)), facts) is True:
                    ex.append("zero-length-request")
                    break
        src_null = False
        for sn in ("src", "srcp"):
            sp_ = fn.pnames.get(sn)
            if sp_ is not None and sp_["ty"].endswith("*") and eng.decide(("cmp", "eq", Lin.atom("&" + sp_["id"]), Lin.const(0)), facts) is True:
                src_null = True
        d_ = describe(rv)
        r = eng.as_lin(rv) if rv is not None and rv[0] in ("i", "p") else None
        err = None
        if conv == "errno" and r is not None:
            if r.is_const():
                err = int(r.c) not in STATUS_OK
            else:
                z = eng.decide(("cmp", "eq", r, Lin.const(0)), facts)
                err = None if z is None else (not z)
        elif conv == "neg" and r is not None:
            if r.is_const():
                err = r.c < 0 and int(-r.c) not in STATUS_OK
            else:
                err = eng.decide(("cmp", "slt", r, Lin.const(0)), facts)
        elif conv == "ptr" and rv is not None and rv[0] == "p":
            err = True if rv[1] == "null" else (False if eng.decide(("cmp", "eq", eng.as_lin(rv), Lin.const(0)), facts) is False else None)
        line = exit_line(fn, path)
        msg = exit_message(fn, path)
        via = via_callees(fn, path, fam)
        key = (d_, err, dirty, c1, cf, nul, tuple(ex), msg, wrote, slack, ret_at_term, term is not None, src_null, via)
        if key in seen:
            continue
        seen.add(key)
        outs.append(dict(ret=d_, err=err, dirty=dirty, clr_first=c1, clr_full=cf, nul=nul, wrote=wrote, slack=slack, ret_at_term=ret_at_term, has_term=term is not None, src_null=src_null, exempt=ex, line=line, msg=msg, via=via, path=path[-10:] if path else None))
    return dict(outcomes=outs, n_paths=len(res), states=eng.nstates, conv=conv, file=fn.file, unit=plugin.unit, precision=eng.precision)


def dest_family(fn, dest_id):
    """SSA pointers derived from the dest parameter (gep / bitcast / phi)"""
    fam = {dest_id}
    changed = True
    while changed:
        changed = False
        for i in fn.insts():
            if "id" not in i or i["id"] in fam or not i.get("ty", "").endswith("*"):
                continue
            srcs = [i["base"]] if i["op"] == "getelementptr" else ([i["ops"][0]] if i["op"] == "bitcast" else ([x["v"] for x in i["incoming"]] if i["op"] == "phi" else []))
            if any(o.get("k") == "v" and o["id"] in fam for o in srcs):
                fam.add(i["id"]); changed = True
    return fam


def via_callees(fn, path, fam):
    """library / libc routines (not the constraint handlers and clearing helpers) that were handed a pointer into dest on this path: tells exits apart
    that return the same value with the same flags -- 'the nested copy refused' from 'no copy was attempted'"""
    out = set()
    for bb in (path or []):
        for i in fn.blocks[bb]["insts"]:
            if i["op"] not in ("call", "invoke"):
                continue
            cal = i.get("callee") or ""
            if not cal or cal.startswith("llvm.") or "constraint_handler" in cal or cal.startswith(("handle_", "mem_prim_")) or cal in ("memset", "wmemset"):
                continue
            if any(a.get("k") == "v" and a["id"] in fam for a in i.get("args", ())):
                out.add(api.base_name(cal))
    return ",".join(sorted(out))


def anchored_writers(prog, pid, extra_exclude=()):
    out = []
    for fn in api.anchored(prog, pid):
        b = api.base_name(fn.name)
        if roles(fn) is None:
            continue
        if any(h in b for h in NOT_WRITERS_HINT) and not b.startswith(("strcpy", "strncpy", "strcat", "strncat", "stpcpy", "stpncpy", "wcscpy", "wcsncpy", "wcscat", "wcsncat")):
            continue
        if fn.name in extra_exclude or convention(fn) is None:
            continue
        out.append(fn.name)
    return out
