"""C01 -- no write ever lands outside the destination the caller declared.

Every store, memset/memcpy/memmove, libc writer (with its effect row) and internal clearing/moving helper call in all 243 function
definitions yields the obligation 0 <= off and off + size <= capacity for the buffer it writes (caller buffer with its declared size
under the truthfulness premise, local array, global).  capcheck discharges them by linear loop invariants + Fourier-Motzkin.
Undischarged obligations are either known findings (genuine, reproduced or read), listed reach limits (tables/cap_reach.json: not
claimed), or violations."""
import os
from ..ir import Program
from .. import frontend, capcheck
from . import capcommon


def run(ck):
    prog, info, st = capcommon.run(ck, "C01", "W", 300, 60)
    fx = selftest(ck)
    cov = dict(explanation="%d write obligations over all function definitions of the 140 TUs: %d discharged (offset and upper bound entailed from loop invariants, guards and the caller's "
               "truthfulness premise), %d outside the reach of the domain in %d functions (listed with reasons, not claimed), the rest matched against known findings or reported."
               % (st["total"], st["discharged"], st["outside_reach"], len(st["outside_reach_functions"])),
               obligations=st["total"], discharged=st["discharged"], outside_reach=st["outside_reach"], outside_reach_functions=st["outside_reach_functions"],
               fully_discharged_functions=st["fully_discharged_functions"], fixtures=fx, frontend=info, no_slack_configuration=st.get("noslack", "thorough tier only"),
               summary="%d write obligations, %d discharged, %d outside reach" % (st["total"], st["discharged"], st["outside_reach"]))
    return ck.finish(cov, ["truthfulness premise: each caller buffer has at least the declared number of elements", "libc effect table (sa/effects.py) for delegated writes",
                           "unsigned wrap-around of size arithmetic is ignored (sizes are bounded by RSIZE_MAX after the entry checks)", "functions listed in tables/cap_reach.json are not analysed"])


def selftest(ck):
    fdir = os.path.join(frontend.VERIF, "fixtures")
    prog = Program(frontend.load_sources([os.path.join(fdir, "c01.c")]))
    roles = capcheck.all_roles(prog)
    out = {}
    want = {"fx1_good_copy": 0, "fx1_no_decrement": 1, "fx1_fgets_plus1": 1, "fx1_good_index": 0, "fx1_off_by_one_index": 1, "fx1_clear_stale": 1}
    for n, w in want.items():
        res, _ = capcheck.analyse(prog.funcs[n], roles.get(n, []), prog, roles)
        bad = sum(1 for x in res if x["kind"] == "W" and not (x["lo"] and x["hi"]))
        out[n] = dict(obligations=sum(1 for x in res if x["kind"] == "W"), undischarged=bad)
        if (bad > 0) != bool(w):
            ck.fail_broken("fixture c01.c:%s: %d undischarged write obligations, expected %s" % (n, bad, "some" if w else "none"))
    return out
