"""C01 -- no write ever lands outside the destination the caller declared.

Every store, memset/memcpy/memmove, libc writer (with its effect row) and internal clearing/moving helper call in all 243 function
definitions yields the obligation 0 <= off and off + size <= capacity for the buffer it writes (caller buffer with its declared size
under the truthfulness premise, local array, global).  capcheck discharges them by linear loop invariants + Fourier-Motzkin.
Undischarged obligations are either known findings (genuine, reproduced or read), listed reach limits (tables/cap_reach.json: not
claimed), or violations."""
import os
from ..ir import Program
from .. import frontend, capcheck, budget
from . import capcommon
from . import prim_common


BOS_PAIR = {"destbos": ("dest", "b1"), "srcbos": ("src", "b2"), "strbos": ("str",), "basebos": ("base",)}


def split_args(text):
    out, depth, cur = [], 0, ""
    for ch in text:
        if ch == "," and depth == 0:
            out.append(cur.strip()); cur = ""
            continue
        depth += ch in "([{"
        depth -= ch in ")]}"
        cur += ch
    if cur.strip():
        out.append(cur.strip())
    return out


def wrapper_rule(ck, prog, report=None, macros_text=None):
    """The truthfulness premise ends at the public wrapper macros: `name_s(dest, dmax, ...)` expands to `_name_s_chk(dest, dmax, ..., BOS(dest)[, BOS(src)])`.
    Decided from the preprocessor's macro table (clang -E -dM over the public headers) and the parameter names of the callee in the library's IR:
    every object-size parameter receives BOS(<the macro parameter that is passed as the operand it describes>), and every other macro parameter is
    forwarded to the callee parameter of the same name."""
    import re, subprocess, tempfile
    report = report or ck.report
    if macros_text is None:
        inc = os.path.join(frontend.REPO, "include")
        with tempfile.NamedTemporaryFile("w", suffix=".c", delete=False) as fh:
            fh.write('#include "safe_lib.h"\n#include "safe_str_lib.h"\n#include "safe_mem_lib.h"\n')
            tmp = fh.name
        try:
            p = subprocess.run(["clang-14", "-E", "-dM", "-I" + inc, "-I" + frontend.REPO, tmp], stdout=subprocess.PIPE, stderr=subprocess.PIPE)
        finally:
            os.unlink(tmp)
        if p.returncode != 0:
            ck.fail_broken("wrapper rule: the public headers do not preprocess: " + p.stderr.decode()[-300:]); return {}
        macros_text = p.stdout.decode(errors="replace")
    macros = {}
    for line in macros_text.splitlines():
        m = re.match(r"#define (\w+)\(([^)]*)\) (.*)$", line)
        if m:
            macros[m.group(1)] = ([a.strip() for a in m.group(2).split(",") if a.strip()], m.group(3).strip())
    bos = macros.get("BOS")
    if not bos or not re.fullmatch(r"__builtin_object_size\(\(?\s*%s\s*\)?\s*,\s*[01]\)" % re.escape(bos[0][0]), bos[1]):
        report("C01:wrapper-bos-definition", "W-wrapper-passes-its-own-sizes", "include/safe_compile.h:?", "BOS(x) is not __builtin_object_size(x, 0|1) of its own argument: %s" % (bos,))
    n = nb = 0
    for name, (params, body) in sorted(macros.items()):
        m = re.fullmatch(r"(_\w+_chk)\((.*)\)", body)
        if not m or m.group(1) not in prog.funcs:
            continue
        callee = prog.funcs[m.group(1)]
        cps = [p["name"] for p in callee.j["params"]]
        args = split_args(m.group(2))
        vararg = bool(args) and args[-1] == "__VA_ARGS__"
        if vararg:
            args = args[:-1]
        if (not vararg and len(args) != len(cps)) or len(args) > len(cps):
            report("C01:wrapper-arity:%s" % name, "W-wrapper-passes-its-own-sizes", "include:%s" % name, "%s passes %d arguments to %s, which takes %d" % (name, len(args), callee.name, len(cps)))
            continue
        n += 1
        for i, (a, pn) in enumerate(zip(args, cps)):
            if pn.endswith("bos"):
                nb += 1
                mb = re.fullmatch(r"BOS\((\w+)\)", a)
                ops = [x for x in BOS_PAIR.get(pn, ()) if x in cps]
                if not mb or not ops or args[cps.index(ops[0])] != mb.group(1):
                    report("C01:wrapper-size-mismatch:%s:%s" % (name, pn), "W-wrapper-passes-its-own-sizes", "include:%s" % name,
                           "%s passes %s as %s of %s, but the operand that parameter describes (%s) receives %s: the library is told the size of a different object"
                           % (name, a, pn, callee.name, ops[0] if ops else "?", args[cps.index(ops[0])] if ops else "?"))
            elif re.fullmatch(r"[A-Za-z_]\w*", a) and a in params and a != pn and a in cps:      # named like a *different* callee parameter: swapped
                report("C01:wrapper-argument-order:%s:%s" % (name, pn), "W-wrapper-passes-its-own-sizes", "include:%s" % name,
                       "%s forwards its parameter %s as %s of %s (parameters of the same name exist on both sides: arguments swapped?)" % (name, a, pn, callee.name))
    return dict(wrappers=n, object_size_arguments=nb)


def run(ck):
    prog, info, st = capcommon.run(ck, "C01", "W", 300, 60)
    wr = wrapper_rule(ck, prog)
    if wr.get("wrappers", 0) < 100:
        ck.fail_broken("wrapper rule: only %d public wrapper macros matched a library function (< 100)" % wr.get("wrappers", 0))
    prim = prim_common.primitive_rule(ck, prog, "C01", ck.report)
    bud = budget.rule(prog, ck.report, "C01", broken=ck.fail_broken)
    # the Hangul decomposition routine (in the reach table of the bound engine) stores at most four elements at constant slots: every
    # store must lie on a path that has established dmax >= slot + 1 (the rule of C17 that follows its paths anyway)
    from . import c17 as _c17
    class _Quiet:
        def __init__(s): s.broken = []
        def fail_broken(s, m): s.broken.append(m)
    q = _Quiet()
    wn = [f for f in prog.allfuncs if f.mod["tu"] == "src/extwchar/wcsnorm_s.c"]
    hroom = _c17.hangul_decomp_rule(q, wn, [], lambda *a, **k: None, room_report=ck.report)
    if q.broken or not hroom.get("stores_with_room"):
        ck.fail_broken("Hangul room clause: " + (q.broken[0] if q.broken else "no store into dest judged"))
    else:
        # its writes are decided here: a changed count in the reach table for this one function is not 'analysis broken'
        ck.broken = [m for m in getattr(ck, "broken", []) if "_decomp_hangul_s|W" not in m and "_decomp_hangul_s (" not in m]
    fx = selftest(ck)
    cov = dict(cursor_and_count_loops=bud, hangul_decomposition_room=dict(stores=hroom.get("stores_with_room"), paths=hroom.get("paths")), primitives_by_byte_accounting={k: dict(paths=v.get("paths"), loops=v.get("loops"), iteration_paths=v.get("iteration_paths"), assumed_min_count=v.get("assumed_min_count"), call_sites=v.get("call_sites")) for k, v in prim.items()},
               explanation="%d write obligations over all function definitions of the 140 TUs: %d discharged (offset and upper bound entailed from loop invariants, guards and the caller's "
               "truthfulness premise), %d outside the reach of the domain in %d functions (listed with reasons, not claimed), the rest matched against known findings or reported."
               % (st["total"], st["discharged"], st["outside_reach"], len(st["outside_reach_functions"])),
               obligations=st["total"], discharged=st["discharged"], outside_reach=st["outside_reach"], outside_reach_functions=st["outside_reach_functions"],
               fully_discharged_functions=st["fully_discharged_functions"], wrapper_macros=wr, fixtures=fx, frontend=info, no_slack_configuration=st.get("noslack", "thorough tier only"),
               summary="%d write obligations, %d discharged, %d outside reach" % (st["total"], st["discharged"], st["outside_reach"]))
    return ck.finish(cov, ["truthfulness premise: each caller buffer has at least the declared number of elements", "libc effect table (sa/effects.py) for delegated writes",
                           "unsigned wrap-around of size arithmetic is ignored (sizes are bounded by RSIZE_MAX after the entry checks)", "functions listed in tables/cap_reach.json are not analysed by the bound engine; of these the seven mem_prim_* primitives are decided by the byte accounting of sa/accounting.py instead (all their stores/loads lie in [0, len*size))"])


def selftest(ck):
    fdir = os.path.join(frontend.VERIF, "fixtures")
    prog = Program(frontend.load_sources([os.path.join(fdir, "c01.c")]))
    roles = capcheck.all_roles(prog)
    out = {}
    want = {"fx1_good_copy": 0, "fx1_no_decrement": 1, "fx1_fgets_plus1": 1, "fx1_good_index": 0, "fx1_off_by_one_index": 1, "fx1_clear_stale": 1}
    for n, w in want.items():
        res, _ = capcheck.analyse(prog.funcs[n], roles.get(n, []), prog, roles)
        bad = sum(1 for x in res if x["kind"] == "W" and not (x["lo"] and x["hi"]))
        out[n] = dict(obligations=sum(1 for x in res if x["kind"] == "W"), undischarged=bad)
        if (bad > 0) != bool(w):
            ck.fail_broken("fixture c01.c:%s: %d undischarged write obligations, expected %s" % (n, bad, "some" if w else "none"))
    got = []
    class Sink:
        def fail_broken(s, m): got.append("BROKEN " + m)
    fxm = ("#define BOS(dest) __builtin_object_size((dest), 0)\n"
           "#define fx1_copy_ok(dest,dmax,src,slen) _fx1_copy_ok_chk(dest, dmax, src, slen, BOS(dest), BOS(src))\n"
           "#define fx1_copy_swapped(dest,dmax,src,slen) _fx1_copy_swapped_chk(dest, dmax, src, slen, BOS(src), BOS(dest))\n")
    wrapper_rule(Sink(), prog, report=lambda key, *a, **k: got.append(key), macros_text=fxm)
    out["wrapper_rule"] = got
    if sorted(got) != ["C01:wrapper-size-mismatch:fx1_copy_swapped:destbos", "C01:wrapper-size-mismatch:fx1_copy_swapped:srcbos"]:
        ck.fail_broken("fixture c01.c: wrapper rule reported %s" % got)
    got = []
    r = budget.rule(prog, lambda key, *a, **k: got.append(key), "C01", funcs=[prog.funcs[n] for n in ("fxb_good", "fxb_no_room", "fxb_double_dec")], floor=0)
    out["budget_rule"] = dict(reports=got, loops=r["loops"], iteration_paths=r["iteration_paths"])
    if got != ["C01:no-room-established:fxb_no_room:#1", "C01:no-room-established:fxb_no_room:#2", "C01:no-room-established:fxb_no_room:#3"] or r["loops"] != 3:
        ck.fail_broken("fixture c01.c: budget rule reported %s over %d loops" % (got, r["loops"]))
    return out
