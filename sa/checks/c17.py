"""C17 (clause: code points above U+10FFFF are never used as table indices).

The Unicode tables are indexed by plane (cp >> 16) into 17-entry arrays.  Every load from a constant global array whose index is a
right shift of a value by 16 must have its index in range; where the lookup helper does not establish cp <= 0x10FFFF itself, the bound
becomes a precondition on its parameter that every call site in the library must establish (followed through parameters up to the
exported entry points).  Conformance of the normalisation / folding results to the Unicode standard is value-level and NOT decided."""
import os
from ..ir import Program
from .. import frontend, api, capcheck, par, intervals
from ..ir import return_sites, global_roots
from ..derive import derive, labels_of

UNICODE_MAX = 0x10FFFF
MIN_TABLE_ACCESSES = 3


def plane_accesses(fn, res):
    """R obligations of fn that index a constant global by (param >> 16): returns [(obligation, param index)]"""
    out = []
    for x in res:
        if x["kind"] != "R" or not x["role"].startswith("global:") or x["const_index"]:
            continue
        # offset is k * atom where atom is an lshr by 16 of a parameter
        import re
        m = re.fullmatch(r"(\d+)\*(%[\w.]+)", x["off"])
        if not m:
            continue
        d = fn.defs.get(m.group(2))
        if d is None or d["op"] != "lshr" or d["ops"][1].get("k") != "c" or d["ops"][1]["v"] != 16:
            continue
        src = d["ops"][0]
        # see through zext/trunc
        while src.get("k") == "v" and fn.defs.get(src["id"], {}).get("op") in ("zext", "trunc", "sext"):
            src = fn.defs[src["id"]]["ops"][0]
        pidx = fn.param_index(fn.params[src["id"]]["name"]) if src.get("k") == "v" and src["id"] in fn.params else None
        out.append((x, pidx))
    return out


def fold_agreement(ck, prog, report, announcer="iswfc", emitter="_towfc_s_chk"):
    """clause: the number of characters towfc_s emits for a multi-character folding equals what iswfc announces.
    iswfc touches its argument only through comparisons with constants: its decision tree is evaluated over the interval partition those
    constants induce (sa/intervals.py), giving the exact sets of code points announced as 2 and as 3.  towfc_s searches sorted constant
    tables; a hit in table T stores one element per folded character of the row plus the terminator and returns that count.
    Decided: announced set for k == first column of the k-character table, tables strictly ascending (the search stops at the first larger key),
    hit blocks store k+1 elements and return k."""
    fa, fe = prog.funcs.get(announcer), prog.funcs.get(emitter)
    if fa is None or fe is None:
        ck.fail_broken("fold agreement: %s / %s not found" % (announcer, emitter)); return {}
    arg = fa.j["params"][0]["id"]
    try:
        parts = intervals.classify(fa, arg, 0, (1 << 32) - 1)
    except intervals.Unsupported as e:
        ck.fail_broken("fold agreement: %s is not a comparison-only classification: %s" % (announcer, e)); return {}
    announced = {}
    for (lo, hi, v) in parts:
        if isinstance(v, int) and v >= 2:
            if hi - lo > 4096:
                report("C17:fold-announced-range:%s:%x-%x" % (announcer, lo, hi), "F-announced-equals-emitted", "%s:%s" % (fa.file, fa.line),
                       "%s announces %d characters for the whole range U+%04X..U+%04X" % (announcer, v, lo, hi))
                continue
            announced.setdefault(v, set()).update(range(lo, hi + 1))
    # emitter side: constant tables it reads, per row width
    out = dict(intervals=len(parts), announced={k: len(v) for k, v in announced.items()}, tables={})
    dest = fe.pnames.get("dest")
    der = derive(fe, {dest["id"]: "d"}) if dest else {}
    tables = {}
    A = capcheck.Analysis(fe)

    def table_of(i):
        r = A.ptr(i["ops"][0])[0]
        return r[1:] if r and r.startswith("@") else None
    for i in fe.insts():
        if i["op"] == "load":
            n = table_of(i)
            g = fe.mod["gmap"].get(n) if n else None
            if g and g.get("table") and len(g["table"][0]) >= 3:
                tables[n] = g
    if not tables:
        ck.fail_broken("fold agreement: %s reads no constant multi-column table" % emitter); return out
    emitted = {}
    for n, g in sorted(tables.items()):
        rows = [r for r in g["table"] if r[0] != 0]
        k = len(g["table"][0]) - 1
        keys = [r[0] for r in rows]
        if any(a >= b for a, b in zip(keys, keys[1:])):
            report("C17:fold-table-unsorted:%s" % n, "F-announced-equals-emitted", "%s:%s" % (fe.file, g.get("line")),
                   "table %s is not strictly ascending in its key column: the search in %s stops at the first larger key and misses later rows" % (n, emitter))
        if g["table"][-1][0] != 0:
            report("C17:fold-table-unterminated:%s" % n, "F-announced-equals-emitted", "%s:%s" % (fe.file, g.get("line")), "table %s lacks its zero sentinel row" % n)
        emitted.setdefault(k, set()).update(keys)
        # the hit block: loads of the k folded characters of this table, k+1 stores into dest, return k
        hit = None
        for b in fe.j["blocks"]:
            lds = [i for i in b["insts"] if i["op"] == "load" and table_of(i) == n]
            sts = [i for i in b["insts"] if i["op"] == "store" and labels_of(i["ops"][1], der, None)]
            if len(lds) >= k and sts:
                hit = (b, lds, sts)
        if hit is None:
            ck.fail_broken("fold agreement: no block of %s copies a row of %s into dest" % (emitter, n)); continue
        b, lds, sts = hit
        rets = [o["v"] for (o, bb) in return_sites(fe) if bb == b["id"] and o is not None and o.get("k") == "c"]
        out["tables"][n] = dict(rows=len(rows), characters=k, stores_in_hit_block=len(sts), returns=rets)
        if len(sts) != k + 1 or rets != [k]:
            report("C17:fold-emits-other-count:%s" % n, "F-announced-equals-emitted", fe.loc(sts[0]),
                   "%s: a hit in %s (rows of %d folded characters) stores %d elements and returns %s" % (emitter, n, k, len(sts), rets))
    for k in sorted(set(announced) | set(emitted)):
        a, e = announced.get(k, set()), emitted.get(k, set())
        if a != e:
            only_a, only_e = sorted(a - e)[:4], sorted(e - a)[:4]
            report("C17:fold-count-disagrees:%d:%s" % (k, ",".join("%X" % x for x in (only_a + only_e)[:4])), "F-announced-equals-emitted", "%s:%s" % (fa.file, fa.line),
                   "%s announces %d characters for %s but %s's %d-character table holds %s: a destination sized from the announcement does not fit / is wasted"
                   % (announcer, k, ["U+%04X" % x for x in only_a] or "nothing extra", emitter, k, ["U+%04X" % x for x in only_e] or "nothing extra"))
    return out


def _strip_ext(fn, o):
    while o.get("k") == "v" and fn.defs.get(o["id"], {}).get("op") in ("zext",):
        o = fn.defs[o["id"]]["ops"][0]
    return o


def _index_shape(fn, o, param):
    """(shift, mask|None) when o is  (param >> shift) [& mask]  (through zext), else None"""
    o = _strip_ext(fn, o)
    if o.get("k") != "v":
        return None
    if o["id"] == param:
        return (0, None)
    d = fn.defs.get(o["id"])
    if d is None:
        return None
    if d["op"] == "lshr" and d["ops"][1].get("k") == "c":
        a = _strip_ext(fn, d["ops"][0])
        return (d["ops"][1]["v"], None) if a.get("k") == "v" and a["id"] == param else None
    if d["op"] == "and" and d["ops"][1].get("k") == "c":
        sh = _index_shape(fn, d["ops"][0], param)
        return (sh[0], d["ops"][1]["v"]) if sh and sh[1] is None else None
    return None


def _global_of(o):
    if o.get("k") == "g":
        return o["name"]
    if o.get("k") == "ce" and o.get("ops"):
        return _global_of(o["ops"][0])
    return None


def radix_chain(fn):
    """the multi-level pointer-table walk of fn: (root global, param id, [(shift, mask)], cell load instruction) or None"""
    gmap = fn.mod["gmap"]
    for p in fn.j["params"]:
        if not p["ty"].startswith("i"):
            continue
        for g0 in fn.insts():
            if g0["op"] != "getelementptr" or len(g0.get("terms", ())) != 1:
                continue
            root = _global_of(g0["base"])
            if root is None or not gmap.get(root, {}).get("ptrs"):
                continue
            sh = _index_shape(fn, g0["terms"][0]["v"], p["id"])
            if sh is None:
                continue
            shapes, gep, cell = [sh], g0, None
            while True:
                ld = next((i for i in fn.insts() if i["op"] == "load" and i["ops"][0].get("id") == gep["id"]), None)
                if ld is None:
                    break
                cell = ld
                if not ld["ty"].endswith("*"):
                    break
                nxt = None
                for g in fn.insts():
                    if g["op"] == "getelementptr" and g["base"].get("id") == ld["id"] and len(g.get("terms", ())) == 1:
                        sh = _index_shape(fn, g["terms"][0]["v"], p["id"])
                        if sh is not None:
                            nxt = (g, sh)
                if nxt is None:
                    break
                gep = nxt[0]
                shapes.append(nxt[1])
            if cell is not None and len(shapes) >= 2:
                return root, p["id"], shapes, cell
    return None


def layout_agreement(ck, fn, report, min_cells=1):
    """clause: the reader of a multi-level code-point table and the table agree on the layout of every list.
    The composition lists exist in two layouts (16-bit and 32-bit pairs); which one the reader walks is selected by comparing the code
    point with a constant.  Decided, for every code point that has a list: the element size with which the reader walks the list (taken
    from the loop that is reachable for that code point -- interval-set reachability over the comparisons with constants) equals the
    element size of the list object stored in the table; every list is reachable; every list is strictly ascending in its key and ends
    in the zero sentinel (the reader stops at the first larger key); the searched value is not truncated before the key comparison
    unless the comparison is reachable only for values that fit."""
    out = {}
    ch = radix_chain(fn)
    if ch is None:
        ck.fail_broken("layout agreement: no multi-level pointer-table walk found in %s" % fn.name); return out
    root, param, shapes, cell = ch
    gmap = fn.mod["gmap"]
    if not cell["ty"].endswith("*"):
        ck.fail_broken("layout agreement: the table walk of %s ends in a value, not in a list pointer" % fn.name); return out
    # the index expressions must tile the code point: level k uses bits [shift_k, shift_{k-1})
    for k, (sh, mask) in enumerate(shapes):
        want = None if k == 0 else (1 << (shapes[k - 1][0] - sh)) - 1
        if mask != want or (k == len(shapes) - 1 and sh != 0):
            ck.fail_broken("layout agreement: index expressions of %s do not tile the code point (%s)" % (fn.name, shapes)); return out
    # pointers derived from the cell
    der = {cell["id"]}
    changed = True
    while changed:
        changed = False
        for i in fn.insts():
            if "id" not in i or i["id"] in der or not i.get("ty", "").endswith("*"):
                continue
            src = []
            if i["op"] == "getelementptr":
                src = [i["base"]]          # a moving pointer (constant step) or a fixed base with an index
            elif i["op"] == "bitcast":
                src = [i["ops"][0]]
            elif i["op"] == "phi":
                src = [x["v"] for x in i["incoming"]]
            if src and any(o.get("id") in der for o in src):
                der.add(i["id"]); changed = True
    readers = []          # (block, element size walked, load)
    for i in fn.insts():
        if i["op"] == "load" and i["ops"][0].get("id") in der and i["ty"].startswith("i"):
            g = fn.defs.get(i["ops"][0]["id"])
            if g is None or g["op"] != "getelementptr":
                ck.fail_broken("layout agreement: list element of %s read without a field address (%s)" % (fn.name, fn.loc(i))); return out
            readers.append((i["_bb"], g["src_elem_size"], i))
    if not readers:
        ck.fail_broken("layout agreement: %s never reads a list element" % fn.name); return out
    R = intervals.reach(fn, param)
    # the table
    cells = []

    def walk(name, level, prefix):
        g = gmap.get(name)
        if g is None or not g.get("ptrs"):
            ck.fail_broken("layout agreement: %s is not an exported pointer table" % name); return
        for idx, tgt in enumerate(g["ptrs"]):
            if tgt is None:
                continue
            cp = prefix | (idx << shapes[level][0])
            if level + 1 < len(shapes):
                walk(tgt, level + 1, cp)
            else:
                cells.append((cp, tgt))
    walk(root, 0, 0)
    by_layout = {}
    n_bad = 0
    for (cp, name) in cells:
        g = gmap.get(name, {})
        es = g.get("elem_size")
        by_layout[es] = by_layout.get(es, 0) + 1
        walked = sorted({e for (bb, e, i) in readers if intervals.contains(R[bb], cp)})
        if not walked:
            n_bad += 1
            if n_bad <= 6:
                report("C17:list-unreachable:%s:%X" % (fn.name, cp), "L-reader-layout-equals-table-layout", "%s:%s" % (fn.file, fn.line),
                       "%s: the list %s of U+%04X is stored in %s but no list-walking code is reachable for that code point" % (fn.name, name, cp, root))
        elif walked != [es]:
            n_bad += 1
            if n_bad <= 6:
                i = next(i for (bb, e, i) in readers if e != es and intervals.contains(R[bb], cp))
                report("C17:list-layout-disagrees:%s:%X" % (fn.name, cp), "L-reader-layout-equals-table-layout", fn.loc(i),
                       "%s walks the list of U+%04X in steps of %s bytes, but %s is an array of %s-byte elements: the pairs are misread" % (fn.name, cp, "/".join(map(str, walked)), name, es))
        rows = g.get("table")
        if not rows:
            ck.fail_broken("layout agreement: list %s has no exported rows" % name); continue
        keys = [r[0] for r in rows[:-1]]
        if rows[-1][0] != 0 or any(k == 0 for k in keys):
            report("C17:list-unterminated:%s" % name, "L-reader-layout-equals-table-layout", "%s:%s" % (g.get("file"), g.get("line")), "list %s does not end in its only zero sentinel" % name)
        if any(a >= b for a, b in zip(keys, keys[1:])):
            report("C17:list-unsorted:%s" % name, "L-reader-layout-equals-table-layout", "%s:%s" % (g.get("file"), g.get("line")),
                   "list %s is not strictly ascending in its key: %s stops at the first larger key" % (name, fn.name))
    if len(cells) < min_cells:
        ck.fail_broken("layout agreement: only %d lists found in %s (< %d)" % (len(cells), root, min_cells))
    # lossless key comparison
    keyloads = {i["id"]: (bb, i) for (bb, e, i) in readers}
    n_cmp = 0
    for i in fn.insts():
        if i["op"] != "icmp" or i["pred"] != "eq":
            continue
        sides = [_strip_ext(fn, o) for o in i["ops"]]
        if not any(o.get("id") in keyloads for o in sides):
            continue
        n_cmp += 1
        for o in sides:
            d = fn.defs.get(o.get("id")) if o.get("k") == "v" else None
            if d is not None and d["op"] == "trunc":
                srcv = _strip_ext(fn, d["ops"][0])
                if srcv.get("k") == "v" and srcv["id"] in fn.params:
                    w = d["bits"]
                    Rp = intervals.reach(fn, srcv["id"])[i["_bb"]]
                    if any(h > (1 << w) - 1 for (l, h) in Rp):
                        report("C17:key-truncated:%s:%s" % (fn.name, fn.params[srcv["id"]]["name"]), "K-key-comparison-lossless", fn.loc(i),
                               "%s compares a %d-bit list key with %s truncated to %d bits, reachable for values above 0x%X: U+%X matches the key 0x%X"
                               % (fn.name, w, fn.params[srcv["id"]]["name"], w, (1 << w) - 1, (1 << w) + 0x300, 0x300))
    out["_lists"] = {cp: [tuple(r) for r in gmap.get(name, {}).get("table", [])[:-1]] for (cp, name) in cells}
    out.update(function=fn.name, root=root, levels=shapes, lists=len(cells), lists_by_element_size={str(k): v for k, v in by_layout.items()},
               reader_blocks=sorted({(bb, e) for (bb, e, i) in readers}), key_comparisons=n_cmp,
               reach={bb: R[bb][:4] for (bb, e, i) in readers})
    return out


class _NoValue(Exception):
    pass


def _ceval(fn, o, env, gmap):
    """value-set propagation, one value at a time: the value of an integer operand (unsigned, modulo its width) or (global, byte offset)
    of a pointer operand when the SSA values in env are the given constants; table contents are constants of the program"""
    if o.get("k") == "c":
        return o["v"] & ((1 << o.get("bits", 64)) - 1)
    if o.get("k") in ("g", "ce"):
        n = _global_of(o)
        if n is None:
            raise _NoValue("constant expression")
        return (n, 0)
    if o.get("k") != "v":
        raise _NoValue("operand %s" % o)
    v = o["id"]
    if v in env:
        return env[v]
    d = fn.defs.get(v)
    if d is None:
        raise _NoValue("%s is not a constant of the table walk" % v)
    op = d["op"]
    bits = d.get("bits", 64)
    M = (1 << bits) - 1

    def sgn(x, b):
        return x - (1 << b) if x >> (b - 1) else x
    if op in ("add", "sub", "mul", "and", "or", "xor", "shl", "lshr", "ashr"):
        a, b = _ceval(fn, d["ops"][0], env, gmap), _ceval(fn, d["ops"][1], env, gmap)
        r = {"add": lambda: a + b, "sub": lambda: a - b, "mul": lambda: a * b, "and": lambda: a & b, "or": lambda: a | b, "xor": lambda: a ^ b,
             "shl": lambda: a << b if b < bits else 0, "lshr": lambda: a >> b if b < bits else 0, "ashr": lambda: sgn(a, bits) >> b if b < bits else 0}[op]()
        r = r & M
    elif op == "zext":
        r = _ceval(fn, d["ops"][0], env, gmap)
    elif op == "sext":
        sb = fn.defs.get(d["ops"][0].get("id"), {}).get("bits") or int(d["ops"][0].get("ty", "i32")[1:])
        r = sgn(_ceval(fn, d["ops"][0], env, gmap), sb) & M
    elif op == "trunc":
        r = _ceval(fn, d["ops"][0], env, gmap) & M
    elif op == "bitcast":
        r = _ceval(fn, d["ops"][0], env, gmap)
    elif op == "getelementptr":
        g, off = _ceval(fn, d["base"], env, gmap)
        off += d.get("coff", 0)
        for t in d.get("terms", ()):
            x = _ceval(fn, t["v"], env, gmap)
            tb = int(t["v"].get("ty", "i64")[1:]) if t["v"].get("k") == "v" else 64
            off += t["stride"] * sgn(x, tb)
        r = (g, off)
    elif op == "load" and d["ty"].endswith("*"):
        g, off = _ceval(fn, d["ops"][0], env, gmap)
        gl = gmap.get(g, {})
        if not gl.get("ptrs") or off % 8 or not 0 <= off // 8 < len(gl["ptrs"]) + (gl.get("nelem", 0) - len(gl["ptrs"]) if gl.get("nelem") else 0):
            raise _NoValue("pointer load at %s+%d outside the table" % (g, off))
        k = off // 8
        tgt = gl["ptrs"][k] if k < len(gl["ptrs"]) else None
        if tgt is None:
            raise _NoValue("null entry %s[%d]" % (g, k))
        r = (tgt, 0)
    else:
        raise _NoValue("%s (%s)" % (v, op))
    env[v] = r
    return r


def decomp_agreement(ck, fn, report, min_entries=1):
    """clause: every value stored in the indirect decomposition tables decodes, with the reader's own arithmetic, to one whole row of an
    existing value table.  The plane/row tables store packed (length, index) values; the reader unpacks them with shifts and masks and
    copies `length` elements from value_table[length-1] + index*length.  For every distinct stored value the reader's address and size
    arithmetic is constant-folded (nothing is executed: the table contents are constants of the program): the copied range must be exactly
    one row of the value table it lands in, and the length returned must be the row's width."""
    out = {}
    ch = radix_chain(fn)
    if ch is None:
        ck.fail_broken("decomposition agreement: no multi-level table walk found in %s" % fn.name); return out
    root, param, shapes, vi = ch
    gmap = fn.mod["gmap"]
    if vi["ty"].endswith("*"):
        ck.fail_broken("decomposition agreement: the table walk of %s ends in a pointer" % fn.name); return out
    for k, (sh, mask) in enumerate(shapes):
        want = None if k == 0 else (1 << (shapes[k - 1][0] - sh)) - 1
        if mask != want or (k == len(shapes) - 1 and sh != 0):
            ck.fail_broken("decomposition agreement: index expressions of %s do not tile the code point (%s)" % (fn.name, shapes)); return out
    values = {}          # stored value -> first code point
    by_cp = {}           # code point -> stored value

    def walk(name, level, prefix):
        g = gmap.get(name)
        if g is None:
            ck.fail_broken("decomposition agreement: %s not found" % name); return
        if level + 1 < len(shapes):
            if not g.get("ptrs"):
                ck.fail_broken("decomposition agreement: %s is not an exported pointer table" % name); return
            for idx, tgt in enumerate(g["ptrs"]):
                if tgt is not None:
                    walk(tgt, level + 1, prefix | (idx << shapes[level][0]))
        else:
            if not g.get("table"):
                ck.fail_broken("decomposition agreement: %s has no exported rows" % name); return
            for idx, row in enumerate(g["table"]):
                if row[0]:
                    values.setdefault(row[0], prefix | idx)
                    by_cp[prefix | idx] = row[0]
    walk(root, 0, 0)
    R = intervals.reach(fn, vi["id"], 0, (1 << vi["bits"]) - 1)
    copies = [i for i in fn.insts() if i["op"] == "call" and (i.get("callee") or "").startswith(("llvm.memcpy", "memcpy"))]
    rets = {bb: o for (o, bb) in return_sites(fn)}
    n_ok = n_bad = 0
    rows_hit = {}
    decoded = {}
    for v, cp in sorted(values.items()):
        sites = [c for c in copies if intervals.contains(R[c["_bb"]], v)]
        if not sites:
            # another consumer (the exception list search) must be reachable for this value
            others = [b["id"] for b in fn.j["blocks"] if intervals.contains(R[b["id"]], v) and any(i["op"] == "call" and i.get("callee") == "bsearch" for i in b["insts"])]
            if others:
                continue
            n_bad += 1
            if n_bad <= 6:
                report("C17:decomp-value-unread:%s:%X" % (fn.name, cp), "D-stored-value-decodes-to-one-row", "%s:%s" % (fn.file, fn.line),
                       "%s: the value 0x%x stored for U+%04X reaches no code that copies a decomposition" % (fn.name, v, cp))
            continue
        for c in sites:
            env = {vi["id"]: v}
            try:
                g, off = _ceval(fn, c["args"][1], env, gmap)
                n = _ceval(fn, c["args"][2], env, gmap)
            except _NoValue as e:
                n_bad += 1
                if n_bad <= 6:
                    report("C17:decomp-value-undecodable:%s:%X" % (fn.name, cp), "D-stored-value-decodes-to-one-row", fn.loc(c),
                           "%s: the value 0x%x stored for U+%04X does not decode to an address inside a value table (%s)" % (fn.name, v, cp, e))
                continue
            gl = gmap.get(g, {})
            es, size = gl.get("elem_size"), gl.get("size")
            ok = es and size and 0 <= off and off + n <= size and off % es == 0 and n == es
            ro = rets.get(c["_bb"])
            if ok and ro is not None:
                try:
                    rv = _ceval(fn, ro, env, gmap)
                    width = fn.defs.get(c["args"][1]["id"], {}).get("ops", [{}])[0]
                    esz = 4
                    src = fn.defs.get(c["args"][1]["id"])
                    if src is not None and src["op"] == "bitcast":
                        gg = fn.defs.get(src["ops"][0].get("id"))
                        if gg is not None and gg["op"] == "getelementptr" and gg.get("terms"):
                            esz = gg["terms"][0]["stride"]
                    if rv * esz != n:
                        ok = False
                except _NoValue:
                    pass
            if ok:
                n_ok += 1
                rows_hit.setdefault(g, set()).add(off // es)
                decoded[v] = tuple(gl["table"][off // es]) if gl.get("table") else None
            else:
                n_bad += 1
                if n_bad <= 6:
                    report("C17:decomp-row-misaddressed:%s:%X" % (fn.name, cp), "D-stored-value-decodes-to-one-row", fn.loc(c),
                           "%s: for U+%04X (stored value 0x%x) the reader copies %d bytes from %s+%d, which is not one row of that table (%s rows of %s bytes)"
                           % (fn.name, cp, v, n, g, off, gl.get("nelem"), es))
    # every row of a value table exists because a code point refers to it (the tables hold the *unique* decompositions): a row no stored
    # value decodes to is a decomposition that cannot be reached -- e.g. because its packed encoding collides with the reserved value 0
    for g in sorted(rows_hit):
        gl = gmap[g]
        missing = [k for k in range(gl.get("nelem", 0)) if k not in rows_hit[g]]
        for k in missing[:6]:
            row = gl["table"][k] if gl.get("table") and k < len(gl["table"]) else None
            report("C17:decomp-row-unreferenced:%s:%d" % (g, k), "D-every-row-referenced", "%s:%s" % (gl.get("file"), gl.get("line")),
                   "%s: no value stored in %s decodes to row %d of %s (%s): the code point that should decompose to it is treated as having no decomposition%s"
                   % (fn.name, root, k, g, " ".join("U+%04X" % x for x in row) if row else "?",
                      " (its packed encoding (length-1)<<shift | index is 0, the reserved 'no decomposition' value)" if k == 0 and gl.get("elem_size") == min(gmap[x].get("elem_size", 99) for x in rows_hit) else ""))
    if len(values) < min_entries:
        ck.fail_broken("decomposition agreement: only %d distinct stored values found under %s (< %d)" % (len(values), root, min_entries))
    out["_decomp"] = {cp: decoded[v] for cp, v in by_cp.items() if decoded.get(v)}
    out.update(function=fn.name, root=root, levels=shapes, distinct_values=len(values), code_points=len(by_cp), decoded_to_one_row=n_ok, copy_sites=len(copies),
               rows_used={g: len(r) for g, r in sorted(rows_hit.items())}, value_tables={g: gmap[g].get("nelem") for g in sorted(rows_hit)})
    return out


def inverse_agreement(lists, decomp, report, where):
    """clause: the composition lists are the inverse of the canonical decomposition table.  For every pair (starter, next) -> composite in the
    lists, the full canonical decomposition stored for `composite` equals the full decomposition of `starter` followed by that of `next`
    (a code point without an entry decomposes to itself).  Necessary for NFC(NFD(x)) == NFC(x) and for normalising twice == once."""
    full = lambda c: decomp.get(c) or (c,)
    n = bad = 0
    for cp, rows in sorted(lists.items()):
        for (nxt, comp) in rows:
            n += 1
            want = tuple(full(cp)) + tuple(full(nxt))
            got = decomp.get(comp)
            if got != want:
                bad += 1
                if bad <= 6:
                    report("C17:compose-not-inverse:%X+%X" % (cp, nxt), "I-composition-inverse-of-decomposition", where,
                           "the composition list of U+%04X maps U+%04X to U+%04X, but the canonical decomposition stored for U+%04X is %s, not %s: composing a decomposed string does not give back the same normal form"
                           % (cp, nxt, comp, comp, " ".join("U+%04X" % x for x in got) if got else "absent", " ".join("U+%04X" % x for x in want)))
    return dict(pairs=n, disagreeing=bad)


REJECTING_ENTRY_POINTS = ("_wcsnorm_decompose_s_chk", "_wcsnorm_reorder_s_chk", "_wcsnorm_compose_s_chk", "_wcsfc_s_chk")


def rejection_rule(ck, prog, direct, report, tu_prefix="src/extwchar/", entry_points=REJECTING_ENTRY_POINTS):
    """clause "code points above U+10FFFF are rejected": every call from an entry point to a code-point consumer passes a value that was
    range-checked in the caller.  Consumers are the helpers that index a plane table with (parameter >> 16) -- found by the table-index
    clause -- and the helpers that hand their own parameter on to one; whether the helper also protects itself does not matter here: a
    value above U+10FFFF that reaches it was not *rejected* by the function that took it from the string.  Decided by interval-set
    reachability of the argument's SSA value at the call (guards `value > 0x10FFFF -> error exit` restrict the set)."""
    cons = {k: set(v) for k, v in direct.items()}

    def strip(fn, a):
        while a.get("k") == "v" and fn.defs.get(a["id"], {}).get("op") in ("zext", "trunc", "sext"):
            a = fn.defs[a["id"]]["ops"][0]
        return a
    funcs = [f for f in prog.allfuncs if f.mod["tu"].startswith(tu_prefix)]
    changed = True
    while changed:
        changed = False
        for fn in funcs:
            for c in fn.calls():
                cal = c.get("callee")
                if cal in cons and prog.resolve(fn, cal) is not None:
                    for k in list(cons[cal]):
                        a = strip(fn, c["args"][k])
                        if a.get("k") == "v" and a["id"] in fn.params:
                            pi = fn.param_index(fn.params[a["id"]]["name"])
                            if pi not in cons.setdefault(fn.name, set()):
                                cons[fn.name].add(pi); changed = True
    def from_operand(fn, v, seen=None):
        """is the integer SSA value v an element taken from a caller-supplied string: a load through, or a decode call on, a pointer derived from a pointer parameter"""
        d = fn.defs.get(v)
        if d is None:
            return False
        if d["op"] == "load":
            ptr = d["ops"][0]
        elif d["op"] == "call" and d.get("args") and d["args"][0].get("ty", "").endswith("*"):
            ptr = d["args"][0]
        else:
            return False
        todo, seen = [ptr], set()
        while todo:
            o = todo.pop()
            if o.get("k") != "v" or o["id"] in seen:
                continue
            seen.add(o["id"])
            if o["id"] in fn.params:
                return True
            dd = fn.defs.get(o["id"])
            if dd is None:
                continue
            if dd["op"] == "getelementptr":
                todo.append(dd["base"])
            elif dd["op"] in ("bitcast",):
                todo.append(dd["ops"][0])
            elif dd["op"] == "phi":
                todo += [x["v"] for x in dd["incoming"]]
        return False
    def producer_ptr(fn, v):
        d = fn.defs.get(v)
        if d is None:
            return None
        o = d["ops"][0] if d["op"] == "load" else (d["args"][0] if d["op"] == "call" and d.get("args") else None)
        while o is not None and o.get("k") == "v" and fn.defs.get(o["id"], {}).get("op") == "bitcast":
            o = fn.defs[o["id"]]["ops"][0]
        return (d["op"], d.get("callee"), o.get("id")) if o is not None and o.get("k") == "v" else None

    def same_element(fn, v):
        key = producer_ptr(fn, v)
        out = [v]
        if key is not None:
            for i in fn.insts():
                if "id" in i and i["id"] != v and i["op"] in ("load", "call") and producer_ptr(fn, i["id"]) == key:
                    out.append(i["id"])
        return out
    sites = []
    not_judged = []
    for fn in funcs:
        for c in fn.calls():
            cal = c.get("callee")
            if cal is None or prog.resolve(fn, cal) is None:
                continue
            if cal in cons:
                ks = sorted(cons[cal])
            elif fn.name in entry_points and any(i["op"] in ("load", "store", "call", "invoke") for i in prog.resolve(fn, cal).insts()):
                # (a callee that only compares its argument with constants cannot misuse an out-of-range value: look-ahead classifiers)
                # any other library routine that is handed an element of the operand as an integer (classifiers, single-character folding)
                ks = [k for k, a in enumerate(c.get("args", ())) if a.get("ty", "").startswith("i") and strip(fn, a).get("k") == "v" and from_operand(fn, strip(fn, a)["id"])]
            else:
                continue
            for k in ks:
                a = strip(fn, c["args"][k])
                if a.get("k") == "c":
                    ok = a["v"] <= UNICODE_MAX
                elif a.get("k") == "v" and a["id"] in fn.params and fn.name in cons and fn.param_index(fn.params[a["id"]]["name"]) in cons[fn.name]:
                    continue          # a consumer handing its own parameter on: its callers are the sites
                elif a.get("k") == "v" and not from_operand(fn, a["id"]):
                    not_judged.append(dict(caller=fn.name, callee=cal, where=fn.loc(c), value=a["id"], reason="not an element taken directly from an operand (carried across iterations or decoded from a local buffer)"))
                    continue
                elif a.get("k") == "v":
                    # the same element may be decoded more than once: a check on any decode of the same pointer value that dominates the call counts
                    ok = False
                    for v2 in same_element(fn, a["id"]):
                        d2 = fn.defs[v2]
                        if v2 != a["id"] and not fn.dominates(d2["_bb"], c["_bb"]):
                            continue
                        R = intervals.reach(fn, v2, 0, (1 << 32) - 1)[c["_bb"]]
                        if R and all(h <= UNICODE_MAX for (l, h) in R):
                            ok = True; break
                else:
                    ok = False
                sites.append(dict(caller=fn.name, callee=cal, where=fn.loc(c), range_checked=ok))
                if not ok:
                    report("C17:not-rejected:%s->%s:%s" % (api.base_name(fn.name), cal, a.get("id", "?").lstrip("%")), "R-out-of-range-rejected-by-the-entry-point", fn.loc(c),
                           "%s hands the code point %s to %s without having rejected values above U+10FFFF on this path: an out-of-range value taken from the string is processed (passed through or looked up) instead of being reported"
                           % (api.base_name(fn.name), a.get("id"), cal))
    return dict(consumers={k: sorted(v) for k, v in sorted(cons.items())}, call_sites=sites, not_judged=not_judged)


# ---- Hangul composition: decision table of the arithmetic part of the pair composition vs UAX #15 section 3.12 ---------------------------------
H_SBASE, H_LBASE, H_VBASE, H_TBASE, H_LCOUNT, H_VCOUNT, H_TCOUNT = 0xAC00, 0x1100, 0x1161, 0x11A7, 19, 21, 28
H_SCOUNT = H_LCOUNT * H_VCOUNT * H_TCOUNT


def hangul_rule(ck, fns, report, cp_name="cp", cp2_name="cp2"):
    """clause: the algorithmic Hangul composition is the one of UAX #15.  The composition routine touches its two code points only through
    comparisons with constants, one `(cp - SBase) % TCount == 0` test and linear arithmetic, so its arithmetic part is a finite decision table
    over (interval of cp) x (residue class of cp - SBase) x (interval of cp2).  Every path that returns an arithmetic expression must be one
    of the two rows of the standard -- L x V -> SBase + ((L-LBase)*VCount + (V-VBase))*TCount and LV x T -> LV + (T-TBase), with exactly
    those domains -- and both rows must be covered completely.  (Everything else goes to the table lookup or returns a constant.)"""
    from ..lin import Lin
    found = None
    for fn in fns:
        if cp_name in fn.pnames and cp2_name in fn.pnames and any(
                i["op"] == "icmp" and {o.get("v") for o in i["ops"] if o.get("k") == "c"} & {H_SBASE, H_SBASE - 1}
                and any(o.get("id") == fn.pnames[cp_name]["id"] for o in i["ops"]) for i in fn.insts()):
            found = fn
            break
    if found is None:
        ck.fail_broken("Hangul rule: no routine with (cp, cp2) parameters that compares cp with SBase (U+AC00) found"); return {}
    TOP = (1 << 32) - 1
    paths = []          # (cp interval, residue: None/True(zero)/False(non-zero), cp2 interval, result Lin or ("const", v) or "other", function)
    byname = {f.name: f for f in fns}
    explored = set()

    def explore(fn, CP, CP2, entry):
        """the decision table of `fn` entered with (cp interval, residue, cp2 interval) = entry; a call that hands both code points on to
        another routine of the unit is followed with the box the path has reached"""
        if (fn.name, entry) in explored or len(explored) > 64:
            return
        explored.add((fn.name, entry))
        def lin(o, depth=0):
            if o.get("k") == "c":
                return Lin.const(o["v"])
            if o.get("k") != "v" or depth > 12:
                return None
            if o["id"] == CP:
                return Lin.atom("cp")
            if o["id"] == CP2:
                return Lin.atom("cp2")
            d = fn.defs.get(o["id"])
            if d is None:
                return None
            if d["op"] in ("add", "sub"):
                a, b = lin(d["ops"][0], depth + 1), lin(d["ops"][1], depth + 1)
                return None if a is None or b is None else (a + b if d["op"] == "add" else a - b)
            if d["op"] == "mul":
                a, b = lin(d["ops"][0], depth + 1), lin(d["ops"][1], depth + 1)
                if a is not None and b is not None and (a.is_const() or b.is_const()):
                    return b.scale(a.c) if a.is_const() else a.scale(b.c)
            if d["op"] in ("zext", "sext", "trunc"):
                return lin(d["ops"][0], depth + 1)
            return None

        def cond_of(c, bb, pred_bb, depth=0):
            """('const', truth) | ('iv', which, pred, const, negated) | ('res', zero-when-true) | None -- resolved along the path (i1 phis of
            short-circuit && / || take the incoming value of the edge the path arrived over)"""
            if c.get("k") == "c":
                return ("const", bool(c["v"]))
            d = fn.defs.get(c.get("id")) if c.get("k") == "v" else None
            if d is None or depth > 6:
                return None
            if d["op"] == "xor" and d["ops"][1].get("k") == "c" and d["ops"][1]["v"] in (1, -1):
                r = cond_of(d["ops"][0], bb, pred_bb, depth + 1)
                if r is None:
                    return None
                if r[0] == "const":
                    return ("const", not r[1])
                if r[0] == "iv":
                    return r[:4] + (not r[4],)
                return ("res", not r[1])
            if d["op"] == "phi" and d["_bb"] == bb and pred_bb is not None:
                inc = next((x["v"] for x in d["incoming"] if x["bb"] == pred_bb), None)
                return None if inc is None else cond_of(inc, pred_bb, None, depth + 1)
            if d["op"] != "icmp":
                return None
            a, b, pred = d["ops"][0], d["ops"][1], d["pred"]
            if a.get("k") == "c":
                a, b, pred = b, a, intervals._SWAP.get(pred, pred)
            if a.get("k") == "v" and b.get("k") == "c":
                if a["id"] in (CP, CP2) and not pred.startswith("s"):
                    return ("iv", "cp" if a["id"] == CP else "cp2", pred, b["v"], False)
                da = fn.defs.get(a["id"])
                if da is not None and da["op"] == "urem" and da["ops"][1].get("v") == H_TCOUNT and b["v"] == 0 and pred in ("eq", "ne"):
                    l_ = lin(da["ops"][0])
                    if l_ is not None and l_ == Lin.atom("cp") - Lin.const(H_SBASE):
                        return ("res", pred == "eq")
            return None

        def walk(bb, pred_bb, icp, res, icp2, depth=0):
            if depth > 80:
                paths.append((icp, res, icp2, "other", fn)); return
            t = fn.term(bb)
            for i in fn.blocks[bb]["insts"]:
                if i["op"] == "call" and i.get("callee") in byname and byname[i["callee"]] is not fn:
                    cal = byname[i["callee"]]
                    pos = {a.get("id"): k for k, a in enumerate(i.get("args", ())) if a.get("k") == "v"}
                    if CP in pos and CP2 in pos and len(cal.params) > max(pos[CP], pos[CP2]):
                        ids = list(cal.params)
                        explore(cal, ids[pos[CP]], ids[pos[CP2]], (icp, res, icp2))
            if any(i["op"] in ("load", "call") and not (i["op"] == "call" and str(i.get("callee", "")).startswith("invoke_safe_")) for i in fn.blocks[bb]["insts"]):
                paths.append((icp, res, icp2, "other", fn)); return          # the table walk begins: not the arithmetic part
            if t["op"] == "ret":
                r = t["ops"][0] if t.get("ops") else None
                v = r
                dph = fn.defs.get(r.get("id")) if r is not None and r.get("k") == "v" else None
                if dph is not None and dph["op"] == "phi" and dph["_bb"] == bb:
                    v = next((x["v"] for x in dph["incoming"] if x["bb"] == pred_bb), None)
                l_ = lin(v) if v is not None else None
                if l_ is None:
                    paths.append((icp, res, icp2, "other", fn))
                elif l_.is_const():
                    paths.append((icp, res, icp2, ("const", int(l_.c)), fn))
                else:
                    paths.append((icp, res, icp2, l_, fn))
                return
            if t["op"] != "br":
                paths.append((icp, res, icp2, "other", fn)); return
            if "cond" not in t:
                return walk(t["t"], bb, icp, res, icp2, depth + 1)
            c = cond_of(t["cond"], bb, pred_bb)
            if c is None:
                paths.append((icp, res, icp2, "other", fn)); return
            if c[0] == "const":
                return walk(t["t"] if c[1] else t["f"], bb, icp, res, icp2, depth + 1)
            if c[0] == "iv":
                cur = icp if c[1] == "cp" else icp2
                for truth, succ in ((True, t["t"]), (False, t["f"])):
                    for (l, h) in intervals._restrict([cur], c[2], c[3], truth != c[4]):
                        if c[1] == "cp":
                            walk(succ, bb, (l, h), res, icp2, depth + 1)
                        else:
                            walk(succ, bb, icp, res, (l, h), depth + 1)
            else:
                for truth, succ in ((True, t["t"]), (False, t["f"])):
                    want = c[1] if truth else (not c[1])
                    if res is None or res == want:
                        walk(succ, bb, icp, want, icp2, depth + 1)
        walk(fn.entry, None, entry[0], entry[1], entry[2])

    explore(found, found.pnames[cp_name]["id"], found.pnames[cp2_name]["id"], ((0, TOP), None, (0, TOP)))
    fn = found
    cp_, cp2_ = Lin.atom("cp"), Lin.atom("cp2")
    rows = [("LxV", (H_LBASE, H_LBASE + H_LCOUNT - 1), None, (H_VBASE, H_VBASE + H_VCOUNT - 1),
             ((cp_ - Lin.const(H_LBASE)).scale(H_VCOUNT) + cp2_ - Lin.const(H_VBASE)).scale(H_TCOUNT) + Lin.const(H_SBASE)),
            ("LVxT", (H_SBASE, H_SBASE + H_SCOUNT - 1), True, (H_TBASE + 1, H_TBASE + H_TCOUNT - 1), cp_ + cp2_ - Lin.const(H_TBASE))]
    covered = {r[0]: [] for r in rows}
    n_arith = 0
    for (icp, res, icp2, e, fn) in paths:
        if not isinstance(e, Lin):
            continue
        n_arith += 1
        hit = None
        for (nm, dcp, dres, dcp2, expr) in rows:
            inside = dcp[0] <= icp[0] and icp[1] <= dcp[1] and dcp2[0] <= icp2[0] and icp2[1] <= dcp2[1] and (dres is None or res == dres)
            if inside and e == expr:
                hit = nm
        if hit is None:
            report("C17:hangul-composition:%X-%X:%s:%X-%X" % (icp[0], icp[1], {None: "any", True: "LV", False: "LVT"}[res], icp2[0], icp2[1]), "H-hangul-composition-is-uax15",
                   "%s:%s" % (fn.file, fn.line),
                   "%s composes cp in U+%04X..U+%04X (%s) with cp2 in U+%04X..U+%04X arithmetically to %s: UAX #15 composes only L x V and LV x T (a syllable that already has a trailing consonant takes no second one)"
                   % (fn.name, icp[0], icp[1], {None: "any residue", True: "(cp - SBase) % 28 == 0", False: "(cp - SBase) % 28 != 0"}[res], icp2[0], icp2[1], e))
        else:
            covered[hit].append((icp, icp2))
    for (nm, dcp, dres, dcp2, expr) in rows:
        xs = sorted({p for b in covered[nm] for p in (b[0][0], b[0][1] + 1)} | {dcp[0], dcp[1] + 1})
        ys = sorted({p for b in covered[nm] for p in (b[1][0], b[1][1] + 1)} | {dcp2[0], dcp2[1] + 1})
        gap = None
        for x0, x1 in zip(xs, xs[1:]):
            for y0, y1 in zip(ys, ys[1:]):
                if dcp[0] <= x0 <= dcp[1] and dcp2[0] <= y0 <= dcp2[1] and not any(b[0][0] <= x0 <= b[0][1] and b[1][0] <= y0 <= b[1][1] for b in covered[nm]):
                    gap = gap or (x0, y0)
        if gap:
            report("C17:hangul-composition-missing:%s:%X:%X" % (nm, gap[0], gap[1]), "H-hangul-composition-is-uax15", "%s:%s" % (found.file, found.line),
                   "%s does not compose U+%04X with U+%04X arithmetically although UAX #15's %s rule covers the pair" % (found.name, gap[0], gap[1], nm))
    return dict(function=found.name, followed=sorted({x[0] for x in explored}), paths=len(paths), arithmetic_results=n_arith, rows={k: len(v) for k, v in covered.items()})


def hangul_decomp_rule(ck, fns, callers, report, cp_name="cp", dest_name="dest", room_report=None):
    """clause: the algorithmic Hangul *decomposition* is the inverse of the composition of UAX #15.  The routine computes its three jamo from
    s = cp - SBase by divisions and remainders with constants; each udiv/urem is replaced by its defining tie x = k*q + r, 0 <= r < k
    (one lemma: (x % m) % k = x % k when k divides m), the stores to dest[0..3] are collected per path, and on every successful path the
    stored L, V (, T) must satisfy -- by Fourier-Motzkin entailment from the ties, the path's guards and 0 <= s < SCount --
        588*(L-LBase) + 28*(V-VBase) + (T-TBase) = s,   0 <= L-LBase, 588*(L-LBase) <= 588*19-1,   0 <= V-VBase, 28*(V-VBase) <= 28*21-1,
        1 <= T-TBase <= 27 (three jamo) or no T and the sum without it (two jamo), followed by a 0, return value = number of jamo.
    The mixed-radix representation is unique, so these entail the standard's decomposition.  The precondition SBase <= cp <= SFinal is
    checked at every call site by interval reachability.  Nothing is evaluated on concrete syllables."""
    from ..lin import Lin, entails, satisfiable
    found = None
    CP = SIDX = None
    for fn in fns:
        if dest_name not in fn.pnames or not any(i["op"] in ("udiv", "urem") and i["ops"][1].get("v") in (H_TCOUNT, H_VCOUNT * H_TCOUNT) for i in fn.insts()):
            continue
        if cp_name in fn.pnames and any(i["op"] == "sub" and i["ops"][0].get("id") == fn.pnames[cp_name]["id"] and i["ops"][1].get("v") == H_SBASE for i in fn.insts()):
            found, CP = fn, fn.pnames[cp_name]["id"]
            break
        # the syllable index may be computed by the caller and handed in: an integer parameter that is itself divided
        ip = [p["id"] for p in fn.j["params"] if p["ty"] == "i32" and any(i["op"] in ("udiv", "urem") and i["ops"][0].get("id") == p["id"] for i in fn.insts())]
        if len(ip) == 1:
            found, SIDX = fn, ip[0]
            break
    if found is None:
        ck.fail_broken("Hangul decomposition rule: no routine with a dest parameter that divides cp - SBase (or a syllable index parameter) by TCount/NCount found"); return {}
    fn = found
    DEST = fn.pnames[dest_name]["id"]
    S = Lin.atom("s")
    facts = [S, Lin.const(H_SCOUNT - 1) - S]
    ties = {}

    class Und(Exception):
        pass

    def tie(x, k):
        key = (x.key(), k)
        if key not in ties:
            n = len(ties)
            q, r = Lin.atom("q%d" % n), Lin.atom("r%d" % n)
            ties[key] = (q, r, x)
            facts.extend([x - q.scale(k) - r, q.scale(k) + r - x, r, Lin.const(k - 1) - r, q])
            for (xk, k2), (q2, r2, x2) in list(ties.items()):          # lemma: x % k = (x % m) % k when k divides m
                if xk == x.key() and k2 != k and (k2 % k == 0 or k % k2 == 0):
                    (rbig, small, rsmall) = (r2, k, r) if k2 % k == 0 else (r, k2, r2)
                    _, rr, _ = tie(rbig, small)
                    facts.extend([rsmall - rr, rr - rsmall])
        return ties[key]
    rem_of = {}          # atom name of a remainder -> (x, m)

    def val(o, depth=0):
        if o.get("k") == "c":
            return Lin.const(o["v"])
        if o.get("k") != "v" or depth > 16:
            raise Und("operand")
        if o["id"] == CP:
            return S + Lin.const(H_SBASE)
        if o["id"] == SIDX:
            return S
        if o["id"] in forked:
            return Lin.const(forked[o["id"]])
        d = fn.defs.get(o["id"])
        if d is None:
            if o["id"] in fn.params:
                return Lin.atom("param:" + fn.params[o["id"]]["name"])
            raise Und("value %s" % o["id"])
        op = d["op"]
        if op in ("add", "sub"):
            a, b = val(d["ops"][0], depth + 1), val(d["ops"][1], depth + 1)
            return a + b if op == "add" else a - b
        if op == "mul":
            a, b = val(d["ops"][0], depth + 1), val(d["ops"][1], depth + 1)
            if a.is_const():
                return b.scale(a.c)
            if b.is_const():
                return a.scale(b.c)
            raise Und("product of two variables")
        if op in ("zext", "trunc", "sext"):
            return val(d["ops"][0], depth + 1)
        if op in ("udiv", "urem") and d["ops"][1].get("k") == "c" and d["ops"][1]["v"] > 0:
            x, k = val(d["ops"][0], depth + 1), d["ops"][1]["v"]
            if op == "urem" and len(x.t) == 1 and x.c == 0:
                (a, co), = x.t.items()
                if co == 1 and a in rem_of and rem_of[a][1] % k == 0:          # (y % m) % k = y % k   when k | m
                    x = rem_of[a][0]
            q, r, _ = tie(x, k)
            if op == "urem":
                rem_of[next(iter(r.t))] = (x, k)
                return r
            return q
        raise Und("%s (%s)" % (o["id"], op))
    results = dict(function=fn.name, paths=0, success_paths=0, obligations=0, call_sites=0, stores_with_room=0)
    forked = {}

    def slot(ptr):
        if ptr.get("id") == DEST:
            return 0
        d = fn.defs.get(ptr.get("id"))
        if d is not None and d["op"] == "getelementptr" and d["base"].get("id") == DEST and not d.get("terms"):
            return d.get("coff", 0) // 4 if d.get("coff", 0) % 4 == 0 else None
        if d is not None and d["op"] == "getelementptr" and d["base"].get("id") == DEST and len(d.get("terms", ())) == 1 and d["terms"][0]["stride"] == 4:
            try:
                ix = val(d["terms"][0]["v"])
            except Und:
                return None
            if ix.is_const() and d.get("coff", 0) % 4 == 0:
                return d.get("coff", 0) // 4 + int(ix.c)          # an index that a forked select has made constant on this path
            return None
        if d is not None and d["op"] == "bitcast":
            return slot(d["ops"][0])
        return None

    def guard(cond, truth):
        d = fn.defs.get(cond.get("id")) if cond.get("k") == "v" else None
        if d is None or d["op"] != "icmp":
            return []
        try:
            a, b = val(d["ops"][0]), val(d["ops"][1])
        except Und:
            return []
        pred = d["pred"]
        if not truth:
            pred = {"eq": "ne", "ne": "eq", "ugt": "ule", "uge": "ult", "ult": "uge", "ule": "ugt", "sgt": "sle", "sge": "slt", "slt": "sge", "sle": "sgt"}[pred]
        if pred in ("ugt", "sgt"):
            return [a - b - Lin.const(1)]
        if pred in ("uge", "sge"):
            return [a - b]
        if pred in ("ult", "slt"):
            return [b - a - Lin.const(1)]
        if pred in ("ule", "sle"):
            return [b - a]
        if pred == "eq":
            return [a - b, b - a]
        if pred == "ne" and b.is_const() and b.c == 0:
            return [a - Lin.const(1)]          # every value here is unsigned: x != 0 is x >= 1 (x >= 0 is among the tie facts)
        return []

    def judge(stores, ret, pf, where):
        results["success_paths"] += 1
        F = facts + pf
        key = "C17:hangul-decomposition:%s" % fn.name

        def need(g, what):
            results["obligations"] += 1
            if not entails(F, g):
                report("%s:%s" % (key, what.split(" ")[0]), "H-hangul-decomposition-inverts-composition", "%s:%s" % (fn.file, where),
                       "%s, path returning %s: %s is not entailed -- the jamo stored do not compose back to the syllable (UAX #15 3.12)" % (fn.name, ret, what))
                return False
            return True
        if ret not in (2, 3) or any(k not in stores for k in range(ret + 1)):
            report("%s:shape" % key, "H-hangul-decomposition-inverts-composition", "%s:%s" % (fn.file, where),
                   "%s returns %s having stored dest[%s]: a Hangul syllable decomposes into 2 or 3 jamo followed by a 0" % (fn.name, ret, sorted(stores)))
            return
        term = stores[ret]
        if not (term.is_const() and term.c == 0):
            need(Lin.const(0) - term, "terminator dest[%d] <= 0" % ret)
        L, V = stores[0] - Lin.const(H_LBASE), stores[1] - Lin.const(H_VBASE)
        T = stores[2] - Lin.const(H_TBASE) if ret == 3 else Lin.const(0)
        total = L.scale(H_VCOUNT * H_TCOUNT) + V.scale(H_TCOUNT) + T
        need(L, "L-index >= 0"); need(Lin.const(H_VCOUNT * H_TCOUNT * H_LCOUNT - 1) - L.scale(H_VCOUNT * H_TCOUNT), "L-index < 19")
        need(V, "V-index >= 0"); need(Lin.const(H_TCOUNT * H_VCOUNT - 1) - V.scale(H_TCOUNT), "V-index < 21")
        if ret == 3:
            need(T - Lin.const(1), "T-index >= 1"); need(Lin.const(H_TCOUNT - 1) - T, "T-index < 28")
        need(total - S, "sum >= s (588*L + 28*V + T recomposes the syllable)"); need(S - total, "sum <= s (588*L + 28*V + T recomposes the syllable)")

    def walk(bb, pred_bb, stores, pf, depth=0, start=0):
        if depth > 60:
            raise Und("path too long")
        stores = dict(stores)
        for i in fn.blocks[bb]["insts"][start:]:
            if i["op"] == "select" and i["ty"].startswith("i") and i["ty"] != "i1" and all(o.get("k") == "c" for o in i["ops"][1:3]) and i["id"] not in forked:
                # `len = tindex ? 3 : 2`: both alternatives are followed with the condition as a path fact
                for truth, alt in ((True, i["ops"][1]), (False, i["ops"][2])):
                    forked[i["id"]] = alt["v"]
                    try:
                        walk(bb, pred_bb, stores, pf + guard(i["ops"][0], truth), depth + 1, i["_k"] + 1)
                    finally:
                        del forked[i["id"]]
                return
            if i["op"] == "store":
                k = slot(i["ops"][1])
                if k is None:
                    raise Und("store to something other than dest[constant]")
                if room_report is not None and "dmax" in fn.pnames:
                    # C01's part: the slot written lies inside the dmax elements the caller declared
                    results["stores_with_room"] += 1
                    if not entails(facts + pf, Lin.atom("param:dmax") - Lin.const(k + 1)):
                        room_report("C01:no-room-established:%s:slot%d" % (fn.name, k), "B-room-before-the-store", fn.loc(i),
                                    "%s stores dest[%d] on a path that has not established dmax >= %d" % (fn.name, k, k + 1))
                stores[k] = val(i["ops"][0])
            elif i["op"] == "call" and not i.get("intrinsic"):
                raise Und("call")
        t = fn.term(bb)
        if t["op"] == "ret":
            results["paths"] += 1
            r = t["ops"][0]
            d = fn.defs.get(r.get("id")) if r.get("k") == "v" else None
            if d is not None and d["op"] == "phi" and d["_bb"] == bb:
                r = next(x["v"] for x in d["incoming"] if x["bb"] == pred_bb)
            rv = val(r)
            if not rv.is_const():
                raise Und("return value not constant")
            rv = int(rv.c)
            rv = rv - (1 << 32) if rv >= (1 << 31) else rv
            if rv >= 0:
                judge(stores, rv, pf, t.get("line") or fn.line)
            return
        if t["op"] != "br":
            raise Und("terminator %s" % t["op"])
        if "cond" not in t:
            return walk(t["t"], bb, stores, pf, depth + 1)
        for truth, succ in ((True, t["t"]), (False, t["f"])):
            pf2 = pf + guard(t["cond"], truth)
            if not satisfiable(facts + pf2):
                continue          # e.g. the `tindex == 0` side after `len = tindex ? 3 : 2` was followed with tindex != 0
            walk(succ, bb, stores, pf2, depth + 1)
    try:
        walk(fn.entry, None, {}, [])
    except Und as e:
        ck.fail_broken("Hangul decomposition rule: %s in %s is outside the fragment (%s)" % (fn.name, fn.file, e)); return results
    # precondition at the call sites
    for cal in callers:
        for i in cal.insts():
            if i["op"] == "call" and i.get("callee") == fn.name:
                pos = list(fn.params).index(CP if CP is not None else SIDX)
                a = i["args"][pos]
                if a.get("k") != "v":
                    continue
                results["call_sites"] += 1
                rs = intervals.reach(cal, a["id"]).get(i["_bb"], [])
                lo_, hi_ = (H_SBASE, H_SBASE + H_SCOUNT - 1) if CP is not None else (0, H_SCOUNT - 1)
                if CP is None:
                    # the index handed in must be cp - SBase of the caller's code point
                    da = cal.defs.get(a["id"])
                    if not (da is not None and da["op"] == "sub" and da["ops"][1].get("v") == H_SBASE):
                        rs = []
                if not rs or rs[0][0] < lo_ or rs[-1][1] > hi_:
                    report("C17:hangul-decomposition-precondition:%s" % cal.name, "H-hangul-decomposition-inverts-composition", "%s:%s" % (cal.file, i.get("line")),
                           "%s calls %s with a code point in %s: only U+AC00..U+D7A3 are Hangul syllables" % (cal.name, fn.name, ["U+%04X..U+%04X" % x for x in rs] or "an unknown range"))
    results["ties"] = len(ties)
    return results


def run(ck):
    mods, info = frontend.load_modules()
    prog = Program(mods)
    roles = capcheck.all_roles(prog)
    byname = {}
    for f in prog.allfuncs:
        byname.setdefault(f.name, f)
    # 1. table accesses and the helpers that rely on their callers
    need = {}          # callee name -> set of (param index)
    n_acc = n_ok = 0
    chains = []
    for fn in prog.allfuncs:
        if not fn.mod["tu"].startswith("src/extwchar/"):
            continue
        res, _ = capcheck.analyse(fn, roles.get(fn.name, []), prog, roles, want_kinds=("R",))
        for (x, pidx) in plane_accesses(fn, res):
            n_acc += 1
            if x["lo"] and x["hi"]:
                n_ok += 1
                ck.sample(dict(function=fn.name, table=x["role"], index=x["off"], verdict="index < 17 entailed inside the function"))
                continue
            if pidx is None:
                ck.report("C17:table-index-unbounded:%s:%s" % (fn.name, x["role"]), "U-plane-index-in-range", "%s:%s" % (fn.file, x["line"]),
                          "%s indexes %s with %s, which is not known to be below 17 (code point not checked against U+10FFFF)" % (fn.name, x["role"], x["off"]))
                continue
            need.setdefault(fn.name, set()).add(pidx)
    direct = {}
    for fn in prog.allfuncs:
        if fn.mod["tu"].startswith("src/extwchar/"):
            res, _ = capcheck.analyse(fn, roles.get(fn.name, []), prog, roles, want_kinds=("R",))
            for (x, pidx) in plane_accesses(fn, res):
                if pidx is not None:
                    direct.setdefault(fn.name, set()).add(pidx)
    rej = rejection_rule(ck, prog, direct, ck.report)
    if len(rej["call_sites"]) < 5:
        ck.fail_broken("rejection rule: only %d call sites of code-point consumers found (< 5)" % len(rej["call_sites"]))
    # 2. propagate preconditions to call sites
    n_sites = 0
    done = set()
    work = dict(need)
    depth = 0
    while work and depth < 4:
        depth += 1
        goals = {n: [(k, UNICODE_MAX) for k in sorted(ks)] for n, ks in work.items()}
        nxt = {}
        for fn in prog.allfuncs:
            if not any(c.get("callee") in goals and prog.resolve(fn, c["callee"]) is not None for c in fn.calls()):
                continue
            res, _ = capcheck.analyse(fn, roles.get(fn.name, []), prog, roles, want_kinds=(), callsite_goals=goals)
            for x in res:
                if x["kind"] != "U":
                    continue
                n_sites += 1
                if x["hi"]:
                    ck.sample(dict(caller=fn.name, call=x["what"], argument=x["off"], verdict="cp <= 0x10FFFF entailed at the call site"))
                    continue
                if x["from_param"] is not None and (fn.internal or (fn.name.startswith("_") and not fn.name.endswith("_chk"))):   # private helper: the bound is its callers' duty
                    if (fn.name, x["from_param"]) not in done:
                        done.add((fn.name, x["from_param"]))
                        nxt.setdefault(fn.name, set()).add(x["from_param"])
                    continue
                ck.report("C17:unchecked-codepoint:%s->%s" % (api.base_name(fn.name), x["callee"]), "U-codepoint-checked-before-lookup", "%s:%s" % (fn.file, x["line"]),
                          "%s passes %s to %s, which uses it as a plane-table index, without first establishing that it is <= U+10FFFF" % (api.base_name(fn.name), x["off"], x["callee"]),
                          dict(obligation=x))
        work = nxt
    if n_acc < MIN_TABLE_ACCESSES:
        ck.fail_broken("only %d plane-table accesses found (< %d): anchors vanished" % (n_acc, MIN_TABLE_ACCESSES))
    fold = fold_agreement(ck, prog, ck.report)
    if sum(fold.get("announced", {}).values()) < 100:
        ck.fail_broken("fold agreement: fewer than 100 code points announced as multi-character foldings (%s)" % fold.get("announced"))
    reader = byname.get("_composite_cp")
    if reader is None:
        ck.fail_broken("layout agreement: _composite_cp not found")
        layout = {}
    else:
        layout = layout_agreement(ck, reader, ck.report, min_cells=400)
    dreader = byname.get("_decomp_canonical_s")
    if dreader is None:
        ck.fail_broken("decomposition agreement: _decomp_canonical_s not found")
        decomp = {}
    else:
        decomp = decomp_agreement(ck, dreader, ck.report, min_entries=1500)
    inverse = {}
    if layout.get("_lists") and decomp.get("_decomp"):
        inverse = inverse_agreement(layout["_lists"], decomp["_decomp"], ck.report, "%s:%s" % (reader.file, reader.line))
        if inverse["pairs"] < 900:
            ck.fail_broken("inverse agreement: only %d composition pairs found" % inverse["pairs"])
    else:
        ck.fail_broken("inverse agreement: composition lists or decomposition map not available")
    layout.pop("_lists", None); decomp.pop("_decomp", None)
    hangul = hangul_rule(ck, [f for f in prog.allfuncs if f.mod["tu"] == "src/extwchar/wcsnorm_s.c"], ck.report)
    if hangul and hangul.get("arithmetic_results", 0) < 2:
        ck.fail_broken("Hangul rule: fewer than two arithmetic composition results found")
    wn = [f for f in prog.allfuncs if f.mod["tu"] == "src/extwchar/wcsnorm_s.c"]
    hdec = hangul_decomp_rule(ck, wn, wn, ck.report)
    if hdec and (hdec.get("success_paths", 0) < 2 or hdec.get("call_sites", 0) < 1):
        ck.fail_broken("Hangul decomposition rule: fewer than two successful paths or no call site found")
    fx = selftest(ck)
    ob = n_acc + n_sites
    cov = dict(explanation="%d loads from constant tables indexed by (code point >> 16) were found in src/extwchar; %d are bounded inside the function; for the others the bound "
               "cp <= 0x10FFFF is required at every call site of the lookup helper (%d call-site obligations, followed through internal callers' parameters). Rejection: at each of the %d calls from an entry point to a code-point consumer the argument was range-checked in the caller (interval-set reachability). Fold agreement: iswfc's decision tree, evaluated over the interval partition induced by its own "
               "comparison constants, announces 2 resp. 3 characters for exactly the key columns of towfc_s's 2- resp. 3-character tables; the tables are strictly ascending and "
               "zero-terminated; a hit stores k+1 elements and returns k. Layout agreement: for each of the %s composition lists reachable through the three-level table, the element size "
               "with which _composite_cp walks it (interval-set reachability over its comparisons of the code point with constants) equals the element size of the stored list; every list is "
               "reachable, strictly ascending and zero-terminated; the searched code point is not truncated before the key comparison. Decomposition agreement: each of the %s distinct packed (length, index) values stored in the "
               "three-level canonical table decodes, with _decomp_canonical_s's own shifts, masks and address arithmetic (constant-folded over the table contents), to exactly one row of an existing value table, "
               "the returned length is that row's width, and every row of the value tables is referenced." % (n_acc, n_ok, n_sites, len(rej["call_sites"]), layout.get("lists"), decomp.get("distinct_values")),
               obligations=ob, discharged=ob - len({r["key"] for r in ck.reports}), table_accesses=n_acc, bounded_in_place=n_ok, call_site_obligations=n_sites,
               helpers_relying_on_callers={k: sorted(v) for k, v in need.items()}, rejection=rej, fold_agreement=fold, layout_agreement=layout, decomposition_agreement=decomp, inverse_agreement=inverse, hangul_composition=hangul, hangul_decomposition=hdec, fixtures=fx, frontend=info,
               summary="%d plane-table accesses, %d call-site obligations" % (n_acc, n_sites))
    return ck.finish(cov, ["decided: the table-index clause, the iswfc/towfc_s agreement for multi-character foldings the reader/table layout agreement of the composition lists and the decode agreement of the canonical decomposition tables; UAX #15 conformance, idempotence and the single-character (libc towlower/iswupper) cases are not", "32-bit wchar_t configuration"])


def selftest(ck):
    fdir = os.path.join(frontend.VERIF, "fixtures")
    prog = Program(frontend.load_sources([os.path.join(fdir, "c17.c")]))
    roles = capcheck.all_roles(prog)
    out = {}
    for n, want in (("fx17_checked", True), ("fx17_unchecked", False)):
        res, _ = capcheck.analyse(prog.funcs[n], roles.get(n, []), prog, roles, want_kinds=("R",))
        acc = plane_accesses(prog.funcs[n], res)
        ok = bool(acc) and all(x["lo"] and x["hi"] for x, _ in acc)
        out[n] = dict(accesses=len(acc), bounded=ok)
        if ok != want or not acc:
            ck.fail_broken("fixture c17.c:%s: accesses=%d bounded=%s" % (n, len(acc), ok))
    class Sink:
        def __init__(s): s.broken = []
        def fail_broken(s, m): s.broken.append(m)
    for ann, want in (("fx17_isw_good", False), ("fx17_isw_forgets", True)):
        got, sk = [], Sink()
        r = fold_agreement(sk, prog, lambda key, *a, **k: got.append(key), announcer=ann, emitter="fx17_tow_chk")
        out[ann] = dict(announced=r.get("announced"), reports=got)
        if sk.broken or not r.get("tables") or bool(got) != want:
            ck.fail_broken("fixture c17.c:%s: fold agreement %s (%s)" % (ann, "did not fire" if want else "fired on conforming code", sk.broken or got))
    for n, want in (("fx17_lay_good", []), ("fx17_lay_trunc_ok", []), ("fx17_lay_boundary", ["C17:list-layout-disagrees:fx17_lay_boundary:250"]),
                    ("fx17_lay_trunc", ["C17:key-truncated:fx17_lay_trunc:cp2"]), ("fx17_lay_dropped", ["C17:list-unreachable:fx17_lay_dropped:251"])):
        got, sk = [], Sink()
        r = layout_agreement(sk, prog.funcs[n], lambda key, *a, **k: got.append(key), min_cells=4)
        r.pop("_lists", None)
        out[n] = dict(lists=r.get("lists"), reports=got)
        if sk.broken or sorted(got) != want:
            ck.fail_broken("fixture c17.c:%s: layout agreement reported %s, expected %s (%s)" % (n, got, want, sk.broken))
    for name, dec, want in (("inverse_good", {0xc0: (0x41, 0x300), 0x1ea6: (0x41, 0x302, 0x300), 0xc2: (0x41, 0x302)}, 0), ("inverse_bad", {0xc0: (0x41, 0x301), 0x1ea6: (0x41, 0x302, 0x300), 0xc2: (0x41, 0x302)}, 1)):
        got = []
        r = inverse_agreement({0x41: [(0x300, 0xc0), (0x302, 0xc2)], 0xc2: [(0x300, 0x1ea6)]}, dec, lambda key, *a, **k: got.append(key), "fixture")
        out[name] = dict(r, reports=got)
        if len(got) != want or r["pairs"] != 3:
            ck.fail_broken("self-test %s: inverse agreement reported %s" % (name, got))
    for n, want in (("fx17_dec_good", []), ("fx17_dec_shift", ["C17:decomp-row-misaddressed", "C17:decomp-value-undecodable"]), ("fx17_dec_stride", ["C17:decomp-row-misaddressed", "C17:decomp-row-unreferenced"]),
                    ("fx17_dec_zero", ["C17:decomp-row-unreferenced"])):
        got, sk = [], Sink()
        r = decomp_agreement(sk, prog.funcs[n], lambda key, *a, **k: got.append(key), min_entries=3)
        r.pop("_decomp", None)
        out[n] = dict(values=r.get("distinct_values"), reports=got)
        if sk.broken or sorted({":".join(k.split(":")[:2]) for k in got}) != want:
            ck.fail_broken("fixture c17.c:%s: decomposition agreement reported %s, expected %s (%s)" % (n, got, want, sk.broken))
    for n, want in (("fx17_hangul_good", []), ("fx17_hangul_any_s", ["C17:hangul-composition", "C17:hangul-composition-missing"]), ("fx17_hangul_short_t", ["C17:hangul-composition-missing"]),
                    ("fx17_hangul_wrong_sum", ["C17:hangul-composition", "C17:hangul-composition-missing"])):
        got, sk = [], Sink()
        r = hangul_rule(sk, [prog.funcs[n]], lambda key, *a, **k: got.append(key))
        out[n] = dict(r, reports=got)
        if sk.broken or sorted({":".join(k.split(":")[:2]) for k in got}) != want:
            ck.fail_broken("fixture c17.c:%s: Hangul composition rule reported %s, expected %s (%s)" % (n, got, want, sk.broken))
    for n, want in (("fx17_hdec_good", False), ("fx17_hdec_ncount", True), ("fx17_hdec_vmod", True), ("fx17_hdec_always3", True)):
        got, sk = [], Sink()
        r = hangul_decomp_rule(sk, [prog.funcs[n]], [], lambda key, *a, **k: got.append(key))
        out[n] = dict(r, reports=got)
        if sk.broken or bool(got) != want or not r.get("success_paths"):
            ck.fail_broken("fixture c17.c:%s: Hangul decomposition rule %s (%s)" % (n, "did not fire" if want else "fired on conforming code", sk.broken or got))
    for n, want in (("fx17_hdec_good", []), ("fx17_hdec_room_tight", ["C01:no-room-established:fx17_hdec_room_tight:slot2", "C01:no-room-established:fx17_hdec_room_tight:slot3"])):
        got, sk = [], Sink()
        r = hangul_decomp_rule(sk, [prog.funcs[n]], [], lambda *a, **k: None, room_report=lambda key, *a, **k: got.append(key))
        out[n + ":room"] = dict(stores=r.get("stores_with_room"), reports=sorted(set(got)))
        if sk.broken or sorted(set(got)) != want or not r.get("stores_with_room"):
            ck.fail_broken("fixture c17.c:%s: room clause reported %s, expected %s (%s)" % (n, sorted(set(got)), want, sk.broken))
    return out
