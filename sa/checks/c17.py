"""C17 (clause: code points above U+10FFFF are never used as table indices).

The Unicode tables are indexed by plane (cp >> 16) into 17-entry arrays.  Every load from a constant global array whose index is a
right shift of a value by 16 must have its index in range; where the lookup helper does not establish cp <= 0x10FFFF itself, the bound
becomes a precondition on its parameter that every call site in the library must establish (followed through parameters up to the
exported entry points).  Conformance of the normalisation / folding results to the Unicode standard is value-level and NOT decided."""
import os
from ..ir import Program
from .. import frontend, api, capcheck, par

UNICODE_MAX = 0x10FFFF
MIN_TABLE_ACCESSES = 3


def plane_accesses(fn, res):
    """R obligations of fn that index a constant global by (param >> 16): returns [(obligation, param index)]"""
    out = []
    for x in res:
        if x["kind"] != "R" or not x["role"].startswith("global:") or x["const_index"]:
            continue
        # offset is k * atom where atom is an lshr by 16 of a parameter
        import re
        m = re.fullmatch(r"(\d+)\*(%[\w.]+)", x["off"])
        if not m:
            continue
        d = fn.defs.get(m.group(2))
        if d is None or d["op"] != "lshr" or d["ops"][1].get("k") != "c" or d["ops"][1]["v"] != 16:
            continue
        src = d["ops"][0]
        # see through zext/trunc
        while src.get("k") == "v" and fn.defs.get(src["id"], {}).get("op") in ("zext", "trunc", "sext"):
            src = fn.defs[src["id"]]["ops"][0]
        pidx = fn.param_index(fn.params[src["id"]]["name"]) if src.get("k") == "v" and src["id"] in fn.params else None
        out.append((x, pidx))
    return out


def run(ck):
    mods, info = frontend.load_modules()
    prog = Program(mods)
    roles = capcheck.all_roles(prog)
    byname = {}
    for f in prog.allfuncs:
        byname.setdefault(f.name, f)
    # 1. table accesses and the helpers that rely on their callers
    need = {}          # callee name -> set of (param index)
    n_acc = n_ok = 0
    chains = []
    for fn in prog.allfuncs:
        if not fn.mod["tu"].startswith("src/extwchar/"):
            continue
        res, _ = capcheck.analyse(fn, roles.get(fn.name, []), prog, roles, want_kinds=("R",))
        for (x, pidx) in plane_accesses(fn, res):
            n_acc += 1
            if x["lo"] and x["hi"]:
                n_ok += 1
                ck.sample(dict(function=fn.name, table=x["role"], index=x["off"], verdict="index < 17 entailed inside the function"))
                continue
            if pidx is None:
                ck.report("C17:table-index-unbounded:%s:%s" % (fn.name, x["role"]), "U-plane-index-in-range", "%s:%s" % (fn.file, x["line"]),
                          "%s indexes %s with %s, which is not known to be below 17 (code point not checked against U+10FFFF)" % (fn.name, x["role"], x["off"]))
                continue
            need.setdefault(fn.name, set()).add(pidx)
    # 2. propagate preconditions to call sites
    n_sites = 0
    done = set()
    work = dict(need)
    depth = 0
    while work and depth < 4:
        depth += 1
        goals = {n: [(k, UNICODE_MAX) for k in sorted(ks)] for n, ks in work.items()}
        nxt = {}
        for fn in prog.allfuncs:
            if not any(c.get("callee") in goals and prog.resolve(fn, c["callee"]) is not None for c in fn.calls()):
                continue
            res, _ = capcheck.analyse(fn, roles.get(fn.name, []), prog, roles, want_kinds=(), callsite_goals=goals)
            for x in res:
                if x["kind"] != "U":
                    continue
                n_sites += 1
                if x["hi"]:
                    ck.sample(dict(caller=fn.name, call=x["what"], argument=x["off"], verdict="cp <= 0x10FFFF entailed at the call site"))
                    continue
                if x["from_param"] is not None and (fn.internal or (fn.name.startswith("_") and not fn.name.endswith("_chk"))):   # private helper: the bound is its callers' duty
                    if (fn.name, x["from_param"]) not in done:
                        done.add((fn.name, x["from_param"]))
                        nxt.setdefault(fn.name, set()).add(x["from_param"])
                    continue
                ck.report("C17:unchecked-codepoint:%s->%s" % (api.base_name(fn.name), x["callee"]), "U-codepoint-checked-before-lookup", "%s:%s" % (fn.file, x["line"]),
                          "%s passes %s to %s, which uses it as a plane-table index, without first establishing that it is <= U+10FFFF" % (api.base_name(fn.name), x["off"], x["callee"]),
                          dict(obligation=x))
        work = nxt
    if n_acc < MIN_TABLE_ACCESSES:
        ck.fail_broken("only %d plane-table accesses found (< %d): anchors vanished" % (n_acc, MIN_TABLE_ACCESSES))
    fx = selftest(ck)
    ob = n_acc + n_sites
    cov = dict(explanation="%d loads from constant tables indexed by (code point >> 16) were found in src/extwchar; %d are bounded inside the function; for the others the bound "
               "cp <= 0x10FFFF is required at every call site of the lookup helper (%d call-site obligations, followed through internal callers' parameters)." % (n_acc, n_ok, n_sites),
               obligations=ob, discharged=ob - len({r["key"] for r in ck.reports}), table_accesses=n_acc, bounded_in_place=n_ok, call_site_obligations=n_sites,
               helpers_relying_on_callers={k: sorted(v) for k, v in need.items()}, fixtures=fx, frontend=info,
               summary="%d plane-table accesses, %d call-site obligations" % (n_acc, n_sites))
    return ck.finish(cov, ["only the table-index clause is decided; UAX #15 conformance, idempotence and iswfc/towfc_s agreement are not", "32-bit wchar_t configuration"])


def selftest(ck):
    fdir = os.path.join(frontend.VERIF, "fixtures")
    prog = Program(frontend.load_sources([os.path.join(fdir, "c17.c")]))
    roles = capcheck.all_roles(prog)
    out = {}
    for n, want in (("fx17_checked", True), ("fx17_unchecked", False)):
        res, _ = capcheck.analyse(prog.funcs[n], roles.get(n, []), prog, roles, want_kinds=("R",))
        acc = plane_accesses(prog.funcs[n], res)
        ok = bool(acc) and all(x["lo"] and x["hi"] for x, _ in acc)
        out[n] = dict(accesses=len(acc), bounded=ok)
        if ok != want or not acc:
            ck.fail_broken("fixture c17.c:%s: accesses=%d bounded=%s" % (n, len(acc), ok))
    return out
