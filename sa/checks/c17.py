"""C17 (clause: code points above U+10FFFF are never used as table indices).

The Unicode tables are indexed by plane (cp >> 16) into 17-entry arrays.  Every load from a constant global array whose index is a
right shift of a value by 16 must have its index in range; where the lookup helper does not establish cp <= 0x10FFFF itself, the bound
becomes a precondition on its parameter that every call site in the library must establish (followed through parameters up to the
exported entry points).  Conformance of the normalisation / folding results to the Unicode standard is value-level and NOT decided."""
import os
from ..ir import Program
from .. import frontend, api, capcheck, par, intervals
from ..ir import return_sites, global_roots
from ..derive import derive, labels_of

UNICODE_MAX = 0x10FFFF
MIN_TABLE_ACCESSES = 3


def plane_accesses(fn, res):
    """R obligations of fn that index a constant global by (param >> 16): returns [(obligation, param index)]"""
    out = []
    for x in res:
        if x["kind"] != "R" or not x["role"].startswith("global:") or x["const_index"]:
            continue
        # offset is k * atom where atom is an lshr by 16 of a parameter
        import re
        m = re.fullmatch(r"(\d+)\*(%[\w.]+)", x["off"])
        if not m:
            continue
        d = fn.defs.get(m.group(2))
        if d is None or d["op"] != "lshr" or d["ops"][1].get("k") != "c" or d["ops"][1]["v"] != 16:
            continue
        src = d["ops"][0]
        # see through zext/trunc
        while src.get("k") == "v" and fn.defs.get(src["id"], {}).get("op") in ("zext", "trunc", "sext"):
            src = fn.defs[src["id"]]["ops"][0]
        pidx = fn.param_index(fn.params[src["id"]]["name"]) if src.get("k") == "v" and src["id"] in fn.params else None
        out.append((x, pidx))
    return out


def fold_agreement(ck, prog, report, announcer="iswfc", emitter="_towfc_s_chk"):
    """clause: the number of characters towfc_s emits for a multi-character folding equals what iswfc announces.
    iswfc touches its argument only through comparisons with constants: its decision tree is evaluated over the interval partition those
    constants induce (sa/intervals.py), giving the exact sets of code points announced as 2 and as 3.  towfc_s searches sorted constant
    tables; a hit in table T stores one element per folded character of the row plus the terminator and returns that count.
    Decided: announced set for k == first column of the k-character table, tables strictly ascending (the search stops at the first larger key),
    hit blocks store k+1 elements and return k."""
    fa, fe = prog.funcs.get(announcer), prog.funcs.get(emitter)
    if fa is None or fe is None:
        ck.fail_broken("fold agreement: %s / %s not found" % (announcer, emitter)); return {}
    arg = fa.j["params"][0]["id"]
    try:
        parts = intervals.classify(fa, arg, 0, (1 << 32) - 1)
    except intervals.Unsupported as e:
        ck.fail_broken("fold agreement: %s is not a comparison-only classification: %s" % (announcer, e)); return {}
    announced = {}
    for (lo, hi, v) in parts:
        if isinstance(v, int) and v >= 2:
            if hi - lo > 4096:
                report("C17:fold-announced-range:%s:%x-%x" % (announcer, lo, hi), "F-announced-equals-emitted", "%s:%s" % (fa.file, fa.line),
                       "%s announces %d characters for the whole range U+%04X..U+%04X" % (announcer, v, lo, hi))
                continue
            announced.setdefault(v, set()).update(range(lo, hi + 1))
    # emitter side: constant tables it reads, per row width
    out = dict(intervals=len(parts), announced={k: len(v) for k, v in announced.items()}, tables={})
    dest = fe.pnames.get("dest")
    der = derive(fe, {dest["id"]: "d"}) if dest else {}
    tables = {}
    A = capcheck.Analysis(fe)

    def table_of(i):
        r = A.ptr(i["ops"][0])[0]
        return r[1:] if r and r.startswith("@") else None
    for i in fe.insts():
        if i["op"] == "load":
            n = table_of(i)
            g = fe.mod["gmap"].get(n) if n else None
            if g and g.get("table") and len(g["table"][0]) >= 3:
                tables[n] = g
    if not tables:
        ck.fail_broken("fold agreement: %s reads no constant multi-column table" % emitter); return out
    emitted = {}
    for n, g in sorted(tables.items()):
        rows = [r for r in g["table"] if r[0] != 0]
        k = len(g["table"][0]) - 1
        keys = [r[0] for r in rows]
        if any(a >= b for a, b in zip(keys, keys[1:])):
            report("C17:fold-table-unsorted:%s" % n, "F-announced-equals-emitted", "%s:%s" % (fe.file, g.get("line")),
                   "table %s is not strictly ascending in its key column: the search in %s stops at the first larger key and misses later rows" % (n, emitter))
        if g["table"][-1][0] != 0:
            report("C17:fold-table-unterminated:%s" % n, "F-announced-equals-emitted", "%s:%s" % (fe.file, g.get("line")), "table %s lacks its zero sentinel row" % n)
        emitted.setdefault(k, set()).update(keys)
        # the hit block: loads of the k folded characters of this table, k+1 stores into dest, return k
        hit = None
        for b in fe.j["blocks"]:
            lds = [i for i in b["insts"] if i["op"] == "load" and table_of(i) == n]
            sts = [i for i in b["insts"] if i["op"] == "store" and labels_of(i["ops"][1], der, None)]
            if len(lds) >= k and sts:
                hit = (b, lds, sts)
        if hit is None:
            ck.fail_broken("fold agreement: no block of %s copies a row of %s into dest" % (emitter, n)); continue
        b, lds, sts = hit
        rets = [o["v"] for (o, bb) in return_sites(fe) if bb == b["id"] and o is not None and o.get("k") == "c"]
        out["tables"][n] = dict(rows=len(rows), characters=k, stores_in_hit_block=len(sts), returns=rets)
        if len(sts) != k + 1 or rets != [k]:
            report("C17:fold-emits-other-count:%s" % n, "F-announced-equals-emitted", fe.loc(sts[0]),
                   "%s: a hit in %s (rows of %d folded characters) stores %d elements and returns %s" % (emitter, n, k, len(sts), rets))
    for k in sorted(set(announced) | set(emitted)):
        a, e = announced.get(k, set()), emitted.get(k, set())
        if a != e:
            only_a, only_e = sorted(a - e)[:4], sorted(e - a)[:4]
            report("C17:fold-count-disagrees:%d:%s" % (k, ",".join("%X" % x for x in (only_a + only_e)[:4])), "F-announced-equals-emitted", "%s:%s" % (fa.file, fa.line),
                   "%s announces %d characters for %s but %s's %d-character table holds %s: a destination sized from the announcement does not fit / is wasted"
                   % (announcer, k, ["U+%04X" % x for x in only_a] or "nothing extra", emitter, k, ["U+%04X" % x for x in only_e] or "nothing extra"))
    return out


def run(ck):
    mods, info = frontend.load_modules()
    prog = Program(mods)
    roles = capcheck.all_roles(prog)
    byname = {}
    for f in prog.allfuncs:
        byname.setdefault(f.name, f)
    # 1. table accesses and the helpers that rely on their callers
    need = {}          # callee name -> set of (param index)
    n_acc = n_ok = 0
    chains = []
    for fn in prog.allfuncs:
        if not fn.mod["tu"].startswith("src/extwchar/"):
            continue
        res, _ = capcheck.analyse(fn, roles.get(fn.name, []), prog, roles, want_kinds=("R",))
        for (x, pidx) in plane_accesses(fn, res):
            n_acc += 1
            if x["lo"] and x["hi"]:
                n_ok += 1
                ck.sample(dict(function=fn.name, table=x["role"], index=x["off"], verdict="index < 17 entailed inside the function"))
                continue
            if pidx is None:
                ck.report("C17:table-index-unbounded:%s:%s" % (fn.name, x["role"]), "U-plane-index-in-range", "%s:%s" % (fn.file, x["line"]),
                          "%s indexes %s with %s, which is not known to be below 17 (code point not checked against U+10FFFF)" % (fn.name, x["role"], x["off"]))
                continue
            need.setdefault(fn.name, set()).add(pidx)
    # 2. propagate preconditions to call sites
    n_sites = 0
    done = set()
    work = dict(need)
    depth = 0
    while work and depth < 4:
        depth += 1
        goals = {n: [(k, UNICODE_MAX) for k in sorted(ks)] for n, ks in work.items()}
        nxt = {}
        for fn in prog.allfuncs:
            if not any(c.get("callee") in goals and prog.resolve(fn, c["callee"]) is not None for c in fn.calls()):
                continue
            res, _ = capcheck.analyse(fn, roles.get(fn.name, []), prog, roles, want_kinds=(), callsite_goals=goals)
            for x in res:
                if x["kind"] != "U":
                    continue
                n_sites += 1
                if x["hi"]:
                    ck.sample(dict(caller=fn.name, call=x["what"], argument=x["off"], verdict="cp <= 0x10FFFF entailed at the call site"))
                    continue
                if x["from_param"] is not None and (fn.internal or (fn.name.startswith("_") and not fn.name.endswith("_chk"))):   # private helper: the bound is its callers' duty
                    if (fn.name, x["from_param"]) not in done:
                        done.add((fn.name, x["from_param"]))
                        nxt.setdefault(fn.name, set()).add(x["from_param"])
                    continue
                ck.report("C17:unchecked-codepoint:%s->%s" % (api.base_name(fn.name), x["callee"]), "U-codepoint-checked-before-lookup", "%s:%s" % (fn.file, x["line"]),
                          "%s passes %s to %s, which uses it as a plane-table index, without first establishing that it is <= U+10FFFF" % (api.base_name(fn.name), x["off"], x["callee"]),
                          dict(obligation=x))
        work = nxt
    if n_acc < MIN_TABLE_ACCESSES:
        ck.fail_broken("only %d plane-table accesses found (< %d): anchors vanished" % (n_acc, MIN_TABLE_ACCESSES))
    fold = fold_agreement(ck, prog, ck.report)
    if sum(fold.get("announced", {}).values()) < 100:
        ck.fail_broken("fold agreement: fewer than 100 code points announced as multi-character foldings (%s)" % fold.get("announced"))
    fx = selftest(ck)
    ob = n_acc + n_sites
    cov = dict(explanation="%d loads from constant tables indexed by (code point >> 16) were found in src/extwchar; %d are bounded inside the function; for the others the bound "
               "cp <= 0x10FFFF is required at every call site of the lookup helper (%d call-site obligations, followed through internal callers' parameters). Fold agreement: iswfc's decision tree, evaluated over the interval partition induced by its own "
               "comparison constants, announces 2 resp. 3 characters for exactly the key columns of towfc_s's 2- resp. 3-character tables; the tables are strictly ascending and "
               "zero-terminated; a hit stores k+1 elements and returns k." % (n_acc, n_ok, n_sites),
               obligations=ob, discharged=ob - len({r["key"] for r in ck.reports}), table_accesses=n_acc, bounded_in_place=n_ok, call_site_obligations=n_sites,
               helpers_relying_on_callers={k: sorted(v) for k, v in need.items()}, fold_agreement=fold, fixtures=fx, frontend=info,
               summary="%d plane-table accesses, %d call-site obligations" % (n_acc, n_sites))
    return ck.finish(cov, ["decided: the table-index clause and the iswfc/towfc_s agreement for multi-character foldings; UAX #15 conformance, idempotence and the single-character (libc towlower/iswupper) cases are not", "32-bit wchar_t configuration"])


def selftest(ck):
    fdir = os.path.join(frontend.VERIF, "fixtures")
    prog = Program(frontend.load_sources([os.path.join(fdir, "c17.c")]))
    roles = capcheck.all_roles(prog)
    out = {}
    for n, want in (("fx17_checked", True), ("fx17_unchecked", False)):
        res, _ = capcheck.analyse(prog.funcs[n], roles.get(n, []), prog, roles, want_kinds=("R",))
        acc = plane_accesses(prog.funcs[n], res)
        ok = bool(acc) and all(x["lo"] and x["hi"] for x, _ in acc)
        out[n] = dict(accesses=len(acc), bounded=ok)
        if ok != want or not acc:
            ck.fail_broken("fixture c17.c:%s: accesses=%d bounded=%s" % (n, len(acc), ok))
    class Sink:
        def __init__(s): s.broken = []
        def fail_broken(s, m): s.broken.append(m)
    for ann, want in (("fx17_isw_good", False), ("fx17_isw_forgets", True)):
        got, sk = [], Sink()
        r = fold_agreement(sk, prog, lambda key, *a, **k: got.append(key), announcer=ann, emitter="fx17_tow_chk")
        out[ann] = dict(announced=r.get("announced"), reports=got)
        if sk.broken or not r.get("tables") or bool(got) != want:
            ck.fail_broken("fixture c17.c:%s: fold agreement %s (%s)" % (ann, "did not fire" if want else "fired on conforming code", sk.broken or got))
    return out
