"""C04 -- a failed call leaves no partial result in dest.

For every destination-writing copy/concatenate/convert/format function all paths are explored with the destination typestate
(DFlags).  At every *error* return where dest/dmax are usable (dest non-null, dmax non-zero, within the limit and the known object):
 - dest must have been cleared at its entry value with length >= 1 since the last write of this call (first element zero, nothing
   written by the failed call remains visible at the front);
 - if the call had already written into dest, the clearing must cover all dmax elements (default null-slack build).
Additionally no store or writing effect may go through a pointer derived from a source parameter (source never modified)."""
import os
from ..ir import Program
from .. import frontend, api, par
from ..derive import Summaries
from . import dest_common as dc

EXCLUDE = {"handle_str_bos_overflow", "_memset_s_chk", "safec_vsnprintf_s"}
SRC_NAMES = ("src", "srcp")


def worker(prog, name):
    return dc.explore(prog, name)


def judge(name, r, slack=True):
    """findings for one function's outcome records"""
    out = []
    base = api.base_name(name)
    for o in r["outcomes"]:
        if o["err"] is not True or o["exempt"]:
            continue
        tag = None
        if not o["clr_first"]:
            tag, text = "error-exit-not-cleared", "an error is returned while dest has not been reset at its first element" + (" after this call wrote into it" if o["dirty"] else "")
        elif o["dirty"] and slack and not o["clr_full"]:
            tag, text = "partial-result-left", "an error is returned after this call wrote into dest, and the clearing does not cover all dmax elements"
        elif o.get("src_null") and slack and not o["clr_full"]:
            tag, text = "null-source-not-fully-cleared", "the source is null and the error exit does not zero all dmax elements of dest (default null-slack build)"
        if tag:
            out.append(dict(key="C04:%s:%s:ret=%s%s:%s" % (tag, base, o["ret"], ":dirty" if o["dirty"] else "", o["msg"]), rule="D-" + tag,
                            where="%s:%s" % (r["file"], o["line"]), text="%s: %s (returns %s)" % (base, text, o["ret"]), path=o["path"]))
    return out


def run(ck):
    configs = ["default"] + (["noslack"] if ck.tier == "thorough" else [])
    tot = 0
    info = {}
    per = {}
    nfun = 0
    for cfg in configs:
        mods, info = frontend.load_modules(config=cfg)
        prog = Program(mods)
        names = [n for n in dc.anchored_writers(prog, "C04") if n not in EXCLUDE]
        nfun = len(names)
        res, err = par.pmap(prog, worker, names)
        for n, e in err.items():
            ck.fail_broken("%s (%s): internal error: %s" % (n, cfg, e.strip().splitlines()[-1]))
        for n in names:
            r = res.get(n)
            if r is None:
                continue
            if "budget" in r:
                ck.fail_broken("path-state budget exceeded: " + r["budget"]); continue
            if "skip" in r:
                continue
            errs = [o for o in r["outcomes"] if o["err"] is True and not o["exempt"]]
            tot += len(errs)
            per["%s@%s" % (n, cfg)] = dict(error_exit_classes=len(errs), exempt=sum(1 for o in r["outcomes"] if o["err"] is True and o["exempt"]), paths=r["n_paths"])
            for f in judge(n, r, slack=(cfg == "default")):
                key = f["key"]          # the same exit is the same finding in both configurations
                ck.report(key, f["rule"], f["where"], f["text"] + ("" if cfg == "default" else " [no-slack configuration]"), dict(path=f["path"]))
        if cfg == "default":
            # source operands are never written
            summ = Summaries(prog)
            for n in names:
                fn = prog.funcs[n]
                for k, p in enumerate(fn.j["params"]):
                    if p["name"] in SRC_NAMES and p["ty"].endswith("*") and k in summ.w.get((fn.mod["tu"], fn.name), ()):
                        if p["name"] == "srcp":
                            continue      # mbsrtowcs_s/wcsrtombs_s update *srcp by specification
                        ck.report("C04:source-written:%s:%s" % (api.base_name(n), p["name"]), "D-source-not-modified", "%s:%s" % (fn.file, fn.line),
                                  "%s writes through its source parameter %s" % (api.base_name(n), p["name"]))
            if nfun < 38:
                ck.fail_broken("only %d destination-writing functions found (< 38)" % nfun)
    for k in list(per)[:6]:
        ck.sample(dict(function=k, **per[k]))
    fx = selftest(ck)
    cov = dict(explanation="All paths of the %d destination-writing functions anchored by the property (%s configuration%s): %d distinct non-exempt error-exit classes were checked for "
               "'cleared at the entry value of dest since the last write' and, when the call had written, 'cleared over all dmax elements'. Exempt exits (dest null, dmax zero, above the "
               "function's own limit or above the known object) are recognised from the path facts, not from macro names. Plus: no write through any source parameter."
               % (nfun, "+".join(configs), "s" if len(configs) > 1 else "", tot),
               obligations=tot + nfun, discharged=tot + nfun - len({r["key"] for r in ck.reports}), functions=nfun, per_function_sample={k: per[k] for k in list(per)[:10]},
               fixtures=fx, frontend=info, summary="%d functions, %d error-exit classes" % (nfun, tot))
    return ck.finish(cov, ["writes stay inside dest (C01) so that a clearing write at dest+0 of length dmax really covers the result", "value-level assumptions listed for C05 (nested copies that cannot fail)",
                           "memset_s is a fill, not a copy: excluded"])


def selftest(ck):
    fdir = os.path.join(frontend.VERIF, "fixtures")
    prog = Program(frontend.load_sources([os.path.join(fdir, "c04.c")]))
    out = {}
    want = {"fx4_good_s": [], "fx4_noclear_s": ["error-exit-not-cleared"], "fx4_partial_s": ["partial-result-left"], "fx4_cursor_s": ["error-exit-not-cleared"]}
    for n, w in want.items():
        r = dc.explore(prog, n)
        got = sorted({f["rule"][2:] for f in judge(n, r)}) if "outcomes" in r else [str(r)]
        out[n] = got
        if got != w:
            ck.fail_broken("fixture c04.c:%s: fired %s, expected %s" % (n, got, w))
    return out
