"""Byte accounting of the memory primitives (sa/accounting.py), shared by C06 (complete), C01 (stores inside dest) and C02 (loads inside src).

PRIMS lists the primitives with their parameter roles.  `min_count` is a precondition of the primitive (mem_prim_move decrements its
alignment counter before testing it, so a count of 0 wraps): it is assumed inside and must be established at every call site in the
library -- decided by interval-set reachability of the count argument's source value at the call."""
import os
from .. import frontend, accounting, intervals
from ..ir import Program

PRIMS = {
    # name: (dest, count, element size, src, min_count)
    "mem_prim_set": ("dest", "len", 1, None, 0),
    "mem_prim_set16": ("dest", "len", 2, None, 0),
    "mem_prim_set32": ("dest", "len", 4, None, 0),
    "mem_prim_move": ("dest", "len", 1, "src", 1),
    "mem_prim_move8": ("dest", "len", 1, "src", 0),
    "mem_prim_move16": ("dest", "len", 2, "src", 0),
    "mem_prim_move32": ("dest", "len", 4, "src", 0),
}
MIN_LOOPS = 17
# which kinds of accounting problems break which property
KINDS = {
    "C06": ("incomplete", "overrun", "gap-or-overlap", "loop-progress", "count-may-wrap", "loop-entered-with-zero-count", "wrong-source-element", "cursors-out-of-step", "store-into-source"),
    "C01": ("overrun", "gap-or-overlap", "loop-progress", "count-may-wrap", "loop-entered-with-zero-count", "store-into-source"),
    "C02": ("overrun", "loop-progress", "count-may-wrap", "loop-entered-with-zero-count", "wrong-source-element", "cursors-out-of-step"),
}
WHY = {
    "C06": "the primitive does not write every byte of dest[0 .. len*size) exactly once with the corresponding source byte: a successful copy/fill is not the complete result",
    "C01": "the stores of the primitive are not confined to dest[0 .. len*size)",
    "C02": "the loads of the primitive are not confined to src[0 .. len*size)",
}


def primitive_rule(ck, prog, prop, report, prims=None, min_loops=MIN_LOOPS):
    out = {}
    loops = 0
    byname = {}
    for f in prog.allfuncs:
        byname.setdefault(f.name, f)
    for name, (d, c, u, s, pre) in sorted((prims or PRIMS).items()):
        fn = byname.get(name)
        if fn is None:
            ck.fail_broken("primitive %s not found" % name); continue
        try:
            r = accounting.account(fn, d, c, u, s, pre)
        except accounting.Broken as e:
            ck.fail_broken("byte accounting of %s: %s" % (name, e)); continue
        loops += len(fn.loops)
        out.setdefault(name, {})["loops_never_reached"] = sorted(set(fn.loops) - set(r["loop_rules"]))
        out[name].update({k: r[k] for k in ("paths", "loops", "iteration_paths", "store_sites_walked", "wrap_obligations", "loop_rules")})
        out[name]["assumed_min_count"] = pre
        for p in r["problems"]:
            kind = p["key"].split(":")[1]
            if kind in KINDS[prop]:
                report("%s:prim:%s" % (prop, p["key"]), "P-primitive-writes-tile-dest", p["where"] if "/" in str(p["where"]) else "%s:%s" % (fn.file, fn.line), "%s -- %s" % (p["text"], WHY[prop]))
        # precondition at the call sites
        if pre > 0:
            sites = []
            for g in prog.allfuncs:
                for call in g.calls():
                    if call.get("callee") != name or prog.resolve(g, name) is not fn:
                        continue
                    o = call["args"][g_index(fn, c)]
                    while o.get("k") == "v" and g.defs.get(o["id"], {}).get("op") in ("trunc", "zext"):
                        o = g.defs[o["id"]]["ops"][0]
                    ok = False
                    if o.get("k") == "c":
                        ok = o["v"] >= pre
                    elif o.get("k") == "v":
                        R = intervals.reach(g, o["id"], 0, (1 << 64) - 1)[call["_bb"]]
                        ok = bool(R) and all(l >= pre for (l, h) in R)
                    sites.append(dict(caller=g.name, where=g.loc(call), established=ok))
                    if not ok:
                        report("%s:prim:%s:called-with-zero:%s" % (prop, name, g.name), "P-primitive-precondition", g.loc(call),
                               "%s calls %s with a count that is not known to be >= %d at the call: the primitive decrements its alignment counter before testing it and would run through the whole address space -- %s" % (g.name, name, pre, WHY[prop]))
            out[name]["call_sites"] = sites
            if not sites:
                ck.fail_broken("no call site of %s found" % name)
    if loops < min_loops:
        ck.fail_broken("byte accounting: only %d loops found in the primitives (< %d)" % (loops, min_loops))
    return out


def g_index(fn, pname):
    return fn.param_index(pname)


FIXTURES = (
    # function, unit, src, min_count, expected problem kinds
    ("fx6_move_good", 1, "src", 1, []),
    ("fx6_move_good", 1, "src", 0, ["loop-entered-with-zero-count"]),
    ("fx6_move_no_tail", 1, "src", 1, ["incomplete"]),
    ("fx6_move_words_wrong", 1, "src", 1, ["overrun"]),
    ("fx6_move_align_wrong", 1, "src", 1, ["count-may-wrap"]),
    ("fx6_set_good", 4, None, 0, []),
    ("fx6_set_case_short", 4, None, 0, ["incomplete", "loop-progress"]),
    ("fx6_move_swapped", 1, "src", 0, ["cursors-out-of-step", "wrong-source-element"]),
    ("fx6_set_index", 1, None, 0, []),
    ("fx6_set_index_from1", 1, None, 0, ["gap-or-overlap", "incomplete"]),
    ("fx6_move_nested", 2, "src", 0, []),
    ("fx6_move_nested_gap", 2, "src", 0, ["incomplete", "loop-progress"]),
)


def selftest(ck):
    prog = Program(frontend.load_sources([os.path.join(frontend.VERIF, "fixtures", "c06.c")]))
    out = {}
    for (n, u, s, pre, want) in FIXTURES:
        try:
            r = accounting.account(prog.funcs[n], "dest", "len", u, s, pre)
            got = sorted({p["key"].split(":")[1] for p in r["problems"]})
        except accounting.Broken as e:
            got = ["BROKEN: %s" % e]
        out["%s/min%d" % (n, pre)] = got
        if got != want:
            ck.fail_broken("fixture c06.c:%s (min count %d): byte accounting reported %s, expected %s" % (n, pre, got, want))
    return out
