"""C03 -- string-producing calls never leave dest unterminated.

At every return of a string-producing function where dest/dmax are usable (dest non-null, 0 < dmax within the limit and the known
object) a NUL must be known to lie in dest: a zero store / zeroing write of length >= 1 into dest, the edge on which the value just
stored into (or loaded from) dest compared equal to zero, or a terminating libc routine -- with no later write of this call into dest.
That the NUL lies inside [0, dmax) is C01's obligation on the same store (C03 is decided assuming C01)."""
import os
from ..ir import Program
from .. import frontend, api, par
from . import dest_common as dc

EXCLUDE = {"handle_str_bos_overflow", "_wmemcpy_s_chk", "_wmemmove_s_chk", "safec_vsnprintf_s"}


def judge(name, r):
    out = []
    base = api.base_name(name)
    for o in r["outcomes"]:
        if o["exempt"] or o["nul"]:
            continue
        kind = "error" if o["err"] is True else ("success" if o["err"] is False else "return")
        out.append(dict(key="C03:unterminated:%s:%s:ret=%s%s:%s%s" % (base, kind, o["ret"], ":dirty" if o["dirty"] else "", o["msg"], (":via=" + o["via"]) if o.get("via") else ""), rule="N-nul-in-dest",
                        where="%s:%s" % (r["file"], o["line"]),
                        text="%s: a %s return (%s) is reached with no terminator known in dest%s" % (base, kind, o["ret"], (" after this call wrote into it" if o["dirty"] else " (dest is left as the caller passed it)") + ((" [dest was handed to " + o["via"] + " on the way]") if o.get("via") else "")),
                        path=o["path"]))
    return out


def formatter_rule(ck, prog, name="safec_vsnprintf_s", report=None):
    """N2 (must-pass-through): the s*printf_s entries rely on the formatter to terminate `buffer` when it formats into memory.
    On the edge where `out == safec_out_buffer` holds, every path to a return must pass a call through `out` whose character is the constant 0."""
    report = report or ck.report
    fn = prog.funcs.get(name)
    if fn is None:
        ck.fail_broken("formatter %s not found" % name)
        return 0
    out = fn.pnames.get("out")
    if out is None:
        ck.fail_broken("%s has no out parameter" % name)
        return 0
    term_blocks = set()
    for c in fn.calls():
        if c.get("callee") is None and c.get("callee_v", {}).get("k") == "v" and c["callee_v"]["id"] == out["id"]:
            a0 = c["args"][0] if c.get("args") else None
            if a0 is not None and a0.get("k") == "c" and a0["v"] == 0:
                term_blocks.add(c["_bb"])
    edges = []
    for i in fn.insts():
        if i["op"] == "br" and "cond" in i and i["cond"].get("k") == "v":
            c = fn.defs.get(i["cond"]["id"])
            if c is not None and c["op"] == "icmp" and c["pred"] in ("eq", "ne"):
                ids = [o.get("id") for o in c["ops"]]
                fns = [o.get("name") for o in c["ops"] if o.get("k") == "f"]
                if out["id"] in ids and "safec_out_buffer" in fns:
                    edges.append((i, i["t"] if c["pred"] == "eq" else i["f"]))
    if not edges or not term_blocks:
        ck.fail_broken("%s: the buffer-output test / terminating out(0, ..) call was not found (anchor vanished)" % name)
        return 0
    rets = {r["_bb"] for r in fn.rets()}
    for (br, S) in edges:
        reach = fn.reachable_from(S, avoid=term_blocks)
        if reach & rets:
            report("C03:formatter-terminator-skipped:%s" % name, "N-formatter-terminates-buffer", fn.loc(br),
                   "%s: with out == safec_out_buffer a return can be reached without storing the terminating NUL through out(0, ..): the s*printf_s entries "
                   "then return a dest filled to dmax without a terminator" % name)
    return len(edges)


def run(ck):
    configs = ["default"] + (["noslack"] if ck.tier == "thorough" else [])
    tot = 0
    per = {}
    nfun = 0
    info = {}
    for cfg in configs:
        mods, info = frontend.load_modules(config=cfg)
        prog = Program(mods)
        names = [n for n in dc.anchored_writers(prog, "C03") if n not in EXCLUDE]
        if cfg == "default":
            formatter_rule(ck, prog)
        nfun = len(names)
        res, err = par.pmap(prog, lambda p, n: dc.explore(p, n), names)
        for n, e in err.items():
            ck.fail_broken("%s (%s): internal error: %s" % (n, cfg, e.strip().splitlines()[-1]))
        for n in names:
            r = res.get(n)
            if r is None or "skip" in r:
                continue
            if "budget" in r:
                ck.fail_broken("path-state budget exceeded: " + r["budget"]); continue
            nn = [o for o in r["outcomes"] if not o["exempt"]]
            tot += len(nn)
            per["%s@%s" % (n, cfg)] = dict(return_classes=len(nn), exempt=len(r["outcomes"]) - len(nn), paths=r["n_paths"])
            for f in judge(n, r):
                ck.report(f["key"], f["rule"], f["where"], f["text"] + ("" if cfg == "default" else " [no-slack configuration]"), dict(path=f["path"]))
        if nfun < 30:
            ck.fail_broken("only %d string-producing functions found (< 30)" % nfun)
    for k in list(per)[:6]:
        ck.sample(dict(function=k, **per[k]))
    fx = selftest(ck)
    cov = dict(explanation="All paths of the %d string-producing functions anchored by the property (%s): %d distinct non-exempt return classes (success and error) were checked for a "
               "known terminator in dest. Exempt returns (dest null, dmax zero, above the function's own limit, above the known object) are recognised from path facts."
               % (nfun, "+".join(configs), tot),
               obligations=tot, discharged=tot - len({r["key"] for r in ck.reports}), functions=nfun, per_function_sample={k: per[k] for k in list(per)[:10]},
               fixtures=fx, frontend=info, summary="%d functions, %d return classes" % (nfun, tot))
    return ck.finish(cov, ["C01: the terminating store lies inside [0, dmax)", "libc routines listed as terminating in sa/flags.py (fgets, asctime_r, vswprintf on success, ...)",
                           "an opaque library callee that receives dest honours C03 itself"])


def selftest(ck):
    fdir = os.path.join(frontend.VERIF, "fixtures")
    prog = Program(frontend.load_sources([os.path.join(fdir, "c04.c"), os.path.join(fdir, "c03.c")][1:]))
    out = {}
    want = {"fx3_good_s": 0, "fx3_trunc_s": 1, "fx3_cat_s": 0, "fx3_untouched_s": 1, "fx3_index_helper_s": 0, "fx3_wfmt_fail_open_s": 1, "fx3_wfmt_fail_reset_s": 0, "fx3_wfmt_probe_s": 0}
    for n, w in want.items():
        r = dc.explore(prog, n)
        got = len([f for f in judge(n, r) if ":success:" in f["key"] or n != "fx3_index_helper_s"]) if "outcomes" in r else -1
        out[n] = got
        if (got > 0) != bool(w):
            ck.fail_broken("fixture c03.c:%s: %d findings, expected %s" % (n, got, "some" if w else "none"))
    return out
