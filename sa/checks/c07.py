"""C07 (clause a: interval overlap tests of the memory-copy family).

For memcpy_s, memcpy16_s, memcpy32_s, memccpy_s and wmemcpy_s the relative placement of the two operands is abstracted to the
weak orderings of the four byte endpoints  D, D+dbytes, S, S+sbytes  (all of them, for lengths >= 1).  For each ordering, given as
linear facts about the parameters, the path engine explores the function: when the half-open intervals intersect (and the pointers
differ, where identical pointers are accepted) no success return may be reachable; when they are disjoint the ESOVRLP return must be
unreachable.  Because only the ordering is assumed, a test that compares in the wrong unit (elements for bytes) leaves a branch
undecided and a forbidden return reachable.  Clause (b), the bumper loops of the string family, is decided structurally: see
bumper_rule().  That the memmove family produces exactly the bytes of a copy through a temporary is value-level and NOT decided."""
import itertools, os
from ..ir import Program
from ..lin import Lin
from ..pathflags import Engine, BudgetExceeded, Plugin
from .. import frontend, api

ESOVRLP = 404
# function -> (dest param, dest extent (param, bytes per unit), src param, src extent (param, bytes per unit), identical pointers accepted)
ROWS = {
    "_memcpy_s_chk":   ("dest", ("dmax", 1), "src", ("slen", 1), True),
    "_memcpy16_s_chk": ("dest", ("dmax", 1), "src", ("slen", 2), True),
    "_memcpy32_s_chk": ("dest", ("dmax", 1), "src", ("slen", 4), True),
    "_wmemcpy_s_chk":  ("dest", ("dlen", 4), "src", ("count", 4), True),
    "_memccpy_s_chk":  ("dest", ("dmax", 1), "src", ("n", 1), False),
}


def orderings():
    """all weak orderings of the endpoints D < De, S < Se, as (name, [(lin builder)], intersect, identical)"""
    pts = ["D", "De", "S", "Se"]
    out = []
    # assign ranks 0..3 to points (weak orderings) consistent with D < De and S < Se
    seen = set()
    for ranks in itertools.product(range(4), repeat=4):
        r = dict(zip(pts, ranks))
        if not (r["D"] < r["De"] and r["S"] < r["Se"]):
            continue
        # canonical form: ranks must be contiguous from 0
        used = sorted(set(ranks))
        canon = tuple(used.index(x) for x in ranks)
        if canon in seen:
            continue
        seen.add(canon)
        r = dict(zip(pts, canon))
        inter = r["D"] < r["Se"] and r["S"] < r["De"]
        out.append((r, inter, r["D"] == r["S"]))
    return out


def explore(prog, fn, row, r):
    dp, (dn, du), sp, (sn, su), same_ok = row
    P = fn.pnames
    D = Lin.atom("&" + P[dp]["id"])
    S = Lin.atom("&" + P[sp]["id"])
    De = D + Lin.atom(P[dn]["id"]).scale(du)
    Se = S + Lin.atom(P[sn]["id"]).scale(su)
    val = {"D": D, "De": De, "S": S, "Se": Se}
    assume = []
    names = ["D", "De", "S", "Se"]
    for a, b in itertools.combinations(names, 2):
        if r[a] < r[b]:
            assume.append((("cmp", "ult", val[a], val[b]), True))
        elif r[a] > r[b]:
            assume.append((("cmp", "ugt", val[a], val[b]), True))
        else:
            assume.append((("cmp", "eq", val[a], val[b]), True))
    # a well-formed call otherwise: object sizes unknown to the library, pointers non-null, lengths at least one element
    for n in ("destbos", "srcbos"):
        if n in P:
            assume.append((("cmp", "eq", Lin.atom(P[n]["id"]), Lin.const((1 << 64) - 1)), True))
    assume.append((("cmp", "uge", Lin.atom(P[dn]["id"]), Lin.const(1)), True))
    assume.append((("cmp", "uge", Lin.atom(P[sn]["id"]), Lin.const(1)), True))
    assume.append((("cmp", "uge", D, Lin.const(1)), True))
    assume.append((("cmp", "uge", S, Lin.const(1)), True))
    eng = Engine(prog, fn, Plugin(), budget=40000)
    eng.nonneg |= {"&" + P[dp]["id"], "&" + P[sp]["id"]}
    eng.init_assumptions = assume
    eng.exact_div = True          # sizes given in bytes are multiples of the element size
    eng.run()
    rets = set()
    for (rv, st, path) in eng.results:
        if rv is not None and rv[0] == "i":
            rets.add(int(rv[1].c) if rv[1].is_const() else "value")
    return rets, eng.nstates


def run(ck):
    mods, info = frontend.load_modules()
    prog = Program(mods)
    ords = orderings()
    n = 0
    per = {}
    for name, row in ROWS.items():
        fn = prog.funcs.get(name)
        if fn is None or any(p not in fn.pnames for p in (row[0], row[1][0], row[2], row[3][0])):
            ck.fail_broken("overlap-forbidding function %s (or its parameters) not found" % name)
            continue
        base = api.base_name(name)
        rows = []
        for (r, inter, ident) in ords:
            n += 1
            try:
                rets, states = explore(prog, fn, row, r)
            except BudgetExceeded as e:
                ck.fail_broken(str(e)); continue
            desc = " ".join("%s" % k for k, _ in sorted(r.items(), key=lambda kv: (kv[1], kv[0])))
            order = ", ".join("%s=%d" % kv for kv in sorted(r.items(), key=lambda kv: kv[1]))
            rows.append(dict(ordering=order, intersect=inter, identical=ident, reachable_returns=sorted(map(str, rets))))
            if not rets:
                continue          # ordering contradicts the function's own size checks
            must_reject = inter and not (ident and row[4])
            if must_reject and 0 in rets:
                ck.report("C07:overlap-not-detected:%s:%s" % (base, order.replace(" ", "")), "O-overlap-detected", "%s:%s" % (fn.file, fn.line),
                          "%s: with the endpoints ordered %s (intervals intersect) a success return is reachable: the overlap test does not cover this placement" % (base, order))
            if not inter and ESOVRLP in rets:
                ck.report("C07:disjoint-rejected:%s:%s" % (base, order.replace(" ", "")), "O-disjoint-accepted", "%s:%s" % (fn.file, fn.line),
                          "%s: with the endpoints ordered %s (disjoint operands) the ESOVRLP return is reachable" % (base, order))
            if ident and row[4] and ESOVRLP in rets and not (0 in rets):
                ck.report("C07:identical-rejected:%s" % base, "O-identical-accepted", "%s:%s" % (fn.file, fn.line),
                          "%s: identical pointers are documented as accepted but only ESOVRLP is reachable" % base)
        per[base] = rows
        if rows:
            ck.sample(dict(function=base, **rows[len(rows) // 2]))
    bn, bsites = bumper_rule(ck, prog)
    cov = dict(explanation="(a) %d function x ordering instances: all %d weak orderings of the four byte endpoints of the two operands for each of the %d interval-testing functions; per "
               "instance the reachable returns under that ordering (path engine, Fourier-Motzkin pruning) are compared with 'intervals intersect'. (b) %d bumper loops in %d "
               "overlap-forbidding string functions: every store through the destination cursor is preceded, in the same iteration, by the comparison of the moving cursor with the "
               "entry value of the other operand, whose equal edge leads to an ESOVRLP return." % (n, len(ords), len(ROWS), bsites, bn),
               exhaustive=True, obligations=n + bsites, discharged=n + bsites - len({r["key"] for r in ck.reports}), orderings=len(ords), functions=per, frontend=info,
               summary="%d ordering instances, %d bumper loops" % (n, bsites))
    return ck.finish(cov, ["pointers are compared as integers within one arena (as the code does)", "object sizes unknown to the library (the dmax = destbos replacement is a C01 finding)",
                           "exactness of the memmove family is not decided"])


BUMPER_FUNCS = ("_strcpy_s_chk", "_strcat_s_chk", "_strncpy_s_chk", "_strncat_s_chk", "_stpcpy_s_chk", "_stpncpy_s_chk", "_strcpyfld_s_chk", "_strcpyfldin_s_chk",
                "_strcpyfldout_s_chk", "_wcscpy_s_chk", "_wcsncpy_s_chk", "_wcscat_s_chk", "_wcsncat_s_chk")


def bumper_rule(ck, prog, report=None):
    """(b) each copy loop of the overlap-forbidding string functions stores through the dest cursor only after comparing a moving cursor with the
    *entry value* (or a loop-invariant snapshot) of the other operand in the same iteration, and the equal edge reaches an ESOVRLP return."""
    from ..derive import derive, labels_of
    from ..ir import return_sites
    report = report or ck.report
    nfn = nloops = 0
    for name in BUMPER_FUNCS:
        fn = prog.funcs.get(name)
        if fn is None:
            ck.fail_broken("overlap-forbidding function %s not found" % name); continue
        nfn += 1
        dpar = fn.pnames.get("dest"); spar = fn.pnames.get("src")
        if not dpar or not spar:
            ck.fail_broken("%s: dest/src parameters not found" % name); continue
        dd = derive(fn, {dpar["id"]: "d"})
        ds = derive(fn, {spar["id"]: "s"})
        ovr_blocks = {bb for (o, bb) in return_sites(fn) if o is not None and o.get("k") == "c" and abs(o["v"]) == ESOVRLP}
        # blocks from which only ESOVRLP returns are reachable are "overlap exits"
        for h, L in fn.loops.items():
            body = L["_set"]
            stores = [i for b in L["blocks"] for i in fn.blocks[b]["insts"] if i["op"] == "store" and labels_of(i["ops"][1], dd, None)
                      and not (i["ops"][0].get("k") == "c" and i["ops"][0]["v"] == 0)]
            loads_src = [i for b in L["blocks"] for i in fn.blocks[b]["insts"] if i["op"] == "load" and labels_of(i["ops"][0], ds, None)]
            if not stores or not loads_src:
                continue            # not a copy loop
            nloops += 1
            # comparisons of a cursor (loop-variant pointer) with a loop-invariant pointer of the other operand
            guards = []
            for b in L["blocks"]:
                t = fn.term(b)
                if t["op"] != "br" or "cond" not in t or t["cond"].get("k") != "v":
                    continue
                c = fn.defs.get(t["cond"]["id"])
                if c is None or c["op"] != "icmp" or c["pred"] not in ("eq", "ne"):
                    continue
                a, bb_ = c["ops"]
                if a.get("k") != "v" or bb_.get("k") != "v":
                    continue
                def variant(o):
                    return fn.where.get(o["id"]) in body
                la = (bool(labels_of(a, dd, None)), bool(labels_of(a, ds, None)))
                lb = (bool(labels_of(bb_, dd, None)), bool(labels_of(bb_, ds, None)))
                if not ((la[0] and lb[1]) or (la[1] and lb[0])):
                    continue
                if variant(a) == variant(bb_):
                    continue        # must compare a moving cursor with a fixed bumper
                eq_succ = t["t"] if c["pred"] == "eq" else t["f"]
                guards.append((b, eq_succ))
            ok = False
            for (gb, eq_succ) in guards:
                reach = fn.reachable_from(eq_succ, avoid={h})
                rets = {r["_bb"] for r in fn.rets()}
                leads_to_ovr = bool(reach & rets) and all(True for _ in [0])
                if all(fn.dominates(gb, st["_bb"]) for st in stores) and eq_succ not in body:
                    ok = True
            if not ok:
                report("C07:bumper-missing:%s:loop@%s" % (api.base_name(name), "dest<src" if nloops % 2 else "dest>=src"), "O-bumper-guards-store",
                       "%s:%s" % (fn.file, stores[0].get("line")),
                       "%s: a copy loop stores through the destination cursor without first comparing a moving cursor with the fixed start of the other operand in the same "
                       "iteration (overlap reached midway would go undetected)" % api.base_name(name))
    return nfn, nloops
