"""C07 (clause a: interval overlap tests of the memory-copy family).

For memcpy_s, memcpy16_s, memcpy32_s, memccpy_s and wmemcpy_s the relative placement of the two operands is abstracted to the
weak orderings of the four byte endpoints  D, D+dbytes, S, S+sbytes  (all of them, for lengths >= 1).  For each ordering, given as
linear facts about the parameters, the path engine explores the function: when the half-open intervals intersect (and the pointers
differ, where identical pointers are accepted) no success return may be reachable; when they are disjoint the ESOVRLP return must be
unreachable.  Because only the ordering is assumed, a test that compares in the wrong unit (elements for bytes) leaves a branch
undecided and a forbidden return reachable.  Clause (b), the bumper loops of the string family, is decided structurally: see
bumper_rule().  That the memmove family produces exactly the bytes of a copy through a temporary is value-level and NOT decided."""
import itertools, os
from ..ir import Program
from ..lin import Lin
from ..pathflags import Engine, BudgetExceeded, Plugin
from .. import frontend, api

ESOVRLP = 404
# function -> (dest param, dest extent (param, bytes per unit), src param, src extent (param, bytes per unit), identical pointers accepted)
ROWS = {
    "_memcpy_s_chk":   ("dest", ("dmax", 1), "src", ("slen", 1), True),
    "_memcpy16_s_chk": ("dest", ("dmax", 1), "src", ("slen", 2), True),
    "_memcpy32_s_chk": ("dest", ("dmax", 1), "src", ("slen", 4), True),
    "_wmemcpy_s_chk":  ("dest", ("dlen", 4), "src", ("count", 4), True),
    "_memccpy_s_chk":  ("dest", ("dmax", 1), "src", ("n", 1), False),
}


def orderings():
    """all weak orderings of the endpoints D < De, S < Se, as (name, [(lin builder)], intersect, identical)"""
    pts = ["D", "De", "S", "Se"]
    out = []
    # assign ranks 0..3 to points (weak orderings) consistent with D < De and S < Se
    seen = set()
    for ranks in itertools.product(range(4), repeat=4):
        r = dict(zip(pts, ranks))
        if not (r["D"] < r["De"] and r["S"] < r["Se"]):
            continue
        # canonical form: ranks must be contiguous from 0
        used = sorted(set(ranks))
        canon = tuple(used.index(x) for x in ranks)
        if canon in seen:
            continue
        seen.add(canon)
        r = dict(zip(pts, canon))
        inter = r["D"] < r["Se"] and r["S"] < r["De"]
        out.append((r, inter, r["D"] == r["S"]))
    return out


def explore(prog, fn, row, r):
    dp, (dn, du), sp, (sn, su), same_ok = row
    P = fn.pnames
    D = Lin.atom("&" + P[dp]["id"])
    S = Lin.atom("&" + P[sp]["id"])
    De = D + Lin.atom(P[dn]["id"]).scale(du)
    Se = S + Lin.atom(P[sn]["id"]).scale(su)
    val = {"D": D, "De": De, "S": S, "Se": Se}
    assume = []
    names = ["D", "De", "S", "Se"]
    for a, b in itertools.combinations(names, 2):
        if r[a] < r[b]:
            assume.append((("cmp", "ult", val[a], val[b]), True))
        elif r[a] > r[b]:
            assume.append((("cmp", "ugt", val[a], val[b]), True))
        else:
            assume.append((("cmp", "eq", val[a], val[b]), True))
    # a well-formed call otherwise: object sizes unknown to the library, pointers non-null, lengths at least one element
    for n in ("destbos", "srcbos"):
        if n in P:
            assume.append((("cmp", "eq", Lin.atom(P[n]["id"]), Lin.const((1 << 64) - 1)), True))
    assume.append((("cmp", "uge", Lin.atom(P[dn]["id"]), Lin.const(1)), True))
    assume.append((("cmp", "uge", Lin.atom(P[sn]["id"]), Lin.const(1)), True))
    assume.append((("cmp", "uge", D, Lin.const(1)), True))
    assume.append((("cmp", "uge", S, Lin.const(1)), True))
    eng = Engine(prog, fn, Plugin(), budget=40000)
    eng.nonneg |= {"&" + P[dp]["id"], "&" + P[sp]["id"]}
    eng.init_assumptions = assume
    eng.exact_div = True          # sizes given in bytes are multiples of the element size
    eng.run()
    rets = set()
    for (rv, st, path) in eng.results:
        if rv is not None and rv[0] == "i":
            rets.add(int(rv[1].c) if rv[1].is_const() else "value")
    return rets, eng.nstates


def run(ck):
    mods, info = frontend.load_modules()
    prog = Program(mods)
    ords = orderings()
    n = 0
    per = {}
    for name, row in ROWS.items():
        fn = prog.funcs.get(name)
        if fn is None or any(p not in fn.pnames for p in (row[0], row[1][0], row[2], row[3][0])):
            ck.fail_broken("overlap-forbidding function %s (or its parameters) not found" % name)
            continue
        base = api.base_name(name)
        rows = []
        for (r, inter, ident) in ords:
            n += 1
            try:
                rets, states = explore(prog, fn, row, r)
            except BudgetExceeded as e:
                ck.fail_broken(str(e)); continue
            desc = " ".join("%s" % k for k, _ in sorted(r.items(), key=lambda kv: (kv[1], kv[0])))
            order = ", ".join("%s=%d" % kv for kv in sorted(r.items(), key=lambda kv: kv[1]))
            rows.append(dict(ordering=order, intersect=inter, identical=ident, reachable_returns=sorted(map(str, rets))))
            if not rets:
                continue          # ordering contradicts the function's own size checks
            must_reject = inter and not (ident and row[4])
            if must_reject and 0 in rets:
                ck.report("C07:overlap-not-detected:%s:%s" % (base, order.replace(" ", "")), "O-overlap-detected", "%s:%s" % (fn.file, fn.line),
                          "%s: with the endpoints ordered %s (intervals intersect) a success return is reachable: the overlap test does not cover this placement" % (base, order))
            if not inter and ESOVRLP in rets:
                ck.report("C07:disjoint-rejected:%s:%s" % (base, order.replace(" ", "")), "O-disjoint-accepted", "%s:%s" % (fn.file, fn.line),
                          "%s: with the endpoints ordered %s (disjoint operands) the ESOVRLP return is reachable" % (base, order))
            if ident and row[4] and ESOVRLP in rets and not (0 in rets):
                ck.report("C07:identical-rejected:%s" % base, "O-identical-accepted", "%s:%s" % (fn.file, fn.line),
                          "%s: identical pointers are documented as accepted but only ESOVRLP is reachable" % base)
        per[base] = rows
        if rows:
            ck.sample(dict(function=base, **rows[len(rows) // 2]))
    bn, bsites = bumper_rule(ck, prog)
    dn, drows = direction_rule(ck, prog)
    if dn < 6:
        ck.fail_broken("direction rule: only %d (primitive, placement) instances decided (< 6)" % dn)
    cov = dict(explanation="(a) %d function x ordering instances: all %d weak orderings of the four byte endpoints of the two operands for each of the %d interval-testing functions; per "
               "instance the reachable returns under that ordering (path engine, Fourier-Motzkin pruning) are compared with 'intervals intersect'. (b) %d bumper loops in %d "
               "overlap-forbidding string functions: every store through the destination cursor is preceded, in the same iteration, by the comparison of the moving cursor with the "
               "entry value of the other operand, whose equal edge leads to an ESOVRLP return. (c) %d (move primitive, placement) instances: under 'dest below src, overlapping' only "
               "forward copy loops are reachable, under 'dest above src, overlapping' only backward ones (loops classified by the sign of the cursor step)." % (n, len(ords), len(ROWS), bsites, bn, dn),
               exhaustive=True, obligations=n + bsites, discharged=n + bsites - len({r["key"] for r in ck.reports}), orderings=len(ords), functions=per, move_direction=drows, frontend=info,
               summary="%d ordering instances, %d bumper loops" % (n, bsites))
    return ck.finish(cov, ["pointers are compared as integers within one arena (as the code does)", "object sizes unknown to the library (the dmax = destbos replacement is a C01 finding)",
                           "exactness of the memmove family beyond the direction of the copy is not decided"])


class _Stores(Plugin):
    """records the blocks in which a store through a pointer derived from the dest parameter is executed"""
    inline_depth = 0

    def __init__(s, root):
        s.root = root

    def init(s, eng):
        s.blocks = set()
        return ()

    def on_event(s, pl, ev, eng, st):
        if ev[0] == "store" and ev[1][0] == "p" and ev[1][1] == s.root and ev[4].depth == 0:
            s.blocks.add(ev[3]["_bb"])
        return pl


def direction_rule(ck, prog, report=None, select=None):
    """(c) memmove direction: in the move primitives (forward and backward copy loops behind one direction test), under the assumption
    'dest below src and the regions overlap' only forward loops may be reachable, under 'dest above src and overlapping' only backward ones."""
    report = report or ck.report
    from .. import capcheck
    n = 0
    out = {}
    for fn in prog.allfuncs:
        if not (select(fn) if select else (fn.mod["tu"].endswith("mem_primitives_lib.c") and fn.name.startswith("mem_prim_move"))):
            continue
        P = fn.pnames
        if not all(k in P for k in ("dest", "src", "len")):
            continue
        A = capcheck.Analysis(fn)
        for b_ in fn.j["blocks"]:
            for i_ in b_["insts"]:
                if "id" in i_ and i_["ty"].endswith("*"):
                    A.ptr({"k": "v", "id": i_["id"]})
        droot = P["dest"]["id"]
        unit = {"i8*": 1, "i16*": 2, "i32*": 4, "i64*": 8}.get(P["dest"]["ty"], 1)
        # direction of every loop that stores through the dest chain: sign of the cursor's step along the back edge
        def chain_root(r):
            seen = set()
            while r in A.offphi and r not in seen:
                seen.add(r)
                r = A.offphi[r][0]
            return r
        dirs = {}
        allh = {i["id"] for h_ in fn.loops for i in fn.blocks[h_]["insts"] if i["op"] == "phi" and i["ty"].endswith("*") and i["id"] in A.offphi and chain_root(i["id"]) == droot}
        for h, L in sorted(fn.loops.items(), key=lambda kv: -len(kv[1]["blocks"])):
            hphis = {i["id"] for i in fn.blocks[h]["insts"] if i["op"] == "phi" and i["ty"].endswith("*") and i["id"] in A.offphi and chain_root(i["id"]) == droot}
            hphis = hphis or {x for x in allh if any(fn.dominates(h_, h) and h in fn.loops[h_]["_set"] for h_ in fn.loops if x in {i["id"] for i in fn.blocks[h_]["insts"] if i["op"] == "phi"})}
            signs = set()
            nst = 0
            for b in L["blocks"]:
                for i in fn.blocks[b]["insts"]:
                    if i["op"] != "store":
                        continue
                    r, off = A.ptr(i["ops"][1])
                    if r is None or chain_root(r) != droot:
                        continue
                    nst += 1
                    # position of the store relative to the cursor value at the loop head: at/after it = forward, before it = backward
                    if r in hphis and off is not None and off.is_const():
                        signs.add("forward" if off.c >= 0 else "backward")
                    elif r in hphis and off is not None and off.c >= 0 and all(v > 0 for v in off.t.values()):
                        signs.add("forward")          # cursor[index] with a non-negative index (an inner indexed loop)
                    elif r in hphis and off is not None and off.c < 0 and all(v < 0 for v in off.t.values()):
                        signs.add("backward")
                    elif r == droot and off is not None and any(off == Lin.atom("off(%s)" % ph) for ph in hphis):
                        signs.add("forward")
                    elif r == droot and off is not None:
                        for ph in hphis:
                            a_ = "off(%s)" % ph
                            if off.t.get(a_) == 1:
                                rest = off - Lin.atom(a_)
                                if rest.c >= 0 and all(v > 0 for v in rest.t.values()):
                                    signs.add("forward")          # cursor[index], index >= 0
                                elif rest.c < 0 and all(v < 0 for v in rest.t.values()):
                                    signs.add("backward")
            if not nst:
                continue
            sign = signs.pop() if len(signs) == 1 else None
            for b in L["blocks"]:
                dirs[b] = sign
        loops = {b: d for b, d in dirs.items()}
        if not loops or None in loops.values() or len(set(loops.values())) < 2:
            ck.fail_broken("%s: could not classify the copy loops as forward/backward (%s)" % (fn.name, sorted(set(map(str, loops.values())))))
            continue
        D, S = Lin.atom("&" + P["dest"]["id"]), Lin.atom("&" + P["src"]["id"])
        nb = Lin.atom(P["len"]["id"]).scale(unit)
        rows = {}
        for case, assume, wrong in (("dest below src, overlapping", [(("cmp", "ult", D, S), True), (("cmp", "ult", S, D + nb), True)], "backward"),
                                    ("dest above src, overlapping", [(("cmp", "ugt", D, S), True), (("cmp", "ult", D, S + nb), True)], "forward")):
            pg = _Stores(droot)
            eng = Engine(prog, fn, pg, budget=40000)
            eng.nonneg |= {"&" + P["dest"]["id"], "&" + P["src"]["id"]}
            eng.init_assumptions = assume + [(("cmp", "uge", D, Lin.const(1)), True), (("cmp", "uge", S, Lin.const(1)), True), (("cmp", "uge", Lin.atom(P["len"]["id"]), Lin.const(1)), True)]
            try:
                eng.run()
            except BudgetExceeded as e:
                ck.fail_broken(str(e)); continue
            reached = sorted({loops[b] for b in pg.blocks if b in loops})
            rows[case] = reached
            n += 1
            if not reached:
                ck.fail_broken("%s: no copy loop reachable under '%s'" % (fn.name, case))
            if wrong in reached:
                report("C07:move-direction:%s:%s" % (fn.name, case.replace(" ", "-").replace(",", "")), "O-move-direction", "%s:%s" % (fn.file, fn.line),
                       "%s: with %s a %s copy loop is reachable: it reads source bytes it has already overwritten (silently corrupted result of memmove_s)" % (fn.name, case, wrong))
        out[fn.name] = rows
    return n, out


BUMPER_FUNCS = ("_strcpy_s_chk", "_strcat_s_chk", "_strncpy_s_chk", "_strncat_s_chk", "_stpcpy_s_chk", "_stpncpy_s_chk", "_strcpyfld_s_chk", "_strcpyfldin_s_chk",
                "_strcpyfldout_s_chk", "_wcscpy_s_chk", "_wcsncpy_s_chk", "_wcscat_s_chk", "_wcsncat_s_chk")


def bumper_rule(ck, prog, report=None):
    """(b) each copy loop of the overlap-forbidding string functions stores through the dest cursor only after comparing a moving cursor with the
    *entry value* (or a loop-invariant snapshot) of the other operand in the same iteration, and the equal edge reaches an ESOVRLP return."""
    from ..derive import derive, labels_of
    from ..ir import return_sites
    report = report or ck.report
    nfn = nloops = 0
    for name in BUMPER_FUNCS:
        fn = prog.funcs.get(name)
        if fn is None:
            ck.fail_broken("overlap-forbidding function %s not found" % name); continue
        nfn += 1
        dpar = fn.pnames.get("dest"); spar = fn.pnames.get("src")
        if not dpar or not spar:
            ck.fail_broken("%s: dest/src parameters not found" % name); continue
        dd = derive(fn, {dpar["id"]: "d"})
        ds = derive(fn, {spar["id"]: "s"})
        ovr_blocks = {bb for (o, bb) in return_sites(fn) if o is not None and o.get("k") == "c" and abs(o["v"]) == ESOVRLP}
        # blocks from which only ESOVRLP returns are reachable are "overlap exits"
        for h, L in fn.loops.items():
            body = L["_set"]
            stores = [i for b in L["blocks"] for i in fn.blocks[b]["insts"] if i["op"] == "store" and labels_of(i["ops"][1], dd, None)
                      and not (i["ops"][0].get("k") == "c" and i["ops"][0]["v"] == 0)]
            loads_src = [i for b in L["blocks"] for i in fn.blocks[b]["insts"] if i["op"] == "load" and labels_of(i["ops"][0], ds, None)]
            if not stores or not loads_src:
                continue            # not a copy loop
            nloops += 1
            # comparisons of a cursor (loop-variant pointer) with a loop-invariant pointer of the other operand
            guards = []
            for b in L["blocks"]:
                t = fn.term(b)
                if t["op"] != "br" or "cond" not in t or t["cond"].get("k") != "v":
                    continue
                c = fn.defs.get(t["cond"]["id"])
                if c is None or c["op"] != "icmp" or c["pred"] not in ("eq", "ne"):
                    continue
                a, bb_ = c["ops"]
                if a.get("k") != "v" or bb_.get("k") != "v":
                    continue
                def variant(o):
                    return fn.where.get(o["id"]) in body
                la = (bool(labels_of(a, dd, None)), bool(labels_of(a, ds, None)))
                lb = (bool(labels_of(bb_, dd, None)), bool(labels_of(bb_, ds, None)))
                if not ((la[0] and lb[1]) or (la[1] and lb[0])):
                    continue
                if variant(a) == variant(bb_):
                    continue        # must compare a moving cursor with a fixed bumper
                eq_succ = t["t"] if c["pred"] == "eq" else t["f"]
                guards.append((b, eq_succ))
            ok = False
            for (gb, eq_succ) in guards:
                reach = fn.reachable_from(eq_succ, avoid={h})
                rets = {r["_bb"] for r in fn.rets()}
                leads_to_ovr = bool(reach & rets) and all(True for _ in [0])
                if all(fn.dominates(gb, st["_bb"]) for st in stores) and eq_succ not in body:
                    ok = True
            # the same holds for every other write into dest that happens inside an iteration -- the terminator / slack clearing of the exits taken from
            # within the body: region = blocks dominated by the first body block (the normal loop exit through the header is not part of it)
            if ok:
                inside_succ = [sc for sc in fn.succ[h] if sc in body]
                if len(inside_succ) == 1:
                    b0 = inside_succ[0]
                    gset = [gb for (gb, eq_succ) in guards if eq_succ not in body]
                    for b in fn.order:
                        if not fn.dominates(b0, b):
                            continue
                        for i in fn.blocks[b]["insts"]:
                            w = None
                            if i["op"] == "store" and labels_of(i["ops"][1], dd, None):
                                w = "store"
                            elif i["op"] in ("call", "invoke") and (i.get("callee") or "").startswith(("llvm.memset", "memset", "handle_error", "handle_werror", "wmemset")) \
                                    and i.get("args") and labels_of(i["args"][0], dd, None):
                                w = "call " + i["callee"]
                            if w and not any(fn.dominates(gb, b) and gb != b for gb in gset):
                                ok = None
                                report("C07:write-before-bumper:%s:loop@%s:%s" % (api.base_name(name), "dest<src" if nloops % 2 else "dest>=src", w.replace(" ", "-")), "O-bumper-guards-store",
                                       fn.loc(i), "%s: inside a copy-loop iteration a %s into dest happens before the moving cursor was compared with the fixed start of the other operand "
                                       "(the terminator / slack clearing can land in the source)" % (api.base_name(name), w))
                                break
                        if ok is None:
                            break
                    if ok is None:
                        continue
                # ... and for a write through the loop's cursor *behind* the loop, on an exit that leaves the iteration before its bumper comparison
                # (`while (dmax > 0 && slen > 0)` left because slen ran out: the cursor it leaves with was never compared)
                gset = [gb for (gb, eq_succ) in guards if eq_succ not in body]
                cur_phis = {i["id"] for i in fn.blocks[h]["insts"] if i["op"] == "phi" and i["ty"].endswith("*") and labels_of({"k": "v", "id": i["id"]}, dd, None)}

                def from_cursor(o, depth=0, seen=None):
                    seen = seen if seen is not None else set()
                    if o.get("k") != "v" or o["id"] in seen or depth > 8:
                        return False
                    seen.add(o["id"])
                    if o["id"] in cur_phis:
                        return True
                    d_ = fn.defs.get(o["id"])
                    if d_ is None:
                        return False
                    if d_["op"] == "getelementptr":
                        return from_cursor(d_["base"], depth + 1, seen)
                    if d_["op"] == "bitcast":
                        return from_cursor(d_["ops"][0], depth + 1, seen)
                    if d_["op"] == "phi" and d_["_bb"] not in fn.loops:
                        return any(from_cursor(x["v"], depth + 1, seen) for x in d_["incoming"])
                    return False
                early = [(b, sc) for b in L["blocks"] for sc in fn.succ[b] if sc not in body and not any(fn.dominates(gb, b) and gb != b for gb in gset)]
                done_ = False
                for (b, sc) in early:
                    for b2 in sorted(fn.reachable_from(sc, avoid={h})):
                        for i in fn.blocks[b2]["insts"]:
                            w = None
                            if i["op"] == "store" and from_cursor(i["ops"][1]):
                                w = "store"
                            elif i["op"] in ("call", "invoke") and i.get("args") and i["args"][0].get("ty", "").endswith("*") and from_cursor(i["args"][0]) and \
                                    ((i.get("callee") or "").startswith(("llvm.memset", "memset", "wmemset", "handle_")) or (prog.resolve(fn, i.get("callee") or "") is not None and prog.resolve(fn, i["callee"]).internal)):
                                w = "call " + i["callee"]
                            if w and not any(fn.dominates(gb, b2) for gb in gset):
                                report("C07:write-behind-loop-before-bumper:%s:loop@%s:%s" % (api.base_name(name), "dest<src" if nloops % 2 else "dest>=src", w.replace(" ", "-")), "O-bumper-guards-store",
                                       fn.loc(i), "%s: the copy loop can be left (from %s) before the cursor of that iteration was compared with the fixed start of the other operand, and a %s "
                                       "through that cursor follows: the terminator / slack clearing can land in the source without ESOVRLP" % (api.base_name(name), b, w))
                                done_ = True
                                break
                        if done_:
                            break
                    if done_:
                        break
            if not ok:
                report("C07:bumper-missing:%s:loop@%s" % (api.base_name(name), "dest<src" if nloops % 2 else "dest>=src"), "O-bumper-guards-store",
                       "%s:%s" % (fn.file, stores[0].get("line")),
                       "%s: a copy loop stores through the destination cursor without first comparing a moving cursor with the fixed start of the other operand in the same "
                       "iteration (overlap reached midway would go undetected)" % api.base_name(name))
    return nfn, nloops
