"""C10 (clause: operands are never modified) -- in every comparison / search / span / length / classification function no
store, writing callee effect or clearing helper is applied to a pointer derived from an operand parameter.
Equality of the results with strcmp/strstr/... is value-level and is NOT decided here."""
import os
from ..ir import Program
from ..derive import derive, labels_of, Summaries
from ..effects import external_effect
from .. import frontend, api, scan

MIN_FUNCS = 39


def write_sites(prog, summ, fn, pidx):
    par = fn.j["params"][pidx]
    der = derive(fn, {par["id"]: pidx}, through_int=True, retmap=summ.retmap(fn))
    out = []
    for i in fn.insts():
        if i["op"] == "store" and labels_of(i["ops"][1], der, None):
            out.append((i, "store through %s" % par["name"]))
        elif i["op"] in ("call", "invoke"):
            for (k, l, kind) in summ.call_effects(fn, i, der, None):
                if kind == "w":
                    out.append((i, "%s writes through its argument %d, which is derived from %s" % (i.get("callee", "<indirect>"), k, par["name"])))
                elif kind == "unmodelled":
                    out.append((i, "UNMODELLED:%s" % i.get("callee")))
    return out


def analyse(ck, prog, funcs, report):
    summ = Summaries(prog)
    n_ops = 0
    rows = {}
    for fn in funcs:
        ops = [k for k, p in enumerate(fn.j["params"]) if p["ty"].endswith("*") and p["name"] in api.OPERAND_NAMES]
        rows[fn.name] = [fn.j["params"][k]["name"] for k in ops]
        for k in ops:
            n_ops += 1
            key = (fn.mod["tu"], fn.name)
            if k not in summ.w.get(key, ()):
                # cross-check with the local site scan (must agree with the summary)
                continue
            for (i, how) in write_sites(prog, summ, fn, k):
                if how.startswith("UNMODELLED:"):
                    ck.fail_broken("%s passes operand %s to unmodelled callee %s" % (fn.name, fn.j["params"][k]["name"], how[11:]))
                    continue
                callee = i.get("callee", "store")
                report("C10:operand-modified:%s:%s:%s" % (api.base_name(fn.name), fn.j["params"][k]["name"], callee if i["op"] != "store" else "store"),
                       "Q-operands-read-only", fn.loc(i), "%s modifies its operand: %s" % (api.base_name(fn.name), how))
    return n_ops, rows


MIN_SCAN_LOOPS = 30
RESULT_PARAMS = ("diff", "indicator", "resultp")


def narrowing_rule(ck, funcs, report):
    """clause: the ordering a comparison function reports is the difference of the first differing pair, computed without losing bits.
    Where the value stored through the result parameter is (an extension of) a truncation of the difference of two loaded elements, its
    sign is no longer the sign of the difference once the elements lie more than half the narrow range apart -- reported.
    (Which pair is compared, and in which signedness the characters are read, is not judged here.)"""
    n = 0
    for fn in funcs:
        outs = [fn.pnames[p]["id"] for p in RESULT_PARAMS if p in fn.pnames and fn.pnames[p]["ty"] == "i32*"]
        if not outs:
            continue
        for i in fn.insts():
            if i["op"] != "store" or i["ops"][1].get("k") != "v" or i["ops"][1]["id"] not in outs or i["ops"][0].get("k") != "v":
                continue
            n += 1
            v, hops, narrowed = i["ops"][0], 0, None
            while v.get("k") == "v" and hops < 6:
                d = fn.defs.get(v["id"])
                if d is None:
                    break
                if d["op"] == "trunc" and d["bits"] < 32:
                    narrowed = d
                if d["op"] in ("sext", "zext", "trunc"):
                    v = d["ops"][0]; hops += 1
                    continue
                if d["op"] == "sub" and narrowed is not None:
                    # operands: (extensions of) loaded elements at least as wide as the narrowed value
                    def elem_bits(o):
                        dd = fn.defs.get(o.get("id")) if o.get("k") == "v" else None
                        while dd is not None and dd["op"] in ("sext", "zext"):
                            dd = fn.defs.get(dd["ops"][0].get("id"))
                        return dd["bits"] if dd is not None and dd["op"] == "load" and "bits" in dd else None
                    eb = [elem_bits(o) for o in d["ops"]]
                    if all(b is not None and b >= narrowed["bits"] for b in eb):
                        report("C10:difference-narrowed:%s" % api.base_name(fn.name), "R-difference-not-narrowed", fn.loc(narrowed),
                               "%s stores the difference of two %d-bit elements after truncating it to %d bits: for elements more than 0x%x apart the sign of the stored value is the opposite of the ordering"
                               % (api.base_name(fn.name), eb[0], narrowed["bits"], (1 << (narrowed["bits"] - 1)) - 1))
                break
    return n




def sentinel_rule(ck, funcs, report):
    """clause: 'nothing found' is told apart from every real answer.  A loop-carried value P that starts at v0 and, inside the loop, takes
    the current value of a cursor C that *also* starts at v0 (through phis/selects only: `last = p`, `last = i`) holds v0 both when
    nothing was recorded and when the first element was: a comparison of P with v0 cannot decide 'found' -- reported (the position-0 answer
    is lost or invented).  A cursor is a header phi stepping by a constant.  Flags, NULL-initialised trackers and counters (P+1) do not match."""
    trackers = 0
    for fn in funcs:
        for h, L in fn.loops.items():
            inside = L["_set"]
            phis = [i for i in fn.blocks[h]["insts"] if i["op"] == "phi"]

            def init(p):
                outs = [x["v"] for x in p["incoming"] if x["bb"] not in inside]
                return outs[0] if len(outs) == 1 else None

            def strip(o):
                while o.get("k") == "v" and fn.defs.get(o["id"], {}).get("op") in ("bitcast",):
                    o = fn.defs[o["id"]]["ops"][0]
                return o

            def same(a, b):
                a, b = strip(a), strip(b)
                if a.get("k") != b.get("k"):
                    return False
                return a.get("id") == b.get("id") if a.get("k") == "v" else (a.get("v") == b.get("v") if a.get("k") == "c" else a.get("k") == "null")

            def advances(c):
                for x in c["incoming"]:
                    if x["bb"] in inside and x["v"].get("k") == "v":
                        d = fn.defs.get(x["v"]["id"])
                        if d is not None and ((d["op"] == "getelementptr" and d["base"].get("id") == c["id"] and not d.get("terms") and d.get("coff")) or
                                              (d["op"] in ("add", "sub") and d["ops"][0].get("id") == c["id"] and d["ops"][1].get("k") == "c")):
                            return True
                return False
            for P in phis:
                v0 = init(P)
                if v0 is None or v0.get("k") == "null":
                    continue
                cursors = {C["id"] for C in phis if C is not P and init(C) is not None and same(init(C), v0) and advances(C)}
                if not cursors:
                    continue

                def reaches(o, seen):
                    o = strip(o)
                    if o.get("k") != "v" or o["id"] in seen:
                        return False
                    if o["id"] in cursors:
                        return True
                    seen.add(o["id"])
                    d = fn.defs.get(o["id"])
                    if d is None or d.get("_bb") not in inside or d is P:
                        return False
                    if d["op"] == "phi":
                        return any(reaches(x["v"], seen) for x in d["incoming"])
                    if d["op"] == "select":
                        return reaches(d["ops"][1], seen) or reaches(d["ops"][2], seen)
                    return False
                if not any(reaches(x["v"], set()) for x in P["incoming"] if x["bb"] in inside):
                    continue
                trackers += 1
                for i in fn.insts():
                    if i["op"] == "icmp" and i["pred"] in ("eq", "ne"):
                        a, b = strip(i["ops"][0]), strip(i["ops"][1])
                        if (a.get("id") == P["id"] and same(b, v0)) or (b.get("id") == P["id"] and same(a, v0)):
                            report("C10:sentinel-collides-with-answer:%s:%s" % (api.base_name(fn.name), P["id"].lstrip("%")), "R-not-found-distinct-from-answers", fn.loc(i),
                                   "%s decides by comparing %s with its initial value, but the loop records the cursor in it and the cursor starts at that same value: a match at the first position looks like no match"
                                   % (api.base_name(fn.name), P["id"]))
    return trackers


def signedness_rule(ck, funcs, report):
    """clause: bytes are compared as unsigned char (C11 7.24.4: "the sign of a nonzero value returned by the comparison functions is
    determined by the sign of the difference between the values of the first pair of characters (both interpreted as unsigned char)").
    Where the value stored through the result parameter is (an extension of) the difference of two loaded 8-bit elements, each element
    must reach the subtraction zero-extended; a sign-extended byte orders 0x80..0xff below 0x00..0x7f -- reported.  Wider elements
    (wchar_t, uint16_t, uint32_t) are not judged: their signedness is the element type's own."""
    n = 0
    for fn in funcs:
        outs = [fn.pnames[p]["id"] for p in RESULT_PARAMS if p in fn.pnames and fn.pnames[p]["ty"] == "i32*"]
        if not outs:
            continue
        for i in fn.insts():
            if i["op"] != "store" or i["ops"][1].get("k") != "v" or i["ops"][1]["id"] not in outs or i["ops"][0].get("k") != "v":
                continue
            v, hops = i["ops"][0], 0
            while v.get("k") == "v" and hops < 6:
                d = fn.defs.get(v["id"])
                if d is None:
                    break
                if d["op"] in ("sext", "zext", "trunc"):
                    v = d["ops"][0]; hops += 1
                    continue
                if d["op"] == "sub":
                    exts = []
                    for o in d["ops"]:
                        e = fn.defs.get(o.get("id")) if o.get("k") == "v" else None
                        if e is None or e["op"] not in ("sext", "zext"):
                            break
                        l = fn.defs.get(e["ops"][0].get("id")) if e["ops"][0].get("k") == "v" else None
                        if l is None or l["op"] != "load" or l.get("bits") != 8:
                            break
                        exts.append(e)
                    if len(exts) == 2:
                        n += 1
                        bad = [e for e in exts if e["op"] == "sext"]
                        if bad:
                            report("C10:bytes-compared-signed:%s" % api.base_name(fn.name), "R-bytes-compared-as-unsigned-char", fn.loc(bad[0]),
                                   "%s stores the difference of two bytes that were sign-extended: a byte 0x80..0xff compares below every byte 0x00..0x7f, the opposite of strcmp/memcmp, which compare as unsigned char"
                                   % api.base_name(fn.name))
                break
    return n


UNBOUNDED_SEARCHERS = ("strchr", "strrchr", "strstr", "strpbrk", "wcschr", "wcsrchr", "wcsstr", "wcspbrk", "index", "rindex", "strchrnul", "rawmemchr")
_PRED = {"eq": lambda a, b: a == b, "ne": lambda a, b: a != b, "sgt": lambda a, b: a > b, "ugt": lambda a, b: a > b, "sge": lambda a, b: a >= b, "uge": lambda a, b: a >= b,
         "slt": lambda a, b: a < b, "ult": lambda a, b: a < b, "sle": lambda a, b: a <= b, "ule": lambda a, b: a <= b}


def window_rule(ck, funcs, report):
    """clause: an answer lies inside the operand's declared window.  Where a function hands an operand parameter P (declared length L, the
    integer parameter that follows it) to a libc searcher that takes no length, the position it got back is only an answer if its offset
    from P is < L: element L is not part of the operand.  Every comparison of (result - P) with L must therefore put offset == L on the
    same side as offset == L+1 and on the other side than offset == L-1 (decided by evaluating the predicate, not by its spelling); a
    searcher result that is never compared with L at all is reported too."""
    n = 0
    for fn in funcs:
        params = fn.j["params"]
        for c in fn.insts():
            if c["op"] not in ("call", "invoke") or c.get("callee") not in UNBOUNDED_SEARCHERS or not c.get("args"):
                continue
            a0 = c["args"][0]
            while a0.get("k") == "v" and fn.defs.get(a0["id"], {}).get("op") == "bitcast":
                a0 = fn.defs[a0["id"]]["ops"][0]
            k = next((k for k, p in enumerate(params) if a0.get("k") == "v" and p["id"] == a0["id"]), None)
            if k is None or params[k]["name"] not in api.OPERAND_NAMES or k + 1 >= len(params) or not params[k + 1]["ty"].startswith("i"):
                continue
            P, L = params[k], params[k + 1]
            n += 1

            def root(o, hops=0):
                while o.get("k") == "v" and hops < 8:
                    d = fn.defs.get(o["id"])
                    if d is None or d["op"] not in ("bitcast", "ptrtoint", "sext", "zext", "trunc"):
                        break
                    o = d["ops"][0]; hops += 1
                return o

            def is_offset(o):
                o = root(o)
                d = fn.defs.get(o.get("id")) if o.get("k") == "v" else None
                if d is not None and d["op"] in ("sdiv", "ashr", "udiv", "lshr"):
                    d = fn.defs.get(root(d["ops"][0]).get("id"))
                if d is None or d["op"] != "sub":
                    return False
                x, y = root(d["ops"][0]), root(d["ops"][1])
                return x.get("id") == c["id"] and y.get("id") == P["id"]
            tests = []
            for i in fn.insts():
                if i["op"] != "icmp" or i["pred"] not in _PRED:
                    continue
                a, b = i["ops"]
                if is_offset(a) and root(b).get("id") == L["id"]:
                    tests.append((i, [_PRED[i["pred"]](off, 10) for off in (9, 10, 11)]))
                elif is_offset(b) and root(a).get("id") == L["id"]:
                    tests.append((i, [_PRED[i["pred"]](10, off) for off in (9, 10, 11)]))
            bn = api.base_name(fn.name)
            if not tests:
                report("C10:answer-outside-window:%s:%s:unchecked" % (bn, c["callee"]), "R-answer-inside-declared-window", fn.loc(c),
                       "%s searches %s with %s, which knows no length, and never compares the position it gets back with %s" % (bn, P["name"], c["callee"], L["name"]))
            for (i, (below, at, above)) in tests:
                if not (at == above and at != below):
                    report("C10:answer-outside-window:%s:%s:%s" % (bn, c["callee"], i["pred"]), "R-answer-inside-declared-window", fn.loc(i),
                           "%s searches %s with %s, which knows no length, and filters the position by `offset %s %s`: offset == %s is treated like offset == %s-1, "
                           "so a match in element %s[%s], which is not part of the operand, is returned as an answer" % (bn, P["name"], c["callee"], i["pred"], L["name"], L["name"], L["name"], P["name"], L["name"]))
    return n


def scan_rule(ck, funcs, report):
    """clause: a budgeted scan gives up for lack of budget only after it has examined all `budget` elements (sa/scan.py)"""
    rows, covered, exits, skipped = {}, 0, 0, {}
    for fn in funcs:
        S = scan.Scan(fn)
        for h in fn.loops:
            r = S.loop(h)
            if not r.get("covered"):
                skipped["%s:%s" % (fn.name, h)] = r["kind"][:80]
                continue
            covered += 1
            exits += r["budget_exits"]
            rows["%s:%s" % (api.base_name(fn.name), h)] = dict(counters=r["counters"], cursors=r["cursors"], budget_exits=r["budget_exits"], iteration_paths=r["iteration_paths"])
            for f in r["findings"]:
                report("C10:scan-gives-up-early:%s:%s:%s" % (api.base_name(fn.name), f["cursor"].lstrip("%"), f["counter"].lstrip("%")), "S-budget-spent-before-giving-up",
                       "%s:%s" % (fn.file, fn.blocks[h]["insts"][-1].get("line") or fn.line),
                       "%s: %s -- within the first `budget` elements the answer can differ from the standard function's" % (api.base_name(fn.name), f["text"]))
    return dict(loops_covered=covered, budget_exits=exits, loops=rows, not_covered=skipped)


def run(ck):
    mods, info = frontend.load_modules()
    prog = Program(mods)
    funcs = api.anchored(prog, "C10")
    if len(funcs) < MIN_FUNCS:
        ck.fail_broken("only %d query functions found in the anchored files (< %d)" % (len(funcs), MIN_FUNCS))
    n_ops, rows = analyse(ck, prog, funcs, ck.report)
    for n in list(rows)[:8]:
        ck.sample(dict(function=n, operands_checked=rows[n], verdict="no write through any operand" if not any(n in r["key"] for r in ck.reports) else "modified"))
    sc = scan_rule(ck, funcs, ck.report)
    if sc["loops_covered"] < MIN_SCAN_LOOPS:
        ck.fail_broken("scan completeness: only %d budgeted scan loops recognised (< %d)" % (sc["loops_covered"], MIN_SCAN_LOOPS))
    nres = narrowing_rule(ck, funcs, ck.report)
    if nres < 10:
        ck.fail_broken("narrowing rule: only %d stores of a variable value through result parameters found (< 10)" % nres)
    ntrk = sentinel_rule(ck, funcs, ck.report)
    nwin = window_rule(ck, funcs, ck.report)
    nsgn = signedness_rule(ck, funcs, ck.report)
    if nsgn < 2:
        ck.fail_broken("signedness rule: only %d byte differences stored through result parameters found (< 2: strcmp_s, strcmpfld_s)" % nsgn)
    if nwin < 1:
        ck.fail_broken("window rule: no call of a length-less libc searcher on an operand found (strchr_s used to have one)")
    fx = selftest(ck)
    cov = dict(position_trackers_checked_for_sentinel_collision=ntrk, lengthless_searcher_calls_checked_for_window=nwin, byte_differences_checked_for_signedness=nsgn, scan_completeness=sc, result_stores_checked_for_narrowing=nres, explanation="For each of the %d exported query functions anchored by the property, every operand parameter (%d pointers named dest/src/str/key/base) "
               "is followed through getelementptr/casts/phi/select/integer round trips and through every library callee (inter-procedural write summaries, fixpoint over "
               "the call graph); a store or a writing effect on a derived pointer is a violation. Passing the pointer to the registered constraint handler or to the caller's "
               "comparator, and storing an interior pointer into an out-parameter, are not writes. Scan completeness: in %d budgeted scan loops (a counter from a length argument decreasing by a constant, a cursor advancing by a constant) every exit "
               "taken for lack of budget (%d exit paths whose guards pin the counter) happens only after all `budget` elements were examined. Beyond that, result equality with the libc counterparts is not decided."
               % (len(funcs), n_ops, sc["loops_covered"], sc["budget_exits"]),
               obligations=n_ops, discharged=n_ops - len({tuple(r["key"].split(":")[2:4]) for r in ck.reports if r["key"].startswith("C10:operand-modified:")}),
               functions=len(funcs), operands=n_ops, fixtures=fx, frontend=info, exhaustive=True,
               summary="%d query functions, %d operand pointers, none written" % (len(funcs), n_ops))
    return ck.finish(cov, ["libc effect table (sa/effects.py) for external callees", "the constraint handler and the caller's comparator are caller code"])


def selftest(ck):
    fdir = os.path.join(frontend.VERIF, "fixtures")
    prog = Program(frontend.load_sources([os.path.join(fdir, "c10.c")]))
    got = []
    class B:
        def fail_broken(s, m): got.append("broken:" + m)
    analyse(B(), prog, [f for f in prog.exported() if f.name.startswith("q_")], lambda key, *a: got.append(key))
    want = ["C10:operand-modified:q_bad_clear:dest:helper_clear", "C10:operand-modified:q_bad_store:dest:store", "C10:operand-modified:q_bad_tok:src:strtok_r_like"]
    if sorted(got) != want:
        ck.fail_broken("fixture c10.c: got %s, expected %s" % (sorted(got), want))
    out = dict(fired=sorted(got))
    got2 = []
    r = scan_rule(B(), [prog.funcs[n] for n in ("sc_good_while", "sc_predecrement", "sc_good_dowhile", "sc_stops_one_short")], lambda key, *a: got2.append(key))
    want2 = ["C10:scan-gives-up-early:sc_predecrement:scan2.0:smax.0", "C10:scan-gives-up-early:sc_stops_one_short:dest.addr.0:dmax.addr.0"]
    out["scan"] = dict(fired=sorted(got2), loops_covered=r["loops_covered"])
    if sorted(got2) != want2 or r["loops_covered"] != 6:
        ck.fail_broken("fixture c10.c: scan completeness got %s (%d loops), expected %s (6 loops)" % (sorted(got2), r["loops_covered"], want2))
    got3 = []
    nn = narrowing_rule(B(), [prog.funcs[n] for n in ("cmp16_good", "cmp16_narrowed")], lambda key, *a: got3.append(key))
    out["narrowing"] = dict(fired=got3, stores=nn)
    if got3 != ["C10:difference-narrowed:cmp16_narrowed"]:
        ck.fail_broken("fixture c10.c: narrowing rule got %s" % got3)
    got4 = []
    nt = sentinel_rule(B(), [prog.funcs[n] for n in ("last_flag_good", "last_ptr_sentinel", "last_idx_sentinel", "last_null_good")], lambda key, *a: got4.append(key))
    out["sentinel"] = dict(fired=sorted(got4), trackers=nt)
    if sorted(got4) != ["C10:sentinel-collides-with-answer:last_idx_sentinel:last.0", "C10:sentinel-collides-with-answer:last_ptr_sentinel:lastp.0"]:
        ck.fail_broken("fixture c10.c: sentinel rule got %s (%d trackers)" % (sorted(got4), nt))
    got5 = []
    nw = window_rule(B(), [prog.funcs[n] for n in ("win_good", "win_good_accept", "win_off_by_one", "win_unchecked")], lambda key, *a: got5.append(key))
    out["window"] = dict(fired=sorted(got5), calls=nw)
    if sorted(got5) != ["C10:answer-outside-window:win_off_by_one:strchr:sgt", "C10:answer-outside-window:win_unchecked:strrchr:unchecked"] or nw != 4:
        ck.fail_broken("fixture c10.c: window rule got %s (%d calls)" % (sorted(got5), nw))
    got6 = []
    ns = signedness_rule(B(), [prog.funcs[n] for n in ("cmp8_unsigned_good", "cmp8_signed", "cmp16_good")], lambda key, *a: got6.append(key))
    out["signedness"] = dict(fired=got6, differences=ns)
    if got6 != ["C10:bytes-compared-signed:cmp8_signed"] or ns != 2:
        ck.fail_broken("fixture c10.c: signedness rule got %s (%d differences)" % (got6, ns))
    return out
