"""C10 (clause: operands are never modified) -- in every comparison / search / span / length / classification function no
store, writing callee effect or clearing helper is applied to a pointer derived from an operand parameter.
Equality of the results with strcmp/strstr/... is value-level and is NOT decided here."""
import os
from ..ir import Program
from ..derive import derive, labels_of, Summaries
from ..effects import external_effect
from .. import frontend, api, scan

MIN_FUNCS = 39


def write_sites(prog, summ, fn, pidx):
    par = fn.j["params"][pidx]
    der = derive(fn, {par["id"]: pidx}, through_int=True, retmap=summ.retmap(fn))
    out = []
    for i in fn.insts():
        if i["op"] == "store" and labels_of(i["ops"][1], der, None):
            out.append((i, "store through %s" % par["name"]))
        elif i["op"] in ("call", "invoke"):
            for (k, l, kind) in summ.call_effects(fn, i, der, None):
                if kind == "w":
                    out.append((i, "%s writes through its argument %d, which is derived from %s" % (i.get("callee", "<indirect>"), k, par["name"])))
                elif kind == "unmodelled":
                    out.append((i, "UNMODELLED:%s" % i.get("callee")))
    return out


def analyse(ck, prog, funcs, report):
    summ = Summaries(prog)
    n_ops = 0
    rows = {}
    for fn in funcs:
        ops = [k for k, p in enumerate(fn.j["params"]) if p["ty"].endswith("*") and p["name"] in api.OPERAND_NAMES]
        rows[fn.name] = [fn.j["params"][k]["name"] for k in ops]
        for k in ops:
            n_ops += 1
            key = (fn.mod["tu"], fn.name)
            if k not in summ.w.get(key, ()):
                # cross-check with the local site scan (must agree with the summary)
                continue
            for (i, how) in write_sites(prog, summ, fn, k):
                if how.startswith("UNMODELLED:"):
                    ck.fail_broken("%s passes operand %s to unmodelled callee %s" % (fn.name, fn.j["params"][k]["name"], how[11:]))
                    continue
                callee = i.get("callee", "store")
                report("C10:operand-modified:%s:%s:%s" % (api.base_name(fn.name), fn.j["params"][k]["name"], callee if i["op"] != "store" else "store"),
                       "Q-operands-read-only", fn.loc(i), "%s modifies its operand: %s" % (api.base_name(fn.name), how))
    return n_ops, rows


MIN_SCAN_LOOPS = 30
RESULT_PARAMS = ("diff", "indicator", "resultp")


def narrowing_rule(ck, funcs, report):
    """clause: the ordering a comparison function reports is the difference of the first differing pair, computed without losing bits.
    Where the value stored through the result parameter is (an extension of) a truncation of the difference of two loaded elements, its
    sign is no longer the sign of the difference once the elements lie more than half the narrow range apart -- reported.
    (Which pair is compared, and in which signedness the characters are read, is not judged here.)"""
    n = 0
    for fn in funcs:
        outs = [fn.pnames[p]["id"] for p in RESULT_PARAMS if p in fn.pnames and fn.pnames[p]["ty"] == "i32*"]
        if not outs:
            continue
        for i in fn.insts():
            if i["op"] != "store" or i["ops"][1].get("k") != "v" or i["ops"][1]["id"] not in outs or i["ops"][0].get("k") != "v":
                continue
            n += 1
            v, hops, narrowed = i["ops"][0], 0, None
            while v.get("k") == "v" and hops < 6:
                d = fn.defs.get(v["id"])
                if d is None:
                    break
                if d["op"] == "trunc" and d["bits"] < 32:
                    narrowed = d
                if d["op"] in ("sext", "zext", "trunc"):
                    v = d["ops"][0]; hops += 1
                    continue
                if d["op"] == "sub" and narrowed is not None:
                    # operands: (extensions of) loaded elements at least as wide as the narrowed value
                    def elem_bits(o):
                        dd = fn.defs.get(o.get("id")) if o.get("k") == "v" else None
                        while dd is not None and dd["op"] in ("sext", "zext"):
                            dd = fn.defs.get(dd["ops"][0].get("id"))
                        return dd["bits"] if dd is not None and dd["op"] == "load" and "bits" in dd else None
                    eb = [elem_bits(o) for o in d["ops"]]
                    if all(b is not None and b >= narrowed["bits"] for b in eb):
                        report("C10:difference-narrowed:%s" % api.base_name(fn.name), "R-difference-not-narrowed", fn.loc(narrowed),
                               "%s stores the difference of two %d-bit elements after truncating it to %d bits: for elements more than 0x%x apart the sign of the stored value is the opposite of the ordering"
                               % (api.base_name(fn.name), eb[0], narrowed["bits"], (1 << (narrowed["bits"] - 1)) - 1))
                break
    return n




def scan_rule(ck, funcs, report):
    """clause: a budgeted scan gives up for lack of budget only after it has examined all `budget` elements (sa/scan.py)"""
    rows, covered, exits, skipped = {}, 0, 0, {}
    for fn in funcs:
        S = scan.Scan(fn)
        for h in fn.loops:
            r = S.loop(h)
            if not r.get("covered"):
                skipped["%s:%s" % (fn.name, h)] = r["kind"][:80]
                continue
            covered += 1
            exits += r["budget_exits"]
            rows["%s:%s" % (api.base_name(fn.name), h)] = dict(counters=r["counters"], cursors=r["cursors"], budget_exits=r["budget_exits"], iteration_paths=r["iteration_paths"])
            for f in r["findings"]:
                report("C10:scan-gives-up-early:%s:%s:%s" % (api.base_name(fn.name), f["cursor"].lstrip("%"), f["counter"].lstrip("%")), "S-budget-spent-before-giving-up",
                       "%s:%s" % (fn.file, fn.blocks[h]["insts"][-1].get("line") or fn.line),
                       "%s: %s -- within the first `budget` elements the answer can differ from the standard function's" % (api.base_name(fn.name), f["text"]))
    return dict(loops_covered=covered, budget_exits=exits, loops=rows, not_covered=skipped)


def run(ck):
    mods, info = frontend.load_modules()
    prog = Program(mods)
    funcs = api.anchored(prog, "C10")
    if len(funcs) < MIN_FUNCS:
        ck.fail_broken("only %d query functions found in the anchored files (< %d)" % (len(funcs), MIN_FUNCS))
    n_ops, rows = analyse(ck, prog, funcs, ck.report)
    for n in list(rows)[:8]:
        ck.sample(dict(function=n, operands_checked=rows[n], verdict="no write through any operand" if not any(n in r["key"] for r in ck.reports) else "modified"))
    sc = scan_rule(ck, funcs, ck.report)
    if sc["loops_covered"] < MIN_SCAN_LOOPS:
        ck.fail_broken("scan completeness: only %d budgeted scan loops recognised (< %d)" % (sc["loops_covered"], MIN_SCAN_LOOPS))
    nres = narrowing_rule(ck, funcs, ck.report)
    if nres < 10:
        ck.fail_broken("narrowing rule: only %d stores of a variable value through result parameters found (< 10)" % nres)
    fx = selftest(ck)
    cov = dict(scan_completeness=sc, result_stores_checked_for_narrowing=nres, explanation="For each of the %d exported query functions anchored by the property, every operand parameter (%d pointers named dest/src/str/key/base) "
               "is followed through getelementptr/casts/phi/select/integer round trips and through every library callee (inter-procedural write summaries, fixpoint over "
               "the call graph); a store or a writing effect on a derived pointer is a violation. Passing the pointer to the registered constraint handler or to the caller's "
               "comparator, and storing an interior pointer into an out-parameter, are not writes. Scan completeness: in %d budgeted scan loops (a counter from a length argument decreasing by a constant, a cursor advancing by a constant) every exit "
               "taken for lack of budget (%d exit paths whose guards pin the counter) happens only after all `budget` elements were examined. Beyond that, result equality with the libc counterparts is not decided."
               % (len(funcs), n_ops, sc["loops_covered"], sc["budget_exits"]),
               obligations=n_ops, discharged=n_ops - len({tuple(r["key"].split(":")[2:4]) for r in ck.reports if r["key"].startswith("C10:operand-modified:")}),
               functions=len(funcs), operands=n_ops, fixtures=fx, frontend=info, exhaustive=True,
               summary="%d query functions, %d operand pointers, none written" % (len(funcs), n_ops))
    return ck.finish(cov, ["libc effect table (sa/effects.py) for external callees", "the constraint handler and the caller's comparator are caller code"])


def selftest(ck):
    fdir = os.path.join(frontend.VERIF, "fixtures")
    prog = Program(frontend.load_sources([os.path.join(fdir, "c10.c")]))
    got = []
    class B:
        def fail_broken(s, m): got.append("broken:" + m)
    analyse(B(), prog, [f for f in prog.exported() if f.name.startswith("q_")], lambda key, *a: got.append(key))
    want = ["C10:operand-modified:q_bad_clear:dest:helper_clear", "C10:operand-modified:q_bad_store:dest:store", "C10:operand-modified:q_bad_tok:src:strtok_r_like"]
    if sorted(got) != want:
        ck.fail_broken("fixture c10.c: got %s, expected %s" % (sorted(got), want))
    out = dict(fired=sorted(got))
    got2 = []
    r = scan_rule(B(), [prog.funcs[n] for n in ("sc_good_while", "sc_predecrement", "sc_good_dowhile", "sc_stops_one_short")], lambda key, *a: got2.append(key))
    want2 = ["C10:scan-gives-up-early:sc_predecrement:scan2.0:smax.0", "C10:scan-gives-up-early:sc_stops_one_short:dest.addr.0:dmax.addr.0"]
    out["scan"] = dict(fired=sorted(got2), loops_covered=r["loops_covered"])
    if sorted(got2) != want2 or r["loops_covered"] != 6:
        ck.fail_broken("fixture c10.c: scan completeness got %s (%d loops), expected %s (6 loops)" % (sorted(got2), r["loops_covered"], want2))
    got3 = []
    nn = narrowing_rule(B(), [prog.funcs[n] for n in ("cmp16_good", "cmp16_narrowed")], lambda key, *a: got3.append(key))
    out["narrowing"] = dict(fired=got3, stores=nn)
    if got3 != ["C10:difference-narrowed:cmp16_narrowed"]:
        ck.fail_broken("fixture c10.c: narrowing rule got %s" % got3)
    return out
