"""C02 -- no read ever goes outside what the caller declared readable.

Every load, memcpy/memmove source, libc reader (effect row) and internal helper call yields the obligation 0 <= off and
off + size <= capacity for the buffer it reads: at most dmax elements of dest, slen/n/len elements of a length-declared source,
the size of a local array or constant table.  The facts must hold *at the evaluation of the access*: `while (*p && n)` fails
(the load precedes the test of the counter), `while (n && *p)` is discharged.  A NUL-bounded libc reader (strlen, strchr, strcoll ..)
applied to a length-declared buffer is undischargeable by construction.  Sources without a declared length (NUL-terminated src of
strcpy_s etc.) have no capacity and produce no obligations: that they are read only up to their terminator is not decided."""
import os
from ..ir import Program
from .. import frontend, capcheck, siblings
from . import capcommon
from . import prim_common


BLOCK_READERS = {"memchr": (0, 2), "memrchr": (0, 2), "rawmemchr": (0, None), "memcmp": (None, 2), "bcmp": (None, 2), "wmemchr": (0, 2), "wmemcmp": (None, 2),
                 "memmem": (None, None)}
STRING_DIRS = ("src/str/", "src/extstr/", "src/wchar/", "src/extwchar/", "src/os/", "src/io/")


def terminator_rule(prog, report, funcs=None):
    """clause 'at most slen elements or up to and including the terminator, whichever comes first': a string operand is never handed to a
    libc block reader (memchr, memcmp, wmemchr ...: they do not stop at a NUL) with a length that is one of the function's declared
    maxima -- the bytes between the terminator and the declared maximum are then read (and, for a searcher, take part in the answer).
    A length that was *measured* (the result of strnlen_s/strlen on that operand) is fine.  The mem* family (src/mem, src/extmem) works
    on memory regions, not strings, and is not subject to this clause.  Returns the number of block-reader calls on parameters judged."""
    n = 0
    for fn in (funcs if funcs is not None else [f for f in prog.allfuncs if f.mod["tu"].startswith(STRING_DIRS)]):
        ptrs = {p["id"]: p["name"] for p in fn.j["params"] if p["ty"].endswith("*")}
        ints = {p["id"]: p["name"] for p in fn.j["params"] if p["ty"] in ("i64", "i32")}
        if not ptrs:
            continue

        def proot(o, depth=0):
            while o.get("k") == "v" and depth < 8:
                if o["id"] in ptrs:
                    return o["id"]
                d = fn.defs.get(o["id"])
                if d is None:
                    return None
                if d["op"] == "bitcast":
                    o = d["ops"][0]
                elif d["op"] == "getelementptr":
                    o = d["base"]
                elif d["op"] == "phi":
                    rs = {proot(x["v"], depth + 1) for x in d["incoming"] if x["v"].get("id") != d["id"]}
                    return rs.pop() if len(rs) == 1 else None
                else:
                    return None
                depth += 1
            return None

        def declared(o, depth=0):
            """name of the size parameter the length is (a multiple / part / remaining part of), None if it comes from a measurement"""
            if o.get("k") != "v" or depth > 8:
                return None
            if o["id"] in ints:
                return ints[o["id"]]
            d = fn.defs.get(o["id"])
            if d is None:
                return None
            if d["op"] in ("zext", "sext", "trunc", "mul", "shl", "sub", "add", "lshr", "udiv"):
                return declared(d["ops"][0], depth + 1)
            if d["op"] == "phi":
                rs = [declared(x["v"], depth + 1) for x in d["incoming"] if x["v"].get("id") != d["id"]]
                return rs[0] if rs and all(r is not None for r in rs) else None
            return None
        for c in fn.calls():
            name = c.get("callee") or ""
            if name not in BLOCK_READERS:
                continue
            pa, la = BLOCK_READERS[name]
            for k, a in enumerate(c.get("args", ())[:2] if pa is None else [c["args"][pa]]):
                r = proot(a)
                if r is None:
                    continue
                n += 1
                dl = declared(c["args"][la]) if la is not None and la < len(c["args"]) else "no length"
                if dl is not None:
                    base = fn.name[1:-4] if fn.name.startswith("_") and fn.name.endswith("_chk") else fn.name
                    report("C02:read-behind-terminator:%s:%s:%s" % (base, ptrs[r], name), "T-string-read-stops-at-its-terminator", fn.loc(c),
                           "%s hands its string operand %s to %s with the declared maximum %s as the length: %s does not stop at the terminator, the bytes behind it are read"
                           % (base, ptrs[r], name, dl, name))
    return n


LENGTH_PROBES = ("safec_strnlen_s", "strnlen", "strnlen_s", "_strnlen_s_chk", "wcsnlen", "wcsnlen_s", "_wcsnlen_s_chk")


def precision_rule(prog, report, tu="src/str/vsnprintf_s.c", funcs=None):
    """clause 'a %.Ns argument is read for at most N bytes': the bound handed to the length probe of a string argument is the precision
    whenever one was given -- also when it is 0.  A bound of the shape `x ? x : <large constant>` (select or two-way merge whose
    condition is `x != 0` for the very x it selects) treats an explicit 0 as "no bound" and measures the argument to its terminator;
    the presence of a precision is a flag bit, not the value.  Returns the number of length-probe calls looked at."""
    n = 0
    for fn in (funcs if funcs is not None else [f for f in prog.allfuncs if f.mod["tu"] == tu]):
        for c in fn.calls():
            if (c.get("callee") or "") not in LENGTH_PROBES or len(c.get("args", ())) < 2:
                continue
            n += 1
            b = c["args"][1]
            d = fn.defs.get(b.get("id")) if b.get("k") == "v" else None
            while d is not None and d["op"] in ("zext", "sext", "trunc"):
                b = d["ops"][0]
                d = fn.defs.get(b.get("id")) if b.get("k") == "v" else None
            if d is None:
                continue
            alts, cond = None, None
            if d["op"] == "select":
                alts, cond = d["ops"][1:3], fn.defs.get(d["ops"][0].get("id"))
            elif d["op"] == "phi" and len(d["incoming"]) == 2:
                alts = [x["v"] for x in d["incoming"]]
                # the branch that chooses between the two incoming edges
                for x in d["incoming"]:
                    t = fn.term(x["bb"])
                    for pb in fn.blocks:
                        tp = fn.term(pb)
                        if tp["op"] == "br" and "cond" in tp and x["bb"] in (tp.get("t"), tp.get("f")) and tp["cond"].get("k") == "v":
                            cond = cond or fn.defs.get(tp["cond"]["id"])
            if not alts or cond is None:
                continue
            big = [a for a in alts if a.get("k") == "c" and (a["v"] < 0 or a["v"] >= 1024)]
            var = [a for a in alts if a.get("k") == "v"]
            if len(big) != 1 or len(var) != 1:
                continue

            def strip(o):
                while o.get("k") == "v" and fn.defs.get(o["id"], {}).get("op") in ("zext", "sext", "trunc"):
                    o = fn.defs[o["id"]]["ops"][0]
                return o
            if cond["op"] == "icmp" and cond["pred"] in ("eq", "ne") and any(o.get("k") == "c" and o.get("v") == 0 for o in cond["ops"]) and \
                    any(strip(o).get("id") == strip(var[0]).get("id") for o in cond["ops"] if o.get("k") == "v"):
                base = fn.name[1:-4] if fn.name.startswith("_") and fn.name.endswith("_chk") else fn.name
                report("C02:zero-bound-means-unbounded:%s:%s" % (base, c.get("callee")), "P-precision-bounds-the-read", fn.loc(c),
                       "%s bounds %s by `x ? x : %s`: an explicit bound of 0 (\"%%.0s\") is taken for no bound and the argument is read to its terminator"
                       % (base, c.get("callee"), big[0]["v"]))
    return n


def run(ck):
    prog, info, st = capcommon.run(ck, "C02", "R", 250, 45)
    prim = prim_common.primitive_rule(ck, prog, "C02", ck.report)
    sib = siblings.rule(prog, ck.report, "C02", broken=ck.fail_broken)
    nterm = terminator_rule(prog, ck.report)
    nprobe = precision_rule(prog, ck.report)
    if nprobe < 2:
        ck.fail_broken("precision rule: only %d length-probe calls found in the formatter (< 2)" % nprobe)
    fx = selftest(ck)
    cov = dict(symmetric_copy_loop_pairs=sib, block_reader_calls_on_string_operands=nterm, formatter_length_probes=nprobe, primitives_by_byte_accounting={k: dict(paths=v.get("paths"), loops=v.get("loops"), iteration_paths=v.get("iteration_paths"), assumed_min_count=v.get("assumed_min_count"), call_sites=v.get("call_sites")) for k, v in prim.items()},
               explanation="%d read obligations over all function definitions: %d discharged, %d outside the reach of the domain in %d functions (listed with reasons, not claimed), "
               "the rest matched against known findings or reported." % (st["total"], st["discharged"], st["outside_reach"], len(st["outside_reach_functions"])),
               obligations=st["total"], discharged=st["discharged"], outside_reach=st["outside_reach"], outside_reach_functions=st["outside_reach_functions"],
               fully_discharged_functions=st["fully_discharged_functions"], fixtures=fx, frontend=info, no_slack_configuration=st.get("noslack", "thorough tier only"),
               summary="%d read obligations, %d discharged, %d outside reach" % (st["total"], st["discharged"], st["outside_reach"]))
    return ck.finish(cov, ["truthfulness premise: each caller buffer has at least the declared number of elements", "libc effect table (sa/effects.py)",
                           "NUL-terminated sources without a length parameter are not bounded by this check", "functions listed in tables/cap_reach.json are not analysed by the bound engine; of these the seven mem_prim_* primitives are decided by the byte accounting of sa/accounting.py instead (all their stores/loads lie in [0, len*size))"])


def selftest(ck):
    fdir = os.path.join(frontend.VERIF, "fixtures")
    prog = Program(frontend.load_sources([os.path.join(fdir, "c02.c")]))
    roles = capcheck.all_roles(prog)
    out = {}
    want = {"fx2_len_good": 0, "fx2_len_deref_first": 1, "fx2_strlen_on_bounded": 1, "fx2_back_scan_good": 0, "fx2_back_scan_unbounded": 1,
            "fx2_measured_good": 0, "fx2_measured_over": 1, "fx2_nested_read_over": 1, "_memrchr_s_chk": 0}
    for n, w in want.items():
        res, _ = capcheck.analyse(prog.funcs[n], roles.get(n, []), prog, roles)
        bad = sum(1 for x in res if x["kind"] == "R" and not (x["lo"] and x["hi"]))
        out[n] = dict(obligations=sum(1 for x in res if x["kind"] == "R"), undischarged=bad)
        if (bad > 0) != bool(w):
            ck.fail_broken("fixture c02.c:%s: %d undischarged read obligations, expected %s" % (n, bad, "some" if w else "none"))
    p6 = Program(frontend.load_sources([os.path.join(fdir, "c06.c")]))
    got = []
    np_ = siblings.rule(p6, lambda key, *a, **k: got.append(key), "C02", funcs=[p6.funcs[n] for n in ("fx6_sym_good", "fx6_sym_dropped_limit", "fx6_sym_dropped_budget")], floor=0)
    out["siblings"] = dict(pairs=np_, reports=got)
    if got != ["C02:sibling-loops-disagree:fx6_sym_dropped_limit:n"] or np_ != 3:
        ck.fail_broken("fixture c06.c: sibling-loop rule gave %s over %d pairs" % (got, np_))
    got = []
    nt = terminator_rule(prog, lambda key, *a, **k: got.append(key), funcs=[prog.funcs[n] for n in ("fx2_span_memchr_declared", "fx2_span_memchr_measured")])
    out["terminator_rule"] = dict(calls=nt, reports=got)
    if got != ["C02:read-behind-terminator:fx2_span_memchr_declared:src:memchr"] or nt != 2:
        ck.fail_broken("fixture c02.c: terminator rule reported %s over %d calls" % (got, nt))
    got = []
    npb = precision_rule(prog, lambda key, *a, **k: got.append(key), funcs=[prog.funcs[n] for n in ("fx2_prec_value", "fx2_prec_flag")])
    out["precision_rule"] = dict(calls=npb, reports=got)
    if got != ["C02:zero-bound-means-unbounded:fx2_prec_value:strnlen"] or npb != 2:
        ck.fail_broken("fixture c02.c: precision rule reported %s over %d calls" % (got, npb))
    return out
