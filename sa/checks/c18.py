"""C18 -- secure erase survives optimisation.

Quick (structural, IR of the library): in every erase entry point, each write into dest that can be followed by a success
return is (a) a volatile store, or (b) followed on every path to that return by a compiler-level barrier (fence, mfence/sfence
intrinsic, __sync_synchronize, side-effecting inline asm with a memory clobber, explicit_bzero), or (c) performed by a callee
all of whose writes are protected in one of these ways.  Thorough adds a static inspection of compiled clients (gcc-12 / clang-14,
-O0..-O3, with and without LTO): the erase must still be present in the client's machine code when the buffer is dead."""
import os, re, shutil, subprocess, tempfile
from ..ir import Program, return_sites
from ..derive import derive, labels_of, Summaries
from ..effects import external_effect, BARRIER_INTRINSICS
from .. import frontend, api, lanes

from fractions import Fraction as Fr
PRIMS_TU = "src/mem/mem_primitives_lib.c"
MIN_ROWS = 7


def is_barrier(i):
    op = i["op"]
    if op == "fence":
        return True
    if op in ("call", "invoke"):
        name = i.get("callee")
        if name:
            eff = external_effect(name)
            return bool(name in BARRIER_INTRINSICS or (eff and eff.get("barrier")))
        cv = i.get("callee_v", {})
        if cv.get("k") == "asm" and cv.get("sideeffect") and "memory" in cv.get("cons", ""):
            return True
    if op in ("atomicrmw", "cmpxchg"):
        return True
    return False


class Erase:
    def __init__(s, prog):
        s.prog = prog
        s.summ = Summaries(prog)
        s.memo = {}

    def unprotected(s, fn, pidx, depth=0):
        """write sites through parameter pidx of fn that are neither volatile, nor barrier-protected before a success return"""
        key = (fn.mod["tu"], fn.name, pidx)
        if key in s.memo:
            return s.memo[key]
        s.memo[key] = ([], 0)   # recursion guard
        par = fn.j["params"][pidx]
        der = derive(fn, {par["id"]: "d"}, through_int=True, retmap=s.summ.retmap(fn))
        writes = []      # (inst, description, intrinsically_protected)
        for i in fn.insts():
            if i["op"] == "store" and labels_of(i["ops"][1], der, None):
                writes.append((i, "store", bool(i.get("volatile"))))
            elif i["op"] in ("call", "invoke"):
                name = i.get("callee")
                for k, a in enumerate(i.get("args", ())):
                    if not labels_of(a, der, None):
                        continue
                    if name is None:
                        continue
                    callee = s.prog.resolve(fn, name)
                    if callee is not None:
                        if callee.name in api.HANDLER_DISPATCH:
                            continue
                        if k < len(callee.j["params"]) and k in s.summ.w.get((callee.mod["tu"], callee.name), ()):
                            sub, nsub = s.unprotected(callee, k, depth + 1)
                            writes.append((i, "call %s" % name, not sub))
                        continue
                    eff = external_effect(name) or {}
                    if k in {x[0] for x in eff.get("w", ())}:
                        writes.append((i, "call %s" % name, bool(eff.get("barrier"))))
        # success exits: cut the edges that carry a constant non-zero (error) return value
        cut = set()
        if fn.j["ret_ty"] != "void":
            for (o, bb) in return_sites(fn):
                if o is not None and o.get("k") == "c" and o["v"] != 0:
                    cut.add(bb)
        barrier_pos = {}
        for i in fn.insts():
            if is_barrier(i):
                barrier_pos.setdefault(i["_bb"], []).append(i["_k"])
        ret_blocks = {r["_bb"] for r in fn.rets()}
        bad = []
        for (i, what, prot) in writes:
            if prot:
                continue
            # path search from just after i
            bb = i["_bb"]
            if any(k > i["_k"] for k in barrier_pos.get(bb, ())):
                continue
            seen = set()
            st = [] if bb in cut else list(fn.succ[bb])
            reach_ret = bb in ret_blocks and bb not in cut
            while st and not reach_ret:
                b = st.pop()
                if b in seen:
                    continue
                seen.add(b)
                if b in barrier_pos:
                    continue
                if b in ret_blocks:
                    reach_ret = True
                    break
                if b in cut:
                    continue
                st.extend(fn.succ[b])
            if reach_ret:
                bad.append((fn, i, what))
        s.memo[key] = (bad, len(writes))
        return s.memo[key]


def rows(prog):
    return [f for f in api.anchored(prog, "C18") if f.mod["tu"] != PRIMS_TU]


def structural(ck, prog, report):
    er = Erase(prog)
    out = {}
    for fn in rows(prog):
        k = fn.param_index("dest")
        if k is None:
            ck.fail_broken("erase entry %s has no dest parameter" % fn.name); continue
        bad, nw = er.unprotected(fn, k)
        out[fn.name] = dict(writes=nw, unprotected=len(bad))
        if nw == 0:
            ck.fail_broken("erase entry %s: no write into dest found" % fn.name)
        for (f, i, what) in bad:
            report("C18:unprotected-erase:%s:%s" % (api.base_name(fn.name), what.replace(" ", "-")), "B-volatile-or-barrier", f.loc(i),
                   "%s: %s into dest is not volatile and can reach a success return without a compiler barrier -- a caller whose buffer is dead may have the erase removed (LTO/inlining)"
                   % (api.base_name(fn.name), what))
    # primitives: information on how each is protected
    prim = {}
    for f in prog.allfuncs:
        if f.mod["tu"] == PRIMS_TU and f.name.startswith("mem_prim_set"):
            st = [i for i in f.insts() if i["op"] == "store" and labels_of(i["ops"][1], derive(f, {f.j["params"][0]["id"]: "d"}, through_int=True), None)]
            prim[f.name] = dict(stores=len(st), volatile=sum(1 for i in st if i.get("volatile")), barriers=sum(1 for i in f.insts() if is_barrier(i)))
    return out, prim


def fill_value_rule(prog, report, select=None):
    """'the addressed bytes hold the fill value': in the fill primitives every store into dest stores the value parameter's bytes,
    replicated over the width of the store (byte-lane domain, sa/lanes.py); the erase entry points hand their own value parameter
    (or the constant 0) to the primitive."""
    out = {}
    for f in prog.allfuncs:
        if not (select(f) if select else (f.mod["tu"] == PRIMS_TU and f.name.startswith("mem_prim_set"))):
            continue
        vp = f.pnames.get("value")
        if vp is None:
            continue
        env = lanes.lanes_of(f, vp["id"])
        vw = lanes.width(vp["ty"])
        der = derive(f, {f.j["params"][0]["id"]: "d"}, through_int=True)
        n = bad = 0
        for i in f.insts():
            if i["op"] == "store" and labels_of(i["ops"][1], der, None):
                n += 1
                o = i["ops"][0]
                w = i.get("size", 1)
                l = env.get(o["id"]) if o.get("k") == "v" else (tuple(0 if ((o["v"] >> (8 * k)) & 0xFF) == 0 else None for k in range(w)) if o.get("k") == "c" else None)
                if l is None or len(l) != w or not lanes.replicated(l, vw):
                    bad += 1
                    report("C18:fill-lanes:%s:store%d" % (f.name, w), "L-fill-value-in-every-lane", f.loc(i),
                           "%s: a %d-byte store into dest does not provably hold the fill value in every byte (lanes: %s) -- the bytes written differ from the requested value for some values"
                           % (f.name, w, ["?" if x is None else "0" if x == 0 else "%s%d" % (x[0].lower(), x[1]) for x in (l or (None,) * w)]))
        out[f.name] = dict(stores=n, not_replicated=bad)
    if select is None:
        # the entry points hand the low bytes of their own value parameter (or the constant 0) to the primitive
        for fn in rows(prog):
            vp = fn.pnames.get("value")
            env = lanes.lanes_of(fn, vp["id"]) if vp is not None else {}
            for c in fn.calls():
                name = c.get("callee") or ""
                if not name.startswith("mem_prim_set") or len(c.get("args", ())) < 3:
                    continue
                a = c["args"][2]
                ok = (a.get("k") == "c" and a["v"] == 0) or (a.get("k") == "v" and env.get(a["id"]) is not None
                                                              and all(x == ("V", k) for k, x in enumerate(env[a["id"]])))
                out.setdefault("entries", {})[api.base_name(fn.name)] = ok
                if not ok:
                    report("C18:fill-value-passed:%s" % api.base_name(fn.name), "L-fill-value-in-every-lane", fn.loc(c),
                           "%s: the value handed to %s is not the low bytes of the function's own value parameter (or the constant 0)" % (api.base_name(fn.name), name))
    return out


CALLEE_UNIT = {"mem_prim_set": 1, "mem_prim_set16": 2, "mem_prim_set32": 4, "explicit_bzero": 1, "bzero": 1, "memset": 1, "memset_explicit": 1, "__memset_chk": 1}


def length_rule(prog, report, funcs=None):
    """'the n addressed bytes': every erase call an entry point makes on its own dest parameter covers exactly count x element size
    bytes, where count is one of the entry point's own count parameters (n, len, dmax -- the violation exits clear dmax elements) and the
    element size is that of the entry point's dest type; the callee's unit (bytes for explicit_bzero/memset, 16/32-bit words for
    mem_prim_set16/32) times its length argument must be that product.  An erase of half the bytes (a sibling's `n * 2` copied into the
    32-bit variant) is not a secure erase.  Returns the number of erase calls judged."""
    from ..lin import Lin
    n = 0
    for fn in (funcs if funcs is not None else rows(prog)):
        dp = fn.pnames.get("dest")
        if dp is None:
            continue
        eunit = {"i8*": 1, "i16*": 2, "i32*": 4}.get(dp["ty"])
        counts = [p for p in fn.j["params"] if p["name"] in ("n", "len") and p["ty"] == "i64"]
        whole = [p for p in fn.j["params"] if p["name"] in ("dmax", "destbos") and p["ty"] == "i64"]
        if eunit is None or not (counts or whole):
            continue
        if not counts:
            counts, whole = whole, []
        allowed = {Lin.atom(p["id"]).scale(eunit).key(): p["name"] for p in counts}
        # the violation exits clear the whole destination: dmax (bytes in the 16/32-bit memset family, elements elsewhere) or the object size
        for p in whole:
            allowed[Lin.atom(p["id"]).key()] = p["name"]
            allowed[Lin.atom(p["id"]).scale(eunit).key()] = p["name"]

        def lins(o, depth=0):
            """the set of linear forms (over the parameters) an integer operand can have, None if not expressible"""
            if o.get("k") == "c":
                return {Lin.const(o["v"]).key(): Lin.const(o["v"])}
            if o.get("k") != "v" or depth > 8:
                return None
            if o["id"] in fn.params:
                l = Lin.atom(o["id"]); return {l.key(): l}
            d = fn.defs.get(o["id"])
            if d is None:
                return None
            if d["op"] in ("zext", "sext", "trunc"):
                return lins(d["ops"][0], depth + 1)
            if d["op"] in ("phi", "select"):
                out = {}
                for x in ([y["v"] for y in d["incoming"]] if d["op"] == "phi" else d["ops"][1:3]):
                    r = lins(x, depth + 1)
                    if r is None:
                        return None
                    out.update(r)
                return out
            if d["op"] in ("mul", "shl") and d["ops"][1].get("k") == "c":
                r = lins(d["ops"][0], depth + 1)
                k = d["ops"][1]["v"] if d["op"] == "mul" else (1 << d["ops"][1]["v"])
                return None if r is None else {l.scale(k).key(): l.scale(k) for l in r.values()}
            if d["op"] in ("udiv", "lshr") and d["ops"][1].get("k") == "c":
                r = lins(d["ops"][0], depth + 1)
                k = d["ops"][1]["v"] if d["op"] == "udiv" else (1 << d["ops"][1]["v"])
                return None if r is None else {l.scale(Fr(1, k)).key(): l.scale(Fr(1, k)) for l in r.values()}
            return None
        for c in fn.calls():
            name = c.get("callee") or ""
            base = "memset" if name.startswith("llvm.memset") else name
            if base not in CALLEE_UNIT or not c.get("args"):
                continue
            a0 = c["args"][0]
            while a0.get("k") == "v" and fn.defs.get(a0["id"], {}).get("op") == "bitcast":
                a0 = fn.defs[a0["id"]]["ops"][0]
            if a0.get("id") != dp["id"]:
                continue
            la = c["args"][2] if base in ("memset", "__memset_chk", "memset_explicit") else c["args"][1]
            n += 1
            r = lins(la)
            if r is None:
                n -= 1          # a length computed from something else (a measured string length, a loop counter) is not judged by this clause
                continue
            for l in r.values():
                got = l.scale(CALLEE_UNIT[base])
                if got.key() not in allowed:
                    report("C18:erase-length:%s:%s" % (api.base_name(fn.name), base), "N-erase-covers-count-times-size", fn.loc(c),
                           "%s: %s erases %s bytes; the request is %s bytes (%d-byte elements): the bytes behind that stay as they were although the call reports success"
                           % (api.base_name(fn.name), name, got, " or ".join("%d*%s" % (eunit, p["name"]) for p in counts), eunit))
                    break
    return n


def split_rule(prog, report, select=None):
    """'all n bytes and no more': where a fill primitive splits its byte count into words and a remainder, the quotient (count >> k) and
    the remainder (count & (2^k - 1)) must be taken from the same value -- otherwise 2^k*q + r is not the count that is left."""
    out = {}
    for f in prog.allfuncs:
        if not (select(f) if select else (f.mod["tu"] == PRIMS_TU and f.name.startswith("mem_prim_set"))):
            continue
        q, r = {}, {}
        for i in f.insts():
            if i["op"] == "lshr" and i["ops"][1].get("k") == "c" and 1 <= i["ops"][1]["v"] <= 4 and i["ops"][0].get("k") == "v":
                q.setdefault(i["ops"][1]["v"], []).append(i)
            if i["op"] == "and" and i["ops"][1].get("k") == "c" and i["ops"][1]["v"] in (1, 3, 7, 15) and i["ops"][0].get("k") == "v":
                d = f.defs.get(i["ops"][0]["id"])
                if d is not None and d["op"] == "ptrtoint":
                    continue          # alignment test on the address, not a count
                r.setdefault(i["ops"][1]["v"].bit_length(), []).append(i)
        for k in sorted(set(q) & set(r)):
            qs = {i["ops"][0]["id"] for i in q[k]}
            for i in r[k]:
                ok = i["ops"][0]["id"] in qs
                out.setdefault(f.name, []).append(dict(shift=k, remainder_of=i["ops"][0]["id"], quotient_of=sorted(qs), agree=ok))
                if not ok:
                    report("C18:split-disagrees:%s:k%d" % (f.name, k), "L-quotient-and-remainder-of-one-count", f.loc(i),
                           "%s: the trailing byte count is %s & %d while the word count is %s >> %d: quotient and remainder are taken from different values, so the words and "
                           "the tail together do not cover exactly the bytes that are left (too few bytes erased, or bytes behind the region overwritten, for an unaligned dest)"
                           % (f.name, i["ops"][0]["id"], (1 << k) - 1, "/".join(sorted(qs)), k))
    return out


# ----------------------------------------------------------------------------- thorough: compiled-client inspection
CLIENT = r'''
#include <stddef.h>
#include <stdlib.h>
#include <stdint.h>
#include "safe_mem_lib.h"
#include "safe_str_lib.h"
extern void fill(void *p, size_t n);
#define N 64
#if defined(KIND_stack)
__attribute__((noinline)) int client(void) { char buf[N]; fill(buf, N); CALL(buf); return 0; }
#else
__attribute__((noinline)) int client(void) { char *buf = malloc(N); if (!buf) return 1; fill(buf, N); CALL(buf); free(buf); return 0; }
#endif
int main(void) { return client(); }
'''
FILL = "#include <stddef.h>\nvoid fill(void *p, size_t n) { unsigned char *q = p; while (n--) *q++ = (unsigned char)(n | 1); }\n"
CALLS = {
    "memset_s": "memset_s(P, N, 0, N)", "memzero_s": "memzero_s(P, N)", "memset16_s": "memset16_s((uint16_t *)P, N, 0, N / 2)",
    "memset32_s": "memset32_s((uint32_t *)P, N, 0, N / 4)", "memzero16_s": "memzero16_s((uint16_t *)P, N / 2)",
    "memzero32_s": "memzero32_s((uint32_t *)P, N / 4)", "strzero_s": "strzero_s(P, N)",
}
ERASE_CALL = re.compile(r"call\s+[0-9a-f]+\s+<((?:_?mem(?:set|zero)|mem_prim_set|explicit_bzero|_?strzero|__memset|__explicit_bzero)[\w.]*)(?:@plt)?>")
STORE = re.compile(r"\bmov\w*\s+(\$0x0|%[xyz]mm\d+|%\w+),\s*-?(0x[0-9a-f]+)?\((%\w+)")


def _body(d, name):
    m = re.search(r"<%s>:\n(.*?)(?:\n\n|\Z)" % re.escape(name), d, re.S)
    return m.group(1) if m else None


def _erases(d, text, depth=0):
    """does this stretch of machine code still write the buffer: inline stores, or a call to an erase routine that itself does"""
    if len(STORE.findall(text)) >= 2 or "rep stos" in text:
        return True
    for m in ERASE_CALL.finditer(text):
        callee = m.group(1)
        b = _body(d, callee)
        if b is None:
            return True            # external (libc memset / explicit_bzero through the PLT)
        if depth < 3 and _erases(d, b, depth + 1):
            return True
    return False


def _client_job(args):
    cc, ol, lto, entry, kind, tmp, src, lib_tus, dflags = args
    wd = os.path.join(tmp, "%s%s%s_%s_%s" % (cc, ol, "lto" if lto else "nolto", entry, kind))
    os.makedirs(wd, exist_ok=True)
    exe = os.path.join(wd, "a.out")
    inc = ["-I" + src, "-I" + os.path.join(frontend.REPO, "include"), "-I" + frontend.REPO]
    fillo = os.path.join(wd, "fill.o")
    p = subprocess.run([cc, "-O1", "-fno-lto", "-c", os.path.join(tmp, "fill.c"), "-o", fillo], stdout=subprocess.PIPE, stderr=subprocess.PIPE)
    cmd = [cc, ol, "-g0", "-w", "-DKIND_" + kind, "-o", exe, os.path.join(tmp, "client_%s.c" % entry), fillo] + ([lto] if lto else []) + \
          [os.path.join(src, t) for t in lib_tus] + dflags + inc
    if cc.startswith("clang") and lto:
        cmd.insert(1, "-fuse-ld=lld")
    p = subprocess.run(cmd, cwd=wd, stdout=subprocess.PIPE, stderr=subprocess.PIPE)
    key = "%s %s %s: %s on a dead %s buffer" % (cc, ol, lto or "no-lto", entry, kind)
    out = {}
    if p.returncode != 0:
        out[key] = "build-failed: " + p.stderr.decode(errors="replace")[-300:]
        shutil.rmtree(wd, ignore_errors=True)
        return out, []
    d = subprocess.run(["objdump", "-d", "--no-show-raw-insn", exe], stdout=subprocess.PIPE).stdout.decode(errors="replace")
    shutil.rmtree(wd, ignore_errors=True)
    removed = []
    body = _body(d, "client")
    if body is None:
        out[key] = "client-not-found"
    elif "<fill" not in body:
        out[key] = "fill-call-not-found"
    else:
        after = body.split("<fill", 1)[1]
        kept = _erases(d, after)
        out[key] = "kept" if kept else "ERASE-REMOVED"
        if not kept:
            removed.append((cc, ol, lto, entry, kind, body[-1200:]))
    return out, removed


def client_inspection(ck, prog, report):
    """compile small clients together with the library's current sources and look at the client's machine code; nothing is executed"""
    from concurrent.futures import ThreadPoolExecutor
    db = dict(frontend.compile_db())
    need = ("mem/", "extmem/mem", "extstr/strzero", "str/safe_str_constraint", "ignore_handler", "abort_handler", "str/strnlen_s")
    lib_tus = [tu for tu in db if tu.startswith(need)]
    dflags = [f for f in db[lib_tus[0]] if f.startswith(("-D", "-U"))]
    src = os.path.join(frontend.REPO, "src")
    tmp = tempfile.mkdtemp(prefix="c18.", dir=frontend.CACHE)
    res = {}
    try:
        open(os.path.join(tmp, "fill.c"), "w").write(FILL)
        for entry, call in CALLS.items():
            with open(os.path.join(tmp, "client_%s.c" % entry), "w") as fh:
                fh.write("#define CALL(P) " + call + "\n" + CLIENT)
        have_lld = bool(shutil.which("ld.lld") or shutil.which("ld.lld-14"))
        jobs = []
        for cc in ("gcc", "clang-14"):
            for lto in ("-flto", ""):
                if cc == "clang-14" and lto and not have_lld:
                    continue
                for ol in ("-O0", "-O1", "-O2", "-O3"):
                    for entry in CALLS:
                        for kind in ("stack", "heap"):
                            jobs.append((cc, ol, lto, entry, kind, tmp, src, lib_tus, dflags))
        with ThreadPoolExecutor(max_workers=min(16, os.cpu_count() or 4)) as ex:
            for out, removed in ex.map(_client_job, jobs):
                res.update(out)
                for (cc, ol, lto, entry, cl, body) in removed:
                    report("C18:client-erase-removed:%s" % entry, "B-compiled-client", "compiled client of %s" % entry,
                           "%s %s %s: the %s of a dead %s buffer is no longer present in the client's machine code" % (cc, ol, lto or "no-lto", entry, cl),
                           dict(disassembly=body))
    finally:
        shutil.rmtree(tmp, ignore_errors=True)
    return res


def run(ck):
    mods, info = frontend.load_modules()
    prog = Program(mods)
    rs = rows(prog)
    if len(rs) < MIN_ROWS:
        ck.fail_broken("only %d erase entry points found (< %d)" % (len(rs), MIN_ROWS))
    out, prim = structural(ck, prog, ck.report)
    for n, r in list(out.items())[:7]:
        ck.sample(dict(entry=n, writes_into_dest=r["writes"], unprotected=r["unprotected"]))
    fills = fill_value_rule(prog, ck.report)
    splits = split_rule(prog, ck.report)
    if not splits:
        ck.fail_broken("split rule: no count >> k / count & (2^k - 1) pair found in the fill primitives")
    nst = sum(v["stores"] for k, v in fills.items() if k != "entries")
    if nst < 40 or len(fills) < 4 or len(fills.get("entries", {})) < 5:
        ck.fail_broken("fill-value rule: only %d stores in %d fill primitives and %d entry points found" % (nst, len(fills) - 1, len(fills.get("entries", {}))))
    nlen = length_rule(prog, ck.report)
    if nlen < 6:
        ck.fail_broken("length rule: only %d erase calls on the entry points' own dest found (< 6)" % nlen)
    clients = None
    if ck.tier == "thorough":
        clients = client_inspection(ck, prog, ck.report)
        nfail = sum(1 for v in clients.values() if str(v).startswith("build-failed"))
        if nfail > len(clients) // 2:
            ck.fail_broken("client inspection: %d of %d builds failed: %s" % (nfail, len(clients), [v for v in clients.values() if str(v).startswith("build-failed")][:1]))
    fx = selftest(ck)
    nw = sum(r["writes"] for r in out.values())
    cov = dict(explanation="Structural rule over the IR of the %d erase entry points: %d write sites into dest (stores, memset/explicit_bzero/primitive calls, followed into callees); each "
               "must be volatile, barrier-followed on every path to a success return, or done by a callee whose writes are all protected. %s"
               % (len(out), nw, "Thorough tier: clients with a dead stack/heap buffer were compiled together with the library's current sources by gcc-12 and clang-14 at -O1..-O3 with -flto and their disassembly inspected for the surviving erase (nothing is executed)." if clients is not None else "Compiled-client inspection runs in the thorough tier."),
               obligations=nw, discharged=nw - sum(r["unprotected"] for r in out.values()), entries=out, primitives=prim, fill_value_lanes=fills, count_splits=splits, erase_calls_with_exact_length=nlen, fixtures=fx, frontend=info,
               summary="%d entries, %d writes into dest, all volatile or barrier-protected" % (len(out), nw))
    if clients is not None:
        cov["client_inspection"] = clients
    return ck.finish(cov, ["volatile accesses and compiler barriers are honoured by the compiler (C semantics / GNU asm semantics)",
                           "explicit_bzero is not elided (glibc contract)", "'every optimisation level and every client' is sampled by two installed compilers in the thorough tier only"])


def selftest(ck):
    fdir = os.path.join(frontend.VERIF, "fixtures")
    prog = Program(frontend.load_sources([os.path.join(fdir, "c18.c")]))
    er = Erase(prog)
    res = {}
    for name, want in (("erase_plain", True), ("erase_volatile", False), ("erase_barrier", False), ("erase_barrier_one_path", True), ("erase_via_prim", False), ("erase_bzero", False)):
        fn = prog.funcs[name]
        bad, nw = er.unprotected(fn, 0)
        res[name] = dict(writes=nw, unprotected=len(bad))
        if bool(bad) != want or nw == 0:
            ck.fail_broken("fixture c18.c:%s: %d unprotected of %d writes (expected %s)" % (name, len(bad), nw, "some" if want else "none"))
    got = []
    fl = fill_value_rule(prog, lambda key, *a, **k: got.append(key), select=lambda f: f.name.startswith("fx_fill_"))
    res["fill_lanes"] = fl
    got2 = []
    sp = split_rule(prog, lambda key, *a, **k: got2.append(key), select=lambda f: f.name.startswith("fx_split_"))
    res["count_splits"] = sp
    if [x["agree"] for x in sp.get("fx_split_good", [])] != [True] or [x["agree"] for x in sp.get("fx_split_other_count", [])] != [False]:
        ck.fail_broken("fixture c18.c: split rule gave %s" % sp)
    want = {"fx_fill_good": 0, "fx_fill_signext": 1, "fx_fill_missing_lane": 1}
    for n, w in want.items():
        if n not in fl or fl[n]["stores"] < 2 or fl[n]["not_replicated"] != w:
            ck.fail_broken("fixture c18.c:%s: fill-lane rule gave %s, expected %d bad store(s)" % (n, fl.get(n), w))
    got3 = []
    nl = length_rule(prog, lambda key, *a, **k: got3.append(key), funcs=[prog.funcs["fxlen32_good"], prog.funcs["fxlen32_half"]])
    res["erase_length"] = dict(calls=nl, reports=got3)
    if got3 != ["C18:erase-length:fxlen32_half:explicit_bzero"] or nl != 6:
        ck.fail_broken("fixture c18.c: erase-length rule gave %s over %d calls" % (got3, nl))
    return res
