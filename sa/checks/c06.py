"""C06 (clause: no silent truncation) -- a non-truncating copy/concatenate function never returns success after its destination
budget ran out.

For strcpy_s, strcat_s, strncpy_s, strncat_s, stpcpy_s, stpncpy_s and their wide counterparts all paths are explored; the path state
records whether the loop counter that was initialised from dmax has been seen at zero (the edge 'dmax.cur > 0' false, 'dmax.cur == 0'
true ...).  A success return on such a path is a silent truncation: the documented behaviour is ESNOSPC with dest cleared.
Together with C05's proof obligation for nested copies (a measured strlen(src) < dmax must be entailed where the result of a nested
copy is ignored) this is the statically visible part of C06.  Equality of the stored bytes with the libc counterpart, the word-unrolled
primitives at every alignment/length, and returned counts are value-level and NOT decided.  Returned pointers (stpcpy_s/stpncpy_s) are
decided: see pointer_rule()."""
import os
from ..ir import Program, exit_line, exit_message
from ..lin import Lin
from ..pathflags import BudgetExceeded, run_adaptive
from ..flags import TFlags
from . import prim_common
from .. import frontend, api, par, siblings
from .c05 import convention, STATUS_OK, describe, OPAQUE
from . import dest_common as dc

NON_TRUNCATING = ("_strcpy_s_chk", "_strcat_s_chk", "_strncpy_s_chk", "_strncat_s_chk", "_stpcpy_s_chk", "_stpncpy_s_chk",
                  "_wcscpy_s_chk", "_wcscat_s_chk", "_wcsncpy_s_chk", "_wcsncat_s_chk")


def worker(prog, name):
    fn = prog.funcs[name]
    try:
        eng = run_adaptive(prog, fn, lambda: TFlags(noinline=[n for n in OPAQUE if n != name]), budgets=(80000, 300000))
    except BudgetExceeded as e:
        return dict(budget=str(e))
    conv = convention(fn)
    finds = {}
    nsucc = nexh = 0
    base = api.base_name(name)
    for (rv, st, path) in eng.results:
        exhausted = st.pl[-1]
        if exhausted:
            nexh += 1
        succ = False
        if conv == "errno" and rv is not None and rv[0] == "i" and rv[1].is_const():
            succ = int(rv[1].c) == 0
        elif conv == "ptr" and rv is not None and rv[0] == "p":
            succ = rv[1] != "null" and eng.decide(("cmp", "eq", eng.as_lin(rv), Lin.const(0)), st.facts) is False
        if succ:
            nsucc += 1
            if exhausted:
                key = "C06:success-after-budget-exhausted:%s" % base
                finds.setdefault(key, dict(key=key, where="%s:%s" % (fn.file, exit_line(fn, path)),
                                           text="%s: success is returned on a path where the destination budget (counter initialised from dmax) was exhausted: the result is silently truncated" % base))
    return dict(findings=list(finds.values()), success_paths=nsucc, exhausted_paths=nexh, budget_counters=len(eng.plugin.budget_phis), states=eng.nstates)


POINTER_RETURNING = ("_stpcpy_s_chk", "_stpncpy_s_chk")


def pointer_worker(prog, name):
    return dc.explore(prog, name)


def pointer_rule(ck, prog, names, report):
    """clause 'any returned pointer refers to the result correctly': stpcpy_s/stpncpy_s return the address of the terminating null.
    The destination typestate remembers where the terminator is (the first zero stored since the last non-zero store, or the element a test
    proved zero; followed through merge phis); at every non-null pointer return into dest that position must equal the returned pointer."""
    res, err = par.pmap(prog, pointer_worker, names)
    for n, e in err.items():
        ck.fail_broken("%s: internal error: %s" % (n, e.strip().splitlines()[-1]))
    out = {}
    for n in names:
        r = res.get(n)
        if not r or "outcomes" not in r:
            ck.fail_broken("%s: pointer clause not decided (%s)" % (n, (r or {}).get("budget", "no result"))); continue
        ptr = [o for o in r["outcomes"] if o["ret"] == "pointer" and o["err"] is not True]
        bad = [o for o in ptr if o["ret_at_term"] is not True]
        out[api.base_name(n)] = dict(pointer_returns=len(ptr), not_at_terminator=len(bad))
        if not ptr:
            ck.fail_broken("%s: no pointer-returning success path found" % n)
        for o in bad:
            report("C06:returned-pointer-not-at-terminator:%s:%s" % (api.base_name(n), "unknown-terminator" if not o["has_term"] else "elsewhere"), "C-returned-pointer-is-the-terminator",
                   "%s:%s" % (r["file"], o["line"]), "%s: the pointer returned on this success path is not known to be the address of the terminating null "
                   "(the terminator was stored elsewhere, e.g. the cursor was advanced by the slack-clearing loop before it is returned)" % api.base_name(n), dict(path=o["path"]))
    return out


def length_table_rule(ck, prog, report, tu="src/str/strerror_s.c", min_rows=8):
    """clause: the length the library announces for one of its own message strings is the length of that string.
    strerror_s decides 'fits / does not fit' with strerrorlen_s, which answers from a table of lengths kept next to the table of messages
    (the nested strcpy_s's own verdict is ignored).  Decided over all rows: value returned for row i (table entry plus the constant the
    function adds, read from the IR) == strlen(message i), for the message table indexed by the same expression."""
    mods = [m for m in prog.mods if m["tu"] == tu]
    if not mods:
        ck.fail_broken("length-table rule: %s not analysed" % tu); return {}
    gmap = mods[0]["gmap"]
    out = {}
    for fn in prog.allfuncs:
        if fn.mod["tu"] != tu:
            continue
        for i in fn.insts():
            if i["op"] != "load" or not i["ty"].startswith("i") or i["ops"][0].get("k") != "v":
                continue
            g = fn.defs.get(i["ops"][0]["id"])
            if g is None or g["op"] != "getelementptr" or g["base"].get("k") != "g":
                continue
            tn = gmap.get(g["base"]["name"])
            if not tn or not tn.get("table") or tn.get("ptrs") or len(tn["table"][0]) != 1 or not tn.get("constant"):
                continue
            # the constant added before the value is returned
            k, v, hops = 0, i["id"], 0
            users = lambda x: [u for u in fn.insts() if any(o.get("k") == "v" and o.get("id") == x for o in list(u.get("ops", ())) + [w["v"] for w in u.get("incoming", ())])]
            returned = False
            while hops < 6:
                hops += 1
                us = users(v)
                if any(u["op"] == "ret" for u in us):
                    returned = True; break
                nxt = [u for u in us if u["op"] in ("add", "sub", "sext", "zext", "trunc", "phi") and "id" in u]
                if len(nxt) != 1:
                    break
                u = nxt[0]
                if u["op"] in ("add", "sub") and u["ops"][1].get("k") == "c" and u["ops"][0].get("id") == v:
                    k += u["ops"][1]["v"] if u["op"] == "add" else -u["ops"][1]["v"]
                elif u["op"] in ("add", "sub"):
                    break
                v = u["id"]
            if not returned:
                continue
            lens = [r[0] + k for r in tn["table"]]
            # the parallel message table: same number of rows, every row a string constant
            for name, ts in sorted(gmap.items()):
                if ts.get("ptrs") and ts.get("nelem") == len(lens) and len(ts["ptrs"]) == len(lens) and all(p and "str" in gmap.get(p, {}) for p in ts["ptrs"]):
                    msgs = [gmap[p]["str"].rstrip("\0") for p in ts["ptrs"]]
                    bad = [(j, msgs[j], lens[j]) for j in range(len(lens)) if len(msgs[j]) != lens[j]]
                    out["%s / %s" % (tn["name"], name)] = dict(rows=len(lens), function=fn.name, added_constant=k, disagreeing=len(bad))
                    for (j, m_, l_) in bad[:4]:
                        report("C06:length-table-disagrees:%s:%d" % (tn["name"], j), "T-announced-length-is-the-string-length", "%s:%s" % (tn.get("file"), tn.get("line")),
                               "%s answers %d for row %d of %s, but the message in %s is \"%s\" (%d characters): strerror_s decides 'fits' with the announced length and ignores the nested copy's verdict, so for the sizes in between it returns success without the complete message"
                               % (fn.name, l_, j, tn["name"], name, m_, len(m_)))
    if not out or max(v["rows"] for v in out.values()) < min_rows:
        ck.fail_broken("length-table rule: no (length table, message table) pair with at least %d rows found in %s" % (min_rows, tu))
    return out


ZERO_FILLERS = ("mem_prim_set", "mem_prim_set16", "mem_prim_set32", "memset", "wmemset", "explicit_bzero", "bzero")


def overwrite_rule(prog, report, funcs=None):
    """clause 'complete and unaltered': a zero fill (slack clearing) never starts at an element the function has just stored result data
    into.  For every zero-fill call whose start pointer is the very SSA pointer of an earlier store in a dominating position: the fill
    is fine when the branch leading to it established that the stored element is 0 (`*dest = *src; if (*dest == 0) clear from dest` --
    the terminator is part of the cleared range); any other guard (a comparison with the stop character of memccpy_s) means the element
    holds result data and is wiped.  Returns the number of (store, fill at the same pointer) pairs judged."""
    n = 0
    for fn in (funcs if funcs is not None else prog.allfuncs):
        stores = {}
        for i in fn.insts():
            if i["op"] == "store" and i["ops"][1].get("k") == "v":
                stores.setdefault(i["ops"][1]["id"], []).append(i)
        if not stores:
            continue
        for c in fn.calls():
            name = c.get("callee") or ""
            base = "memset" if name.startswith("llvm.memset") else name
            if base not in ZERO_FILLERS or not c.get("args"):
                continue
            if base not in ("explicit_bzero", "bzero"):
                va = c["args"][2] if base.startswith("mem_prim_set") else c["args"][1]
                if not (va.get("k") == "c" and va.get("v") == 0):
                    continue
            p0 = c["args"][0]
            while p0.get("k") == "v" and fn.defs.get(p0["id"], {}).get("op") == "bitcast":
                p0 = fn.defs[p0["id"]]["ops"][0]
            for st in stores.get(p0.get("id"), ()):
                if not ((st["_bb"] == c["_bb"] and st["_k"] < c["_k"]) or (st["_bb"] != c["_bb"] and fn.dominates(st["_bb"], c["_bb"]))):
                    continue
                sv = st["ops"][0]
                if sv.get("k") == "c" and sv.get("v") == 0:
                    continue                      # a zero was stored: nothing to lose
                n += 1
                # is the fill reached only over an edge that says "the element (or the value stored) is 0"?
                zero_known = False
                for tb in fn.blocks:
                    t = fn.term(tb)
                    if t["op"] != "br" or "cond" not in t or t["cond"].get("k") != "v":
                        continue
                    d = fn.defs.get(t["cond"]["id"])
                    if d is None or d["op"] != "icmp" or d["pred"] not in ("eq", "ne"):
                        continue
                    a, b = d["ops"]
                    if not (b.get("k") == "c" and b.get("v") == 0):
                        a, b = b, a
                    if not (b.get("k") == "c" and b.get("v") == 0) or a.get("k") != "v":
                        continue
                    x = a
                    while fn.defs.get(x.get("id"), {}).get("op") in ("zext", "sext", "trunc"):
                        x = fn.defs[x["id"]]["ops"][0]
                    dx = fn.defs.get(x.get("id"))
                    same = x.get("id") == sv.get("id") or (dx is not None and dx["op"] == "load" and dx["ops"][0].get("id") == p0.get("id"))
                    if not same:
                        continue
                    zside = t["t"] if d["pred"] == "eq" else t["f"]
                    if (zside == c["_bb"] or fn.dominates(zside, c["_bb"])) and (tb == st["_bb"] or fn.dominates(st["_bb"], tb)):
                        zero_known = True
                if not zero_known:
                    bn = api.base_name(fn.name)
                    report("C06:clearing-overwrites-result:%s:%s" % (bn, base), "C-result-complete-and-unaltered", fn.loc(c),
                           "%s: %s clears from the very element stored at line %s, on a path that has not established that element to be 0: the last element of the result is wiped"
                           % (bn, name, st.get("line")))
    return n


def run(ck):
    mods, info = frontend.load_modules()
    prog = Program(mods)
    names = [n for n in NON_TRUNCATING if n in prog.funcs]
    if len(names) < len(NON_TRUNCATING):
        ck.fail_broken("non-truncating copy functions missing: %s" % sorted(set(NON_TRUNCATING) - set(names)))
    res, err = par.pmap(prog, worker, names)
    for n, e in err.items():
        ck.fail_broken("%s: internal error: %s" % (n, e.strip().splitlines()[-1]))
    per = {}
    tot = 0
    for n in names:
        r = res.get(n)
        if r is None:
            continue
        if "budget" in r:
            ck.fail_broken("path-state budget exceeded: " + r["budget"]); continue
        if r["budget_counters"] == 0 or r["exhausted_paths"] == 0:
            ck.fail_broken("%s: no destination-budget counter / no exhausted path recognised (rule would pass vacuously)" % n)
        tot += r["success_paths"]
        per[api.base_name(n)] = {k: r[k] for k in ("success_paths", "exhausted_paths", "budget_counters", "states")}
        for f in r["findings"]:
            ck.report(f["key"], "C-no-silent-truncation", f["where"], f["text"])
    for n in list(per)[:4]:
        ck.sample(dict(function=n, **per[n]))
    pr = pointer_rule(ck, prog, [n for n in POINTER_RETURNING if n in prog.funcs], ck.report)
    prim = prim_common.primitive_rule(ck, prog, "C06", ck.report)
    ltab = length_table_rule(ck, prog, ck.report)
    sib = siblings.rule(prog, ck.report, "C06", broken=ck.fail_broken)
    nov = overwrite_rule(prog, ck.report)
    if nov < 10:
        ck.fail_broken("overwrite rule: only %d (store, zero fill at the same pointer) pairs found (< 10)" % nov)
    fx = selftest(ck)
    fx["primitives"] = prim_common.selftest(ck)
    cov = dict(returned_pointers=pr, primitives=prim, length_tables=ltab, symmetric_copy_loop_pairs=sib, store_then_fill_pairs=nov, explanation="All paths of the %d non-truncating copy/concatenate functions: %d success-return path classes, none of which follows an edge on which the counter initialised "
               "from dmax is zero; the budget-exhausted exits (present in every function: the rule is not vacuous) all reach error returns. Returned pointers: on every success path of stpcpy_s/stpncpy_s "
               "the returned pointer equals the position of the terminating null tracked by the destination typestate. Primitives: in each of the 7 mem_prim_* routines, on every path to the return the stores "
               "through dest tile dest[0 .. len*size) exactly once (alignment prologue, unrolled word/element body, tail), each copied element comes from the same offset of src, no count subtraction can wrap; "
               "17 loops summarised by a per-iteration progress rule (counter decrease x bytes per count == cursor advance == bytes stored), mem_prim_move's precondition len >= 1 established at its call sites." % (len(per), tot),
               obligations=tot, discharged=tot - len(ck.reports), functions=per, fixtures=fx, frontend=info,
               summary="%d functions, %d success path classes" % (len(per), tot))
    return ck.finish(cov, ["decided: 'no silent truncation' and 'the returned pointer is the terminator' (stpcpy_s, stpncpy_s); result equality with the libc counterparts and returned counts are not", "C05's checked precondition covers nested copies whose result is ignored"])


def selftest(ck):
    fdir = os.path.join(frontend.VERIF, "fixtures")
    prog = Program(frontend.load_sources([os.path.join(fdir, "c06.c")]))
    out = {}
    for n, want in (("fx6_good_s", 0), ("fx6_truncates_s", 1)):
        r = worker(prog, n)
        got = len(r.get("findings", [])) if "findings" in r else -1
        out[n] = dict(findings=got, exhausted_paths=r.get("exhausted_paths"))
        if (got > 0) != bool(want) or not r.get("exhausted_paths"):
            ck.fail_broken("fixture c06.c:%s: %s" % (n, out[n]))
    for n, want in (("fx6_stp_good_s", 0), ("fx6_stp_advanced_s", 1)):
        got = []
        class Sink:
            def fail_broken(s, m): got.append("BROKEN " + m)
        pr = pointer_rule(Sink(), prog, [n], lambda key, *a, **k: got.append(key))
        out[n] = dict(pr.get(n, {}), reports=got)
        if bool(got) != bool(want) or any(g.startswith("BROKEN") for g in got):
            ck.fail_broken("fixture c06.c:%s: pointer rule gave %s" % (n, got))
    got = []
    class Sink2:
        def fail_broken(s, m): got.append("BROKEN " + m)
    lt = length_table_rule(Sink2(), prog, lambda key, *a, **k: got.append(key), tu=prog.mods[0]["tu"])
    out["length_tables"] = dict(pairs=sorted(lt), reports=sorted(got))
    if sorted(got) != ["C06:length-table-disagrees:fx6_lens_stale:2"] or len(lt) != 2:
        ck.fail_broken("fixture c06.c: length-table rule gave %s over %s" % (sorted(got), sorted(lt)))
    for prop, want in (("C06", ["C06:sibling-loops-disagree:fx6_sym_dropped_budget:n"]), ("C02", ["C02:sibling-loops-disagree:fx6_sym_dropped_limit:n"])):
        got = []
        np_ = siblings.rule(prog, lambda key, *a, **k: got.append(key), prop, funcs=[prog.funcs[n] for n in ("fx6_sym_good", "fx6_sym_dropped_limit", "fx6_sym_dropped_budget")], floor=0)
        out["siblings_" + prop] = dict(pairs=np_, reports=got)
        if got != want or np_ != 3:
            ck.fail_broken("fixture c06.c: sibling-loop rule (%s) gave %s over %d pairs, expected %s over 3" % (prop, got, np_, want))
    got = []
    nv = overwrite_rule(prog, lambda key, *a, **k: got.append(key), funcs=[prog.funcs[n] for n in ("fx6_ccpy_good", "fx6_ccpy_wipes", "fx6_str_term_good")])
    out["overwrite_rule"] = dict(pairs=nv, reports=got)
    if got != ["C06:clearing-overwrites-result:fx6_ccpy_wipes:memset"] or nv < 2:
        ck.fail_broken("fixture c06.c: overwrite rule reported %s over %d pairs" % (got, nv))
    return out
