"""C16 (clause: the caller's context reaches every comparison) -- every call through the comparator in qsort_s.c / bsearch_s.c
passes, as third argument, the value forwarded unchanged from the exported function's `context` parameter, through the comparator
forwarded unchanged from `compar`; bsearch_s passes `key` first and an element derived from `base` second.
For bsearch_s the array bounds are decided in the element-index domain (bsearch_bounds / sa/idxloop.py).
Sortedness, permutation, search completeness and qsort_s's array bounds (Leonardo-heap arithmetic) are NOT decided here."""
import os
from ..ir import Program
from ..derive import derive, labels_of
from .. import frontend, idxloop

TUS = {"src/misc/qsort_s.c": "_qsort_s_chk", "src/misc/bsearch_s.c": "_bsearch_s_chk"}


def strip(fn, o):
    """see through bitcasts"""
    while o.get("k") == "v":
        d = fn.defs.get(o["id"])
        if d is None or d["op"] != "bitcast":
            break
        o = d["ops"][0]
    return o


def is_cmp_type(ty):
    return ty.replace(" ", "") == "i32(i8*,i8*,i8*)*"


def analyse(mod, entry_name, report, broken):
    fmap = mod["fmap"]
    entry = fmap.get(entry_name)
    if entry is None:
        broken("entry %s not found in %s" % (entry_name, mod["tu"])); return {}
    pairing = {}     # fn name -> (cmp param index, ctx param index)
    sites = []
    for fn in fmap.values():
        for c in fn.calls():
            if c.get("callee") is not None:
                continue
            tgt = strip(fn, c["callee_v"])
            if not is_cmp_type(c["callee_v"].get("ty", "")):
                continue
            sites.append((fn, c))
            if tgt.get("k") != "v" or tgt["id"] not in fn.params:
                report("C16:comparator-not-forwarded:%s" % fn.name, "X-comparator-forwarded", fn.loc(c),
                       "%s calls a comparator that is not its own comparator parameter" % fn.name); continue
            ci = fn.param_index(fn.params[tgt["id"]]["name"])
            args = c["args"]
            if len(args) != 3:
                report("C16:comparator-arity:%s" % fn.name, "X-context-forwarded", fn.loc(c), "comparator called with %d arguments" % len(args)); continue
            a3 = strip(fn, args[2])
            if a3.get("k") != "v" or a3["id"] not in fn.params:
                report("C16:context-not-forwarded:%s" % fn.name, "X-context-forwarded", fn.loc(c),
                       "%s passes %s as comparison context instead of its own context parameter" % (fn.name, "a constant/null" if a3.get("k") != "v" else a3["id"])); continue
            xi = fn.param_index(fn.params[a3["id"]]["name"])
            if fn.name in pairing and pairing[fn.name] != (ci, xi):
                report("C16:context-inconsistent:%s" % fn.name, "X-context-forwarded", fn.loc(c),
                       "%s uses different parameters as comparison context at different call sites" % fn.name); continue
            pairing[fn.name] = (ci, xi)
    # propagate: callers must forward their own (cmp, ctx) pair to callees that have a pairing
    changed = True
    while changed:
        changed = False
        for fn in fmap.values():
            for c in fn.calls():
                g = c.get("callee")
                if g not in pairing or g not in fmap:
                    continue
                ci, xi = pairing[g]
                a_c = strip(fn, c["args"][ci]); a_x = strip(fn, c["args"][xi])
                okc = a_c.get("k") == "v" and a_c["id"] in fn.params
                okx = a_x.get("k") == "v" and a_x["id"] in fn.params
                if not okc:
                    report("C16:comparator-not-forwarded:%s->%s" % (fn.name, g), "X-comparator-forwarded", fn.loc(c),
                           "%s does not forward its own comparator parameter to %s" % (fn.name, g)); continue
                if not okx:
                    report("C16:context-not-forwarded:%s->%s" % (fn.name, g), "X-context-forwarded", fn.loc(c),
                           "%s does not forward its own context parameter to %s" % (fn.name, g)); continue
                pr = (fn.param_index(fn.params[a_c["id"]]["name"]), fn.param_index(fn.params[a_x["id"]]["name"]))
                if fn.name in pairing and pairing[fn.name] != pr:
                    report("C16:context-inconsistent:%s" % fn.name, "X-context-forwarded", fn.loc(c),
                           "%s forwards a different (comparator, context) pair to %s than it uses elsewhere" % (fn.name, g)); continue
                if fn.name not in pairing:
                    pairing[fn.name] = pr; changed = True
    if entry.name not in pairing:
        if sites:
            report("C16:entry-unpaired:%s" % entry.name, "X-context-forwarded", "%s:%s" % (entry.file, entry.line),
                   "no chain of forwarded (comparator, context) parameters connects %s to the comparator calls" % entry.name)
    else:
        ci, xi = pairing[entry.name]
        names = (entry.j["params"][ci]["name"], entry.j["params"][xi]["name"])
        if names != ("compar", "context"):
            report("C16:entry-wrong-pair:%s" % entry.name, "X-context-forwarded", "%s:%s" % (entry.file, entry.line),
                   "%s forwards (%s, %s) as (comparator, context); expected (compar, context)" % ((entry.name,) + names))
    # functions that call comparators but are not reachable in the pairing chain from the entry are covered by the propagation above
    return dict(comparator_call_sites=len(sites), pairing={k: list(v) for k, v in pairing.items()}, sites=[(f.name, f.loc(c)) for f, c in sites])


def bsearch_args(mod, report):
    fn = mod["fmap"].get("_bsearch_s_chk")
    if fn is None:
        return 0
    kp = fn.pnames.get("key"); bp = fn.pnames.get("base")
    if not kp or not bp:
        return 0
    der = derive(fn, {bp["id"]: "base"}, through_int=True)
    n = 0
    for c in fn.calls():
        if c.get("callee") is None and is_cmp_type(c["callee_v"].get("ty", "")):
            n += 1
            a0 = strip(fn, c["args"][0])
            if not (a0.get("k") == "v" and a0["id"] == kp["id"]):
                report("C16:bsearch-key-not-first", "X-bsearch-arguments", fn.loc(c), "bsearch_s does not pass key as the comparator's first argument")
            if not labels_of(c["args"][1], der, None):
                report("C16:bsearch-element-not-from-base", "X-bsearch-arguments", fn.loc(c), "bsearch_s compares key with a pointer that is not derived from base")
    return n


def bsearch_bounds(ck, fn, report):
    """clause 'comparing only elements of the array / no access outside nmemb*size' for bsearch_s: in the element-index domain (sa/idxloop.py) the
    invariant 0 <= B, B + n <= nmemb is inductive over every path of the search loop, and the pointer handed to the comparator has an index in [0, nmemb)."""
    if fn is None:
        ck.fail_broken("bsearch entry not found"); return {}
    try:
        r = idxloop.verify(fn, "base", "nmemb", "size")
    except idxloop.Undecidable as e:
        ck.fail_broken("%s: element-index clause not decidable on this shape: %s" % (fn.name, e)); return {}
    if r["paths"] < 2 or not r["calls"]:
        ck.fail_broken("%s: search loop with %d back-edge paths and %d array-pointer call arguments (expected >= 2 / >= 1)" % (fn.name, r["paths"], len(r["calls"])))
    if not r["inductive"]:
        report("C16:bsearch-range-not-inductive:%s" % fn.name, "R-search-stays-inside-the-array", "%s:%s" % (fn.file, fn.line),
               "%s: the remaining search range does not stay inside the array: %s" % (fn.name, "; ".join(r["reasons"])))
    for (line, ok) in r["calls"]:
        if not ok:
            report("C16:bsearch-element-out-of-range:%s" % fn.name, "R-search-stays-inside-the-array", "%s:%s" % (fn.file, line),
                   "%s: the pointer handed to the comparator is not known to be an element of the array (index in [0, nmemb)) on some path" % fn.name)
    return dict(back_edge_paths=r["paths"], comparator_element_arguments=len(r["calls"]), invariant="0 <= B, B + n <= nmemb", inductive=r["inductive"])


BIT_SCANS = ("llvm.cttz.", "llvm.ctlz.", "llvm.ctpop.")


def bitscan_rule(prog, tu, report):
    """clause (necessary for 'sorts for every element count'): smoothsort keeps the shape of its Leonardo heap in a two-word bit vector and
    navigates by counting trailing zeros of a word.  A bit scan whose operand is a *truncation* of a wider value ignores the upper bits:
    once the heap holds a tree 32 orders above the smallest one (18 454 930 elements) the scan sees 0 -- undefined for the intrinsic -- and
    the walk leaves the array.  Every bit-scan intrinsic call in the unit must take its operand at full width (no trunc on the way,
    through casts only)."""
    n = 0
    for fn in prog.funcs.values():
        if fn.mod["tu"] != tu:
            continue
        for i in fn.insts():
            if i["op"] != "call" or not str(i.get("callee", "")).startswith(BIT_SCANS):
                continue
            n += 1
            o, hops = i["args"][0], 0
            while o.get("k") == "v" and hops < 6:
                d = fn.defs.get(o["id"])
                if d is None or d["op"] not in ("trunc", "zext", "sext", "bitcast"):
                    break
                if d["op"] == "trunc":
                    report("C16:bit-scan-narrowed:%s:%s:%s" % (fn.name, i["callee"], d["ops"][0].get("ty")), "T-bit-scan-covers-the-word", fn.loc(i),
                           "%s scans only the low %d bits of a %s value with %s: the upper bits of the heap's shape word are ignored (a zero operand is undefined), wrong from 18454930 elements on"
                           % (fn.name, d["bits"], d["ops"][0].get("ty"), i["callee"]))
                    break
                o = d["ops"][0]; hops += 1
    return n


def run(ck):
    mods, info = frontend.load_modules()
    prog = Program(mods)
    res = {}
    nsites = 0
    for tu, entry in TUS.items():
        mod = next((m for m in prog.mods if m["tu"] == tu), None)
        if mod is None:
            ck.fail_broken("TU %s not in the build" % tu); continue
        r = analyse(mod, entry, ck.report, ck.fail_broken)
        res[tu] = r
        nsites += r.get("comparator_call_sites", 0)
        if r.get("comparator_call_sites", 0) < 1:
            ck.fail_broken("%s: no comparator call site found" % tu)
        for s in r.get("sites", [])[:4]:
            ck.sample(dict(function=s[0], site=s[1], verdict="context = own parameter, forwarded from the exported entry"))
        if tu.endswith("bsearch_s.c"):
            res[tu]["bsearch_sites"] = bsearch_args(mod, ck.report)
            res[tu]["element_index"] = bsearch_bounds(ck, prog.funcs.get(entry), ck.report)
    nscan = bitscan_rule(prog, "misc/qsort_s.c" if "misc/qsort_s.c" in TUS else next(t for t in TUS if t.endswith("qsort_s.c")), ck.report)
    if nscan < 2:
        ck.fail_broken("bit-scan rule: only %d bit-scan intrinsic calls in qsort_s.c (pntz used to have 2; the de Bruijn fallback is not interpreted)" % nscan)
    fx = selftest(ck)
    fprog = Program(frontend.load_sources([os.path.join(frontend.VERIF, "fixtures", "c16.c")]))
    got = []
    nfx = bitscan_rule(fprog, fprog.mods[0]["tu"], lambda key, *a: got.append(key))
    fx["bitscan"] = dict(fired=sorted(got), calls=nfx)
    if sorted(got) != ["C16:bit-scan-narrowed:scan_narrow:llvm.cttz.i32:i64"] or nfx != 2:
        ck.fail_broken("fixture c16.c: bit-scan rule got %s (%d calls)" % (sorted(got), nfx))
    if nsites < 5:
        ck.fail_broken("fewer comparator call sites than confirmed by hand (%d < 5)" % nsites)
    cov = dict(bit_scans_checked=nscan, explanation="All %d indirect calls of comparator type in qsort_s.c and bsearch_s.c were found; at each the callee must be the function's own comparator parameter and the "
               "third argument its own context parameter (SSA identity through bitcasts), and every internal call that reaches such a function must forward the caller's own pair, "
               "up to the exported entry's (compar, context). bsearch_s additionally passes key first and a base-derived element second. bsearch_s: in the element-index domain the invariant 0 <= B, B + n <= nmemb "
               "is inductive over both paths of the search loop and the element handed to the comparator has an index in [0, nmemb). No claim about sortedness, permutation, "
               "completeness of the search or qsort_s's array bounds." % nsites,
               obligations=nsites + len(res), discharged=nsites + len(res) - len({r["key"] for r in ck.reports}), details=res, fixtures=fx, frontend=info, exhaustive=True,
               summary="%d comparator call sites, context forwarded unchanged at all of them" % nsites)
    return ck.finish(cov, ["decided: context/key forwarding at every comparison; bsearch_s stays inside the array. Not decided: sortedness, permutation, search completeness, qsort_s bounds", "size * nmemb does not wrap (both are bounded by RSIZE_MAX_MEM at entry)"])


def selftest(ck):
    fdir = os.path.join(frontend.VERIF, "fixtures")
    prog = Program(frontend.load_sources([os.path.join(fdir, "c16.c")]))
    mod = prog.mods[0]
    out = {}
    for entry, helper, want in (("good_sort", "good_sift", 0), ("bad_sort_null", "bad_sift", 1), ("bad_sort_swapped", "bad2_sift", 1)):
        got = []
        sub = dict(mod); sub["fmap"] = {k: v for k, v in mod["fmap"].items() if k in (entry, helper)}
        analyse(sub, entry, lambda key, *a: got.append(key), lambda m: got.append("broken:" + m))
        out[entry] = got
        if bool(got) != bool(want) or any(g.startswith("broken") for g in got):
            ck.fail_broken("fixture c16.c:%s -> %s" % (entry, got))
    class Sink:
        def __init__(s): s.b = []
        def fail_broken(s, m): s.b.append(m)
    for n, want in (("fx16_bsearch_good", False), ("fx16_bsearch_overrun", True)):
        got, sk = [], Sink()
        r = bsearch_bounds(sk, prog.funcs.get(n), lambda key, *a, **k: got.append(key))
        out[n] = dict(r, reports=got)
        if sk.b or bool(got) != want:
            ck.fail_broken("fixture c16.c:%s: element-index rule %s (%s)" % (n, "did not fire" if want else "fired on conforming code", sk.b or got))
    return out
