"""C14 (bound clauses) -- tokenizing stays inside the string.

For _strtok_s_chk and _wcstok_s_chk the string being tokenized is the merge of `dest` and the saved context `*ptr`; its capacity is the
value loaded from *dmaxp at entry.  Decided:
 B  every load and store through the string cursor lies inside [0, *dmaxp) elements (capcheck obligations);
 T  the continuation handed back is consistent: at every store pair (*ptr = q, *dmaxp = n) off(q) + n <= *dmaxp at entry;
 Z  every store into the string writes the constant 0;
 P  every path that returns a possibly non-null token has stored *ptr;
 Q  where the continuation is set behind the scan cursor (cursor + 1), the element at the cursor was overwritten with 0 by a dominating store
    (a nulled delimiter) -- the continuation never steps over the string's own terminator;
 E  every comparison of a string character with a delimiter character uses the same width and extension on both sides.
NOT decided: that the call sequence yields each maximal delimiter-free substring exactly once (a property of histories and contents), and
that all STRTOK_DELIM_MAX_LEN delimiters take part in the comparison."""
import os
from ..ir import Program, return_sites
from ..lin import Lin
from ..derive import derive, labels_of
from .. import frontend, api, capcheck

FUNCS = {"_strtok_s_chk": 1, "_wcstok_s_chk": 4}


def string_root(fn):
    """the phi that merges the dest parameter with the context loaded through ptr; the entry load of *dmaxp"""
    dest = fn.pnames.get("dest"); ptr = fn.pnames.get("ptr"); dmaxp = fn.pnames.get("dmaxp")
    if not (dest and ptr and dmaxp):
        return None
    cap_load = None
    for i in fn.insts():
        if i["op"] == "load" and i["ops"][0].get("k") == "v" and i["ops"][0]["id"] == dmaxp["id"]:
            cap_load = i
            break
    root = None
    for i in fn.insts():
        if i["op"] == "phi" and i["ty"].endswith("*"):
            ins = i["incoming"]
            ids = [x["v"].get("id") for x in ins]
            if dest["id"] in ids and any(fn.defs.get(v, {}).get("op") == "load" and fn.defs[v]["ops"][0].get("id") == ptr["id"] for v in ids if v):
                root = i
                break
    return root, cap_load, dest, ptr, dmaxp


def analyse(ck, prog, name, unit, report, ck_floor=True):
    fn = prog.funcs.get(name)
    if fn is None:
        ck.fail_broken("tokenizer %s not found" % name); return {}
    sr = string_root(fn)
    if not sr or sr[0] is None or sr[1] is None:
        ck.fail_broken("%s: the merge of dest with *ptr / the entry load of *dmaxp was not found" % name); return {}
    root, cap_load, dest, ptr, dmaxp = sr
    base = api.base_name(name)
    cap0 = Lin.atom(cap_load["id"]).scale(unit)
    dstr = derive(fn, {root["id"]: "s"})
    pair_sites = []

    def probe(ctx):
        out = []
        A = ctx.A
        # T: continuation pairs
        for b in fn.j["blocks"]:
            sp = [i for i in b["insts"] if i["op"] == "store" and i["ops"][1].get("k") == "v" and i["ops"][1]["id"] == ptr["id"] and i["ops"][0].get("k") == "v"]
            sd = [i for i in b["insts"] if i["op"] == "store" and i["ops"][1].get("k") == "v" and i["ops"][1]["id"] == dmaxp["id"]]
            for i in sp:
                r, off = A.ptr(i["ops"][0])
                if r != root["id"]:
                    continue
                # the matching store of the remaining length: in this block, else the first one in a block this block dominates
                # (a conditional expression for the length puts it behind a merge)
                sd2, at = (sd[-1], b["id"]) if sd else (None, None)
                if sd2 is None:
                    for b2 in fn.order:
                        if b2 != b["id"] and fn.dominates(b["id"], b2):
                            cand = [j for j in fn.blocks[b2]["insts"] if j["op"] == "store" and j["ops"][1].get("k") == "v" and j["ops"][1]["id"] == dmaxp["id"]]
                            if cand:
                                sd2, at = cand[0], b2
                                break
                if sd2 is None:
                    continue
                # alternatives of a merged length value are judged where they come from
                alts = [(sd2["ops"][0], at)]
                dv = fn.defs.get(sd2["ops"][0].get("id")) if sd2["ops"][0].get("k") == "v" else None
                if dv is not None and dv["op"] == "phi" and dv["_bb"] not in fn.loops:
                    alts = [(x["v"], x["bb"]) for x in dv["incoming"]]
                elif dv is not None and dv["op"] == "select":
                    alts = [(dv["ops"][1], at), (dv["ops"][2], at)]
                ok = True
                for (o_, where_) in alts:
                    n = A.lin(o_).scale(unit)
                    if not (ctx.entail_at(where_, cap0 - off - n) and ctx.entail_at(where_, off)):
                        ok = False
                n = A.lin(sd2["ops"][0]).scale(unit)
                pair_sites.append((i.get("line"), ok))
                out.append(dict(fn=name, line=i.get("line"), kind="T", what="continuation pair", root=root["id"], role="string", off=repr(off), size=repr(n), cap=repr(cap0),
                                lo=True, hi=bool(ok), dead=False, ordinal=len(pair_sites), const_index=False))
        # D: the 'delim is unterminated' exits fire exactly when STRTOK_DELIM_MAX_LEN delimiters have been scanned (not earlier: every one of them takes part)
        delim = fn.pnames.get("delim")
        if delim is not None:
            from ..ir import global_roots
            for c in fn.calls():
                if "constraint_handler" not in (c.get("callee") or ""):
                    continue
                msg = None
                for a in c.get("args", ()):
                    for n in global_roots(a):
                        g = fn.mod["gmap"].get(n)
                        if g and "str" in g:
                            msg = g["str"]
                if not msg or "delim is unterminated" not in msg:
                    continue
                B = c["_bb"]
                done = False
                for h in fn.loops:
                    if not fn.dominates(h, B):
                        continue
                    pphi = [i for i in fn.blocks[h]["insts"] if i["op"] == "phi" and i["ty"].endswith("*") and A.ptr({"k": "v", "id": i["id"]})[0] == delim["id"]]
                    iphi = [i for i in fn.blocks[h]["insts"] if i["op"] == "phi" and i["ty"] == "i64" and any(x["v"].get("k") == "c" and x["v"]["v"] > 0 for x in i["incoming"])]
                    if not pphi or not iphi:
                        continue
                    mx = max(x["v"]["v"] for x in iphi[0]["incoming"] if x["v"].get("k") == "c")
                    off = A.ptr({"k": "v", "id": pphi[0]["id"]})[1]
                    goal = Lin.const(mx * unit)
                    ok = ctx.entail_at(B, off - goal) and ctx.entail_at(B, goal - off)
                    delim_sites.append((c.get("line"), ok, mx))
                    out.append(dict(fn=name, line=c.get("line"), kind="D", what="delimiter limit exit", root=delim["id"], role="delim", off=repr(off), size="-", cap=repr(goal),
                                    lo=True, hi=bool(ok), dead=False, ordinal=len(delim_sites), const_index=False))
                    done = True
                    break
        return out

    delim_sites = []
    # *dmaxp is re-read after the entry checks: every load of it that no store to *dmaxp can reach sees the entry value
    st_blocks = {i["_bb"] for i in fn.insts() if i["op"] == "store" and i["ops"][1].get("k") == "v" and i["ops"][1]["id"] == dmaxp["id"]}
    after_store = set()
    for b in st_blocks:
        after_store |= fn.reachable_from(b) - {b}
    eqs = []
    for i in fn.insts():
        if i["op"] == "load" and i["ops"][0].get("k") == "v" and i["ops"][0]["id"] == dmaxp["id"] and i is not cap_load and i["_bb"] not in after_store and i["_bb"] not in st_blocks:
            d = Lin.atom(i["id"]) - Lin.atom(cap_load["id"])
            eqs += [d, -d]
    eqs.append(Lin.atom(cap_load["id"]))
    res, info = capcheck.analyse(fn, [], prog, {}, want_kinds=("W", "R"), ssa_caps=[(root["id"], cap0, "string")], probe=probe, extra_facts=eqs)
    nB = nT = nD = 0
    for x in res:
        if x["role"] not in ("string", "delim"):
            continue
        if x["kind"] in ("W", "R"):
            nB += 1
            if not (x["lo"] and x["hi"]):
                report("C14:out-of-bounds-%s:%s:%s#%d" % ("write" if x["kind"] == "W" else "read", base, x["what"].replace(" ", "-"), x["ordinal"]), "B-inside-string",
                       "%s:%s" % (fn.file, x["line"]), "%s: %s through the string cursor at offset %s is not known to lie inside the %s elements declared by *dmaxp" % (base, x["what"], x["off"], x["cap"]))
        elif x["kind"] == "D":
            nD += 1
            if not x["hi"]:
                report("C14:delimiter-limit-early:%s#%d" % (base, x["ordinal"]), "D-all-delimiters-scanned", "%s:%s" % (fn.file, x["line"]),
                       "%s: the 'delim is unterminated' exit is not known to fire exactly after %s scanned delimiters (offset %s): fewer delimiters than STRTOK_DELIM_MAX_LEN take part in the comparison"
                       % (base, x["cap"], x["off"]))
        elif x["kind"] == "T":
            nT += 1
            if not x["hi"]:
                report("C14:continuation-too-large:%s#%d" % (base, x["ordinal"]), "T-continuation-consistent", "%s:%s" % (fn.file, x["line"]),
                       "%s: the continuation (*ptr, *dmaxp) handed back permits access past the original *dmaxp" % base)
    # Z: only zeros are stored into the string
    nZ = 0
    for i in fn.insts():
        if i["op"] == "store" and labels_of(i["ops"][1], dstr, None):
            nZ += 1
            if not (i["ops"][0].get("k") == "c" and i["ops"][0]["v"] == 0):
                report("C14:non-zero-store:%s" % base, "Z-only-terminators-written", fn.loc(i), "%s stores something other than 0 into the string" % base)
    # P: a returned token implies *ptr was stored on the path
    store_blocks = {i["_bb"] for i in fn.insts() if i["op"] == "store" and i["ops"][1].get("k") == "v" and i["ops"][1]["id"] == ptr["id"]}
    nP = 0
    for (o, bb) in return_sites(fn):
        if o is None or o.get("k") == "null":
            continue
        nP += 1
        # is bb reachable from the entry without passing a block that stores *ptr?
        reach = fn.reachable_from(fn.entry, avoid=store_blocks)
        if bb in reach:
            line = fn.term(bb).get("line")
            report("C14:token-without-context:%s:%s" % (base, "value" if o.get("k") == "v" else "const"), "P-context-stored", "%s:%s" % (fn.file, line),
                   "%s can return a token on a path that never stores the continuation pointer *ptr: the next call resumes from a stale context" % base)
    # S: the scan never steps over an element it has not tested for the terminator.  In every loop that advances the string cursor, the element
    #    at the cursor value with which an iteration starts was loaded and compared with 0 (the zero side leaving the loop) before the cursor
    #    is incremented: either inside the iteration (`while (*dest != 0)`), or -- for a test at the bottom -- at the end of the previous
    #    iteration *and* before the loop is entered.
    nS = 0

    def zero_tests(ptr_id):
        """[(block of the branch, successor taken when the element is non-zero)] for loads through exactly this pointer value compared with 0"""
        out_ = []
        for ld in fn.insts():
            if ld["op"] != "load" or ld["ops"][0].get("id") != ptr_id:
                continue
            vals = {ld["id"]}
            for _ in range(3):
                for u in fn.insts():
                    if "id" in u and u["op"] in ("sext", "zext") and u["ops"][0].get("id") in vals:
                        vals.add(u["id"])
            for c in fn.insts():
                if c["op"] == "icmp" and c["pred"] in ("eq", "ne") and any(o.get("id") in vals for o in c["ops"]) and any(o.get("k") == "c" and o["v"] == 0 for o in c["ops"]):
                    for b_ in fn.j["blocks"]:
                        t_ = b_["insts"][-1]
                        if t_["op"] == "br" and t_.get("cond", {}).get("id") == c["id"]:
                            out_.append((b_["id"], t_["t"] if c["pred"] == "ne" else t_["f"]))
        return out_
    for h, L in fn.loops.items():
        body = L["_set"]
        for ph in fn.blocks[h]["insts"]:
            if ph["op"] != "phi" or not ph["ty"].endswith("*") or not labels_of({"k": "v", "id": ph["id"]}, dstr, None):
                continue
            steps = [x for x in ph["incoming"] if x["bb"] in body and x["v"].get("k") == "v" and fn.defs.get(x["v"]["id"], {}).get("op") == "getelementptr"
                     and fn.defs[x["v"]["id"]]["base"].get("id") == ph["id"] and fn.defs[x["v"]["id"]].get("coff", 0) > 0]
            if not steps:
                continue
            nS += 1
            inc = fn.defs[steps[0]["v"]["id"]]
            # (a) tested inside the iteration: a zero test of *phi that dominates the increment and whose zero side leaves the loop
            #     (directly, or through the merge block of a short-circuit `&&` whose phi is constant on that edge)
            def leaves(bb_, nz):
                t_ = fn.term(bb_)
                z = t_["f"] if t_["t"] == nz else t_["t"]
                if z not in body:
                    return True
                tz = fn.term(z)
                if tz["op"] == "br" and "cond" in tz and tz["cond"].get("k") == "v":
                    pc = fn.defs.get(tz["cond"]["id"])
                    if pc is not None and pc["op"] == "phi" and pc["_bb"] == z:
                        cin = [x["v"] for x in pc["incoming"] if x["bb"] == bb_]
                        if cin and cin[0].get("k") == "c":
                            s2 = tz["t"] if cin[0]["v"] != 0 else tz["f"]
                            return s2 not in body
                return False
            if any((fn.dominates(nz, inc["_bb"]) or (fn.dominates(bb_, inc["_bb"]) and leaves(bb_, nz))) for (bb_, nz) in zero_tests(ph["id"]) if bb_ in body):
                continue
            # (b) tested at the bottom (on the incremented value, back edge on the non-zero side) and before entry (on the entry value)
            bottom = any(nz == h for (bb_, nz) in zero_tests(inc["id"]) if bb_ in body)
            entry_ok = True
            for x in ph["incoming"]:
                if x["bb"] in body:
                    continue
                v0 = x["v"]
                entry_ok = entry_ok and v0.get("k") == "v" and any(fn.dominates(nz, x["bb"]) or nz == x["bb"] for (bb_, nz) in zero_tests(v0["id"]))
            if not (bottom and entry_ok):
                report("C14:steps-over-untested-element:%s:%s" % (base, h.lstrip("%")), "S-terminator-tested-before-step", fn.loc(inc),
                       "%s: the loop at %s advances the string cursor over an element that was not compared with the terminator first (%s): the scan can step over the "
                       "string's own NUL and go on in whatever follows it" % (base, h, "the loop tests at the bottom and is entered at a position that was never tested" if bottom else "no terminator test of the current element precedes the step"))
    if nS < 2 and ck_floor:
        ck.fail_broken("%s: fewer than 2 cursor-advancing loops found (%d)" % (name, nS))
    # Q: the continuation never steps over an element this call did not overwrite with 0 (it may be the string's own terminator:
    #    resuming behind it makes later calls scan whatever follows the string)
    nQ = 0
    zero_stores = [i for i in fn.insts() if i["op"] == "store" and i["ops"][0].get("k") == "c" and i["ops"][0]["v"] == 0 and labels_of(i["ops"][1], dstr, None)]
    for i in fn.insts():
        if not (i["op"] == "store" and i["ops"][1].get("k") == "v" and i["ops"][1]["id"] == ptr["id"] and i["ops"][0].get("k") == "v"):
            continue
        q = fn.defs.get(i["ops"][0]["id"])
        if q is None or q["op"] != "getelementptr" or not labels_of(q["base"], dstr, None) or q.get("terms"):
            continue            # the cursor itself (or the null pointer): nothing is skipped
        nQ += 1
        step = q.get("coff", 0)
        cur = q["base"].get("id")
        ok = step == unit and any(z["ops"][1].get("k") == "v" and z["ops"][1]["id"] == cur and fn.inst_dominates(z, i) for z in zero_stores)
        if step > 0 and not ok:
            report("C14:continuation-skips-element:%s:+%d" % (base, step // unit), "Q-continuation-behind-nulled-delimiter", fn.loc(i),
                   "%s: *ptr is set %d element(s) behind the scan cursor although the element at the cursor was not overwritten with 0 on this path: if it is the string's terminator "
                   "the next call scans (and modifies) what follows the string" % (base, step // unit))
    # E: every comparison of a string character with a delimiter character treats both alike (same width, same extension): a sign-extended
    #    byte never equals a zero-extended one for values >= 0x80, so such a comparison silently ignores high-bit delimiters
    nE = 0
    ddel = derive(fn, {fn.pnames["delim"]["id"]: "d"}) if "delim" in fn.pnames else {}
    for i in fn.insts():
        if i["op"] != "icmp" or i["pred"] not in ("eq", "ne"):
            continue
        shape = []
        for o in i["ops"]:
            d = fn.defs.get(o.get("id")) if o.get("k") == "v" else None
            ext = None
            while d is not None and d["op"] in ("sext", "zext"):
                ext = d["op"]
                d = fn.defs.get(d["ops"][0].get("id")) if d["ops"][0].get("k") == "v" else None
            if d is not None and d["op"] == "load":
                src = "string" if labels_of(d["ops"][0], dstr, None) else "delim" if labels_of(d["ops"][0], ddel, None) else None
                shape.append((src, ext, d.get("size")))
        if len(shape) == 2 and {shape[0][0], shape[1][0]} == {"string", "delim"}:
            nE += 1
            if shape[0][1:] != shape[1][1:]:
                report("C14:delimiter-compare-mixed-extension:%s" % base, "E-delimiter-compared-like-with-like", fn.loc(i),
                       "%s: a string character (%s, %s bytes) is compared with a delimiter character (%s, %s bytes): for values >= 0x80 the two never compare equal, "
                       "so such a delimiter neither ends a token nor is overwritten" % (base, *[x for sh in sorted(shape) for x in (sh[1] or "no extension", sh[2])][2:4],
                                                                                         *[x for sh in sorted(shape) for x in (sh[1] or "no extension", sh[2])][0:2]))
    if nE < 2:
        ck.fail_broken("%s: fewer than 2 string-vs-delimiter character comparisons found (%d)" % (name, nE))
    if nT < 1 and ck_floor:
        ck.fail_broken("%s: no (*ptr, *dmaxp) continuation pair found: rule T would pass vacuously" % name)
    return dict(bounds_obligations=nB, continuation_pairs=nT, delimiter_limit_exits=nD, stores_into_string=nZ, token_returns=nP, continuation_steps=nQ, delimiter_comparisons=nE, cursor_advancing_loops=nS)


def error_exit_rule(prog, name, report):
    """clause 'the sequence ends with an error': every exit of a tokenizer that reports through the constraint handler hands back a null
    pointer -- a non-null result would be taken for a token.  Each block that calls the dispatch (or an error helper) is followed over its
    unconditional edges to the return; the value returned on that path must be the null constant, or a value the path has compared equal
    to null (a dominating `v == NULL` edge).  Returns the number of reporting exits judged."""
    fn = prog.funcs.get(name)
    if fn is None:
        return 0
    n = 0
    for bb in fn.blocks:
        calls = [i for i in fn.blocks[bb]["insts"] if i["op"] == "call" and ((i.get("callee") or "") in api.HANDLER_DISPATCH or (i.get("callee") or "").startswith(("handle_error", "handle_werror", "invoke_safe_")))]
        if not calls:
            continue
        cur, prev, hops = bb, None, 0
        while hops < 8:
            t = fn.term(cur)
            if t["op"] == "ret":
                break
            if t["op"] != "br" or "cond" in t:
                cur = None
                break
            prev, cur = cur, t["t"]
            hops += 1
        if cur is None or fn.term(cur)["op"] != "ret" or not fn.term(cur).get("ops"):
            continue
        n += 1
        v = fn.term(cur)["ops"][0]
        d = fn.defs.get(v.get("id")) if v.get("k") == "v" else None
        if d is not None and d["op"] == "phi" and d["_bb"] == cur and prev is not None:
            v = next((x["v"] for x in d["incoming"] if x["bb"] == prev), v)
        if v.get("k") == "null":
            continue
        ok = False
        if v.get("k") == "v":
            # a dominating branch whose taken side implies `v == NULL` (directly, through `!v`, or as the last operand of an `a && !v` merge)
            for tb in fn.blocks:
                t = fn.term(tb)
                if t["op"] != "br" or "cond" not in t or t["cond"].get("k") != "v":
                    continue
                c, neg, only_true = fn.defs.get(t["cond"]["id"]), False, False
                for _ in range(4):
                    if c is None:
                        break
                    if c["op"] == "phi" and c["ty"] == "i1":
                        live = [x["v"] for x in c["incoming"] if not (x["v"].get("k") == "c" and not x["v"].get("v"))]
                        if len(live) != 1 or live[0].get("k") != "v":
                            c = None
                            break
                        c, only_true = fn.defs.get(live[0]["id"]), True
                    elif c["op"] == "xor" and c["ops"][1].get("k") == "c" and c["ops"][0].get("k") == "v":
                        c, neg = fn.defs.get(c["ops"][0]["id"]), not neg
                    else:
                        break
                if c is None or c["op"] != "icmp" or c["pred"] not in ("eq", "ne") or not any(o.get("id") == v["id"] for o in c["ops"]) or not any(o.get("k") == "null" for o in c["ops"]):
                    continue
                iseq = (c["pred"] == "eq") != neg          # the condition is true exactly when v == NULL?
                if only_true and not iseq:
                    continue                                # a merge says something only on its true side
                nullside = t["t"] if iseq else t["f"]
                other = t["f"] if iseq else t["t"]
                if fn.dominates(nullside, bb) and not fn.dominates(other, bb):
                    ok = True
        if not ok:
            msg = next((a for c in calls for a in [c] ), calls[0])
            report("C14:error-exit-returns-a-pointer:%s:%s" % (api.base_name(name), (v.get("id") or "?").lstrip("%")), "X-error-exit-returns-null", fn.loc(calls[0]),
                   "%s reports a violation through the handler at line %s and then returns %s, which is not known to be null on that path: the caller takes it for a token"
                   % (api.base_name(name), calls[0].get("line"), v.get("id") or v))
    return n


def run(ck):
    mods, info = frontend.load_modules()
    prog = Program(mods)
    per = {}
    for name, unit in FUNCS.items():
        per[api.base_name(name)] = analyse(ck, prog, name, unit, ck.report)
        ck.sample(dict(function=api.base_name(name), **per[api.base_name(name)]))
    for name in FUNCS:
        nx = error_exit_rule(prog, name, ck.report)
        per[api.base_name(name)]["reporting_exits_returning_null"] = nx
        if nx < 5:
            ck.fail_broken("%s: only %d exits that report through the handler found (< 5)" % (name, nx))
    fx = selftest(ck)
    tot = sum(sum(v.values()) for v in per.values() if v)
    if tot < 30:
        ck.fail_broken("only %d obligations generated for the tokenizers (< 30)" % tot)
    cov = dict(explanation="strtok_s and wcstok_s: the tokenized string is the merge of dest and *ptr with capacity *dmaxp at entry. Per function: bounded loads/stores through the string "
               "cursor (B), consistency of every (*ptr, *dmaxp) pair handed back (T), only zeros stored into the string (Z), *ptr stored on every path that returns a token (P), the continuation steps only over an element nulled by this call (Q). "
               "Not decided: that the sequence of calls returns each maximal token exactly once.",
               obligations=tot, discharged=tot - len({r["key"] for r in ck.reports}), functions=per, fixtures=fx, frontend=info,
               summary="%d obligations over 2 tokenizers" % tot)
    return ck.finish(cov, ["the caller passes the *ptr / *dmaxp pair of the previous call unchanged", "only the bound clauses of C14 are decided"])


def selftest(ck):
    fdir = os.path.join(frontend.VERIF, "fixtures")
    prog = Program(frontend.load_sources([os.path.join(fdir, "c14.c")]))
    out = {}
    class Sink:
        def __init__(s): s.broken = []
        def fail_broken(s, m): s.broken.append(m)
    for name, want in (("fx14_good", False), ("fx14_skip_terminator", True)):
        got = []
        sk = Sink()
        r = analyse(sk, prog, name, 1, lambda key, *a, **k: got.append(key))
        q = [k for k in got if "continuation-skips-element" in k]
        out[name] = dict(continuation_steps=r.get("continuation_steps"), rule_Q_reports=len(q), other=[k for k in got if k not in q][:3])
        if sk.broken or not r.get("continuation_steps") or bool(q) != want:
            ck.fail_broken("fixture c14.c:%s: rule Q %s (%s)" % (name, "did not fire" if want else "fired on conforming code", sk.broken or got))
    for name, want in (("fx14_err_null", 0), ("fx14_err_ptr", 1)):
        got = []
        nx = error_exit_rule(prog, name, lambda key, *a, **k: got.append(key))
        out[name] = dict(reporting_exits=nx, reports=got)
        if len(got) != want or nx < 1:
            ck.fail_broken("fixture c14.c:%s: error-exit rule reported %s over %d exits" % (name, got, nx))
    return out
