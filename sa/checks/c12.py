"""C12 -- reentrancy: the library keeps no mutable static state apart from the handler registrations.

Rule S (exhaustive over all definitions with static storage duration): a non-constant global / function-static /
thread-local object that is written anywhere (store through a derived pointer, writing effect of a callee, or its
address escaping to memory / unknown code / the caller) must be one of the constraint-handler registrations,
and those may be written only by their own registration function.
Rule U: no call to a libc routine that keeps hidden static state.
"""
import json, os
from ..ir import Program, global_roots
from ..derive import derive, labels_of, Summaries
from ..effects import MT_UNSAFE
from .. import frontend

VERIF = frontend.VERIF


def handler_type(ty):
    # void (i8*, i8*, i32)*   == constraint_handler_t
    return ty.replace(" ", "") == "void(i8*,i8*,i32)*"


def analyse(prog):
    """returns (objects, findings, unsafe_calls, unmodelled)"""
    summ = Summaries(prog)
    objs = {}     # key -> dict
    ext_names = {}
    for m in prog.mods:
        for g in m["globals"]:
            if g["decl"] or g["constant"]:
                continue
            key = (m["tu"], g["name"])
            objs[key] = dict(tu=m["tu"], name=g["name"], ty=g["ty"], tls=g["tls"], internal=g["internal"], size=g.get("size"),
                             srcname=g.get("srcname"), line=g.get("line"), writes=[], escapes=[], reads=0, unmodelled=[])
            if not g["internal"]:
                ext_names[g["name"]] = key
    n_const = sum(1 for m in prog.mods for g in m["globals"] if not g["decl"] and g["constant"])
    unsafe = []
    for fn in prog.allfuncs:
        m = fn.mod
        groots = dict(ext_names)
        for g in m["globals"]:
            if not g["decl"] and not g["constant"] and g["internal"]:
                groots[g["name"]] = (m["tu"], g["name"])
        for c in fn.calls():
            if c.get("callee") in MT_UNSAFE and prog.resolve(fn, c["callee"]) is None:
                unsafe.append((fn, c))
        if not groots:
            continue
        der = derive(fn, None, groots, through_int=True, retmap=summ.retmap(fn))
        for i in fn.insts():
            op = i["op"]
            if op == "store":
                for l in labels_of(i["ops"][1], der, groots):
                    objs[l]["writes"].append((fn.name, fn.loc(i), "store"))
                for l in labels_of(i["ops"][0], der, groots):
                    objs[l]["escapes"].append((fn.name, fn.loc(i), "address stored to memory"))
            elif op == "load":
                for l in labels_of(i["ops"][0], der, groots):
                    objs[l]["reads"] += 1
            elif op in ("call", "invoke"):
                for (k, l, kind) in summ.call_effects(fn, i, der, groots):
                    what = i.get("callee", "<indirect>")
                    if kind == "w":
                        objs[l]["writes"].append((fn.name, fn.loc(i), "written by %s (arg %d)" % (what, k)))
                    elif kind == "esc":
                        objs[l]["escapes"].append((fn.name, fn.loc(i), "address passed to %s (arg %d)" % (what, k)))
                    elif kind == "unmodelled":
                        objs[l]["unmodelled"].append((fn.name, fn.loc(i), what))
            elif op == "ret":
                for o in i.get("ops", ()):
                    for l in labels_of(o, der, groots):
                        objs[l]["escapes"].append((fn.name, fn.loc(i), "address returned to the caller"))
            elif op in ("atomicrmw", "cmpxchg"):
                for l in labels_of(i["ops"][0], der, groots):
                    objs[l]["writes"].append((fn.name, fn.loc(i), op))
    return objs, unsafe, n_const


def run(ck):
    mods, info = frontend.load_modules()
    prog = Program(mods)
    table = json.load(open(os.path.join(VERIF, "tables", "c12_registrations.json")))
    allowed = {(r["tu"], r["name"]): r for r in table["registrations"]}
    objs, unsafe, n_const = analyse(prog)
    # anchors
    for k, r in allowed.items():
        if k not in objs:
            ck.fail_broken("handler registration %s:%s named in tables/c12_registrations.json is not in the IR" % k)
        elif not handler_type(objs[k]["ty"]):
            ck.fail_broken("registration %s:%s no longer has the handler type (%s)" % (k + (objs[k]["ty"],)))
    n_written = 0
    never = []
    for key, o in sorted(objs.items()):
        tu, name = key
        mutated = o["writes"] or o["escapes"]
        short = os.path.basename(tu)
        if o["unmodelled"] and not mutated:
            ck.fail_broken("static object %s:%s is passed to unmodelled callee %s" % (short, name, o["unmodelled"][0][2]))
        if not mutated:
            never.append("%s:%s" % (short, name))
            continue
        n_written += 1
        if key in allowed:
            okw = set(allowed[key]["writers"])
            for (f, loc, how) in o["writes"] + o["escapes"]:
                if f not in okw:
                    ck.report("C12:registration-foreign-writer:%s:%s:%s" % (short, name, f), "S-registration", loc,
                              "handler registration '%s' is modified by %s (%s); only %s may" % (name, f, how, sorted(okw)),
                              dict(object=o))
            continue
        first = (o["writes"] + o["escapes"])[0]
        ck.report("C12:mutable-static:%s:%s" % (short, name), "S-mutable-static", first[1],
                  "object with static storage '%s' (%s, %s bytes%s) is modified: %s in %s%s" % (
                      o["srcname"] or name, o["ty"][:40], o["size"], ", thread-local" if o["tls"] else "", first[2], first[0],
                      " (+%d more sites)" % (len(o["writes"]) + len(o["escapes"]) - 1) if len(o["writes"]) + len(o["escapes"]) > 1 else ""),
                  dict(object=o))
        ck.sample(dict(object="%s:%s" % (short, name), verdict="mutable", sites=(o["writes"] + o["escapes"])[:3]))
    for fn, c in unsafe:
        ck.report("C12:mt-unsafe-call:%s:%s" % (fn.name, c["callee"]), "U-mt-unsafe-libc", fn.loc(c),
                  "%s calls %s(), which keeps hidden static state" % (fn.name, c["callee"]))
    # fixture self-test
    fx = fixtures_selftest(ck)
    if info["tus"] < frontend.MIN_TUS:
        ck.fail_broken("only %d TUs analysed" % info["tus"])
    if len(objs) < 4:
        ck.fail_broken("fewer than 4 non-constant static objects found (%d): the registrations are anchors" % len(objs))
    for key in list(allowed)[:2]:
        if key in objs:
            ck.sample(dict(object="%s:%s" % (os.path.basename(key[0]), key[1]), verdict="registration (allowed)", writers=sorted({w[0] for w in objs[key]["writes"]})))
    nfun = len(prog.allfuncs)
    cov = dict(
        explanation="Exhaustive enumeration of every definition with static storage duration in the LLVM IR of all %d TUs of the real build "
                    "(%d non-constant, %d constant); for each non-constant one, every store / writing callee effect / address escape in all %d "
                    "function definitions was collected by pointer derivation (gep, casts, phi, select, integer round trips) with inter-procedural "
                    "write summaries. Rule: written ⇒ must be a handler registration written only by its own setter. Plus who-may-call rule for "
                    "MT-unsafe libc routines." % (info["tus"], len(objs), n_const, nfun),
        exhaustive=True,
        obligations=len(objs) + 1, discharged=len(objs) + 1 - len({r["key"] for r in ck.reports}),
        tus=info["tus"], functions=nfun, static_objects_nonconst=len(objs), static_objects_const=n_const,
        written_objects=n_written, never_written_nonconst=len(never), never_written_sample=never[:8],
        mt_unsafe_call_sites=len(unsafe), fixtures=fx, frontend=info,
        summary="%d static objects, %d written, %d allowed registrations" % (len(objs), n_written, len(allowed)),
    )
    return ck.finish(cov, ["clang-14 lowering of the configured build (x86-64, glibc)", "libc's own reentrancy (effect table sa/effects.py)",
                           "platform TLS for the thread-local registrations"])


def fixtures_selftest(ck):
    res = {}
    fdir = os.path.join(VERIF, "fixtures")
    pos = frontend.load_sources([os.path.join(fdir, "c12_pos.c")])
    neg = frontend.load_sources([os.path.join(fdir, "c12_neg.c")])
    o, u, _ = analyse(Program(pos))
    fired = sorted(k[1] for k, v in o.items() if v["writes"] or v["escapes"])
    want = ["counter", "fmt_long.buf", "leak_addr.cell", "tls_scratch"]
    if fired != want:
        ck.fail_broken("fixture c12_pos: rule S fired on %s, expected %s" % (fired, want))
    if sorted(c["callee"] for f, c in u) != ["asctime", "strtok"]:
        ck.fail_broken("fixture c12_pos: rule U fired on %s" % [c["callee"] for f, c in u])
    res["c12_pos"] = dict(rule_S=fired, rule_U=sorted(c["callee"] for f, c in u))
    o, u, _ = analyse(Program(neg))
    fired = sorted(k[1] for k, v in o.items() if v["writes"] or v["escapes"])
    if fired or u:
        ck.fail_broken("fixture c12_neg: rules fired on conforming code: %s %s" % (fired, [c["callee"] for f, c in u]))
    res["c12_neg"] = dict(rule_S=fired, rule_U=[], objects=len(o))
    return res
