"""Shared driver for the bounded-access checks C01 (writes) and C02 (reads)."""
import json, os, re
from ..ir import Program
from .. import frontend, api, par, capcheck
from ..pathflags import Engine, Plugin, BudgetExceeded
from ..lin import Lin

VERIF = frontend.VERIF


def worker(prog, key):
    tu, name = key
    fn = next(f for f in prog.allfuncs if f.name == name and f.mod["tu"] == tu)
    roles = worker.roles
    rl = roles.get(name, [])
    if capcheck.NOSLACK and name in ("handle_error", "handle_werror"):
        rl = []          # in the no-slack build their length parameter is unused, not a capacity: the one-element store is an obligation of each call site
    res, info = capcheck.analyse(fn, rl, prog, roles, want_kinds=("W", "R", "L"))
    und = [x for x in res if not (x["lo"] and x["hi"]) and x.get("const_index") and not x["role"].startswith(("local:", "global:"))
           and (x["what"] in ("store", "load") or (capcheck.NOSLACK and x["what"] in ("call handle_error", "call handle_werror")))]
    if und:
        refine(prog, fn, rl, res)
    return dict(res=res, loops=info["loops"], file=fn.file)


class BoundFlags(Plugin):
    """path-sensitive second opinion for accesses at a constant offset of a caller buffer: is 'offset + size <= declared size' decided on every path reaching the access?"""
    inline_depth = 0

    def __init__(s, caps):
        s.caps = caps            # param id -> (size param id, unit)

    def init(s, eng):
        s.pinned = {c[0] for c in s.caps.values()}
        s.seen = {}
        return frozenset()       # values loaded from caller memory since the last store / call: {(root, offset, value)} (two loads of *srcp agree)

    def load_value(s, pl, p, i, fr, env, eng):
        if p[0] == "p":
            for (r, o, v) in pl:
                if r == p[1] and o == p[2]:
                    return v
        return None

    def on_event(s, pl, ev, eng, st):
        if ev[0] == "store" or ev[0] == "indirect":
            pl = frozenset()
        elif ev[0] == "load" and ev[1][0] == "p" and "id" in ev[2] and not any(r == ev[1][1] and o == ev[1][2] for (r, o, v) in pl) and len(pl) < 8:
            v = eng.opaque(ev[3], ev[2]["id"], ev[2]["ty"])
            s.pinned.add("&" + v[1] if v[0] == "p" else ev[3].pre + ev[2]["id"])      # facts about a remembered value outlive its SSA name
            pl = pl | {(ev[1][1], ev[1][2], v)}
        if ev[0] in ("load", "store"):
            p = ev[1]
            inst, fr = (ev[2], ev[3]) if ev[0] == "load" else (ev[3], ev[4])
            if fr.depth == 0 and p[0] == "p" and p[1] in s.caps and p[2].is_const():
                sz, unit = s.caps[p[1]]
                need = p[2] + Lin.const(inst.get("size", 1))
                ok = p[2].c >= 0 and eng.decide(("cmp", "uge", Lin.atom(sz).scale(unit), need), st[1]) is True
                k = (inst["_bb"], inst["_k"])
                s.seen[k] = s.seen.get(k, True) and ok
        return pl

    def on_call(s, pl, call, eng, st):
        pl0, pl = pl, frozenset()
        if call[0] == "ext" and (call[1].startswith("llvm.") or not call[2].get("w")) and not call[2].get("barrier"):
            pl = pl0          # readers and intrinsics leave caller memory alone
        if call[0] == "lib" and capcheck.NOSLACK and call[1].name in ("handle_error", "handle_werror") and call[4].depth == 0:
            p, inst = call[2][0], call[3]
            if p[0] == "p" and p[1] in s.caps and p[2].is_const():
                sz, unit = s.caps[p[1]]
                need = p[2] + Lin.const(4 if call[1].name == "handle_werror" else 1)
                ok = p[2].c >= 0 and eng.decide(("cmp", "uge", Lin.atom(sz).scale(unit), need), st[1]) is True
                k = (inst["_bb"], inst["_k"])
                s.seen[k] = s.seen.get(k, True) and ok
        return [(pl, [])]


def refine(prog, fn, rl, res):
    pn = fn.pnames
    caps = {}
    for (buf, ln, unit) in rl:
        if buf in pn and ln in pn and pn[ln]["ty"] == "i64":
            caps[pn[buf]["id"]] = (pn[ln]["id"], unit or {"i8*": 1, "i16*": 2, "i32*": 4, "i64*": 8}.get(pn[buf]["ty"], 1))
    if not caps:
        return
    pg = BoundFlags(caps)
    eng = Engine(prog, fn, pg, budget=60000)
    try:
        eng.run()
    except BudgetExceeded:
        return
    by_line = {}
    for b in fn.j["blocks"]:
        for i in b["insts"]:
            if (i["_bb"], i["_k"]) in pg.seen:
                what = i["op"] if i["op"] in ("load", "store") else "call " + (i.get("callee") or "")
                by_line.setdefault((what, i.get("line")), []).append(pg.seen[(i["_bb"], i["_k"])])
    for x in res:
        if not (x["lo"] and x["hi"]) and x.get("const_index") and (x["what"] in ("store", "load") or x["what"] in ("call handle_error", "call handle_werror")):
            v = by_line.get((x["what"], x["line"]))
            if v and all(v):
                x["lo"] = x["hi"] = True
                x["refined"] = "path-sensitive"


_DEFAULT_SEEN = {}      # key -> (offset, size, capacity) of the undischarged obligations of the default build (same access in the no-slack build = same finding)


def run(ck, pid, kind, floor_obl, floor_fn):
    _DEFAULT_SEEN.clear()
    prog, info, st = run_config(ck, pid, kind, floor_obl, floor_fn, "default")
    if ck.tier == "thorough":
        # the no-slack build compiles different clearing code (single terminator stores instead of memsets): same obligations, own keys
        _, info2, st2 = run_config(ck, pid, kind, 0, 0, "noslack")
        st["noslack"] = {k: st2[k] for k in ("total", "discharged", "outside_reach", "functions", "fully_discharged_functions")}
        info = dict(info, noslack=info2)
    return prog, info, st


def run_config(ck, pid, kind, floor_obl, floor_fn, config):
    mods, info = frontend.load_modules(config=config)
    prog = Program(mods)
    capcheck.NOSLACK = (config == "noslack")
    sfx = "" if config == "default" else ":" + config
    note = "" if config == "default" else " [no-slack configuration]"
    worker.roles = capcheck.all_roles(prog)
    table = json.load(open(os.path.join(VERIF, "tables", "cap_reach.json")))
    reach = [(re.compile(rx), why) for rx, why in table["reach"]]
    reach_counts = table.get("counts", {})       # "<function>|<W/R>" -> number of undischarged accesses recorded on the pinned tree
    reach_seen = {}
    keys = [(f.mod["tu"], f.name) for f in prog.allfuncs]
    res, err = par.pmap(prog, worker, keys)
    for k, e in err.items():
        ck.fail_broken("%s: internal error: %s" % (k[1], e.strip().splitlines()[-1]))
    tot = dis = nreach = 0
    reach_fns = {}
    full = 0
    per = {}
    for k in sorted(res):
        r = [x for x in res[k]["res"] if x["kind"] == kind]
        if not r:
            continue
        base = api.base_name(k[1])
        ok_all = True
        for x in r:
            tot += 1
            good = x["lo"] and x["hi"]
            sig = "%s|%s|%s|%s" % (k[1], x["kind"], x["what"], x["role"])
            if good:
                dis += 1
                if len(ck.samples) < 4 and not x["const_index"]:
                    ck.sample(dict(function=base, access="%s %s" % (x["kind"], x["what"]), buffer=x["role"], offset=x["off"], size=x["size"], capacity=x["cap"], verdict="0 <= off and off + size <= cap entailed"))
                continue
            ok_all = False
            why = next((w for rx, w in reach if rx.search(sig)), None)
            if why is not None:
                nreach += 1
                reach_fns.setdefault(base, why)
                reach_seen.setdefault("%s|%s" % (k[1], kind), []).append(x)
                continue
            what = x["what"].replace(" ", "-")
            key = "%s:%s:%s:%s:%s#%d" % (pid, base, "write" if kind == "W" else "read", what, x["role"], x["ordinal"])
            sig3 = (x["off"], x["size"], x["cap"])
            if config == "default":
                _DEFAULT_SEEN[key] = sig3
            elif _DEFAULT_SEEN.get(key) != sig3:
                key += sfx            # not the same access as in the default build: its own finding

            bound = "not provably >= 0" if not x["lo"] else ""
            bound += (" and " if bound and not x["hi"] else "") + ("off + size <= capacity not entailed" if not x["hi"] else "")
            ck.report(key, "B-%s-in-bounds" % ("write" if kind == "W" else "read"), "%s:%s" % (res[k]["file"], x["line"]),
                      "%s: %s through %s at offset %s, size %s, declared capacity %s: %s%s" % (base, x["what"], x["role"], x["off"], x["size"], x["cap"], bound, note),
                      dict(obligation=x))
        per[base] = dict(obligations=len(r), discharged=sum(1 for x in r if x["lo"] and x["hi"]))
        if ok_all:
            full += 1
    # the reach table says "not analysed", not "anything goes": more undischarged accesses than were recorded for a function means its code changed
    # in a way the domain cannot bound.  That is not a verdict about the new code (a behaviour-preserving rewrite of such a function does it
    # too: benign patch B13) -- the check answers 'analysis broken': the recorded description of what it cannot analyse no longer fits this tree
    if config == "default":
        for fk, xs in sorted(reach_seen.items()):
            want = reach_counts.get(fk)
            if want is None:
                ck.fail_broken("tables/cap_reach.json has no recorded count for %s (%d undischarged accesses match a reach rule)" % (fk, len(xs)))
            elif len(xs) > want:
                x = xs[-1]
                fname = fk.split("|")[0]
                ck.fail_broken("%s (%s:%s): %d accesses of this function cannot be bounded by the analysis where %d were recorded for the pinned tree (functions listed in tables/cap_reach.json): "
                               "a new or changed %s, e.g. %s through %s at offset %s, size %s against capacity %s -- not decided"
                               % (api.base_name(fname), res[next(k for k in res if k[1] == fname)]["file"], x["line"], len(xs), want, "write" if kind == "W" else "read", x["what"], x["role"], x["off"], x["size"], x["cap"]))
    st_reach_counts = {fk: len(xs) for fk, xs in reach_seen.items()}
    if tot < floor_obl:
        ck.fail_broken("only %d %s obligations generated (< %d)" % (tot, kind, floor_obl))
    if full < floor_fn:
        ck.fail_broken("only %d functions fully discharged (< %d confirmed on the pinned tree)" % (full, floor_fn))
    return prog, info, dict(total=tot, discharged=dis, outside_reach=nreach, functions=len(per), fully_discharged_functions=full, outside_reach_functions=reach_fns, outside_reach_counts=st_reach_counts)
