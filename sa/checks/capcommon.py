"""Shared driver for the bounded-access checks C01 (writes) and C02 (reads)."""
import json, os, re
from ..ir import Program
from .. import frontend, api, par, capcheck

VERIF = frontend.VERIF


def worker(prog, key):
    tu, name = key
    fn = next(f for f in prog.allfuncs if f.name == name and f.mod["tu"] == tu)
    roles = worker.roles
    res, info = capcheck.analyse(fn, roles.get(name, []), prog, roles)
    return dict(res=res, loops=info["loops"], file=fn.file)


def run(ck, pid, kind, floor_obl, floor_fn):
    prog, info, st = run_config(ck, pid, kind, floor_obl, floor_fn, "default")
    if ck.tier == "thorough":
        # the no-slack build compiles different clearing code (single terminator stores instead of memsets): same obligations, own keys
        _, info2, st2 = run_config(ck, pid, kind, 0, 0, "noslack")
        st["noslack"] = {k: st2[k] for k in ("total", "discharged", "outside_reach", "functions", "fully_discharged_functions")}
        info = dict(info, noslack=info2)
    return prog, info, st


def run_config(ck, pid, kind, floor_obl, floor_fn, config):
    mods, info = frontend.load_modules(config=config)
    prog = Program(mods)
    sfx = "" if config == "default" else ":" + config
    note = "" if config == "default" else " [no-slack configuration]"
    worker.roles = capcheck.all_roles(prog)
    reach = [(re.compile(rx), why) for rx, why in json.load(open(os.path.join(VERIF, "tables", "cap_reach.json")))["reach"]]
    keys = [(f.mod["tu"], f.name) for f in prog.allfuncs]
    res, err = par.pmap(prog, worker, keys)
    for k, e in err.items():
        ck.fail_broken("%s: internal error: %s" % (k[1], e.strip().splitlines()[-1]))
    tot = dis = nreach = 0
    reach_fns = {}
    full = 0
    per = {}
    for k in sorted(res):
        r = [x for x in res[k]["res"] if x["kind"] == kind]
        if not r:
            continue
        base = api.base_name(k[1])
        ok_all = True
        for x in r:
            tot += 1
            good = x["lo"] and x["hi"]
            sig = "%s|%s|%s|%s" % (k[1], x["kind"], x["what"], x["role"])
            if good:
                dis += 1
                if len(ck.samples) < 4 and not x["const_index"]:
                    ck.sample(dict(function=base, access="%s %s" % (x["kind"], x["what"]), buffer=x["role"], offset=x["off"], size=x["size"], capacity=x["cap"], verdict="0 <= off and off + size <= cap entailed"))
                continue
            ok_all = False
            why = next((w for rx, w in reach if rx.search(sig)), None)
            if why is not None:
                nreach += 1
                reach_fns.setdefault(base, why)
                continue
            what = x["what"].replace(" ", "-")
            key = "%s:%s:%s:%s:%s#%d%s" % (pid, base, "write" if kind == "W" else "read", what, x["role"], x["ordinal"], sfx)
            bound = "not provably >= 0" if not x["lo"] else ""
            bound += (" and " if bound and not x["hi"] else "") + ("off + size <= capacity not entailed" if not x["hi"] else "")
            ck.report(key, "B-%s-in-bounds" % ("write" if kind == "W" else "read"), "%s:%s" % (res[k]["file"], x["line"]),
                      "%s: %s through %s at offset %s, size %s, declared capacity %s: %s%s" % (base, x["what"], x["role"], x["off"], x["size"], x["cap"], bound, note),
                      dict(obligation=x))
        per[base] = dict(obligations=len(r), discharged=sum(1 for x in r if x["lo"] and x["hi"]))
        if ok_all:
            full += 1
    if tot < floor_obl:
        ck.fail_broken("only %d %s obligations generated (< %d)" % (tot, kind, floor_obl))
    if full < floor_fn:
        ck.fail_broken("only %d functions fully discharged (< %d confirmed on the pinned tree)" % (full, floor_fn))
    return prog, info, dict(total=tot, discharged=dis, outside_reach=nreach, functions=len(per), fully_discharged_functions=full, outside_reach_functions=reach_fns)
