"""C09 -- %n is never executed by any formatted input/output function.

E  (engine, exact): in the library's own formatter and everything it calls, no store and no writing effect goes through a
   pointer obtained from the variadic argument area (load depth 2 from a va_list), and the 'n' specifier reaches only a
   negative return behind a constraint-handler call.
D  (delegation): an entry point that hands the caller's format to a libc v*printf / v*scanf must inspect it first; an
   inspection that consists only of a literal "%n" substring search (with or without a one-character look-behind) is unsound
   for the libc directive grammar -- decided by enumerating both languages over a small alphabet and printing the shortest
   format the filter accepts and libc executes.
"""
import itertools, os
from ..ir import Program, operands, return_sites, global_roots
from ..derive import derive, labels_of, Summaries
from ..effects import external_effect
from ..pathflags import Engine, Plugin, BudgetExceeded
from ..lin import Lin
from .. import frontend

ENGINE = "safec_vsnprintf_s"
MIN_ENTRIES = 28


# ----------------------------------------------------------------------------- language models
def libc_executes_n(fmt, gram):
    """does libc's directive parser perform an 'n' conversion for this format? (printf / scanf grammars)"""
    i = 0
    n = len(fmt)
    while i < n:
        if fmt[i] != "%":
            i += 1
            continue
        i += 1
        if i >= n:
            return False
        if fmt[i] == "%":
            i += 1
            continue
        if gram.endswith("printf"):
            while i < n and fmt[i] in "-+ #0'I":
                i += 1
            while i < n and (fmt[i].isdigit() or fmt[i] == "*" or fmt[i] == "$"):
                i += 1
            if i < n and fmt[i] == ".":
                i += 1
                while i < n and (fmt[i].isdigit() or fmt[i] == "*" or fmt[i] == "$"):
                    i += 1
        else:
            while i < n and fmt[i] in "*'":
                i += 1
            while i < n and fmt[i].isdigit():
                i += 1
            while i < n and fmt[i] in "am":
                break
        while i < n and fmt[i] in "hlqLjzt":
            i += 1
        if i >= n:
            return False
        c = fmt[i]
        if c == "n":
            return True
        if c == "[" and gram.endswith("scanf"):
            i += 1
            if i < n and fmt[i] == "^":
                i += 1
            if i < n and fmt[i] == "]":
                i += 1
            while i < n and fmt[i] != "]":
                i += 1
        i += 1
    return False


STANDARD_PASSES = {"substring": {"A"}, "lookbehind": {"A", "C"}}


def filter_rejects(fmt, kind):
    """model of the pre-scan found in the tree: the first literal '%n' decides.  Abstract outcomes of the search:
       A not found, B found at offset 0, C found later with '%' in front, D found later with another character in front.
       kind is 'substring', 'lookbehind' or a frozenset of the outcomes that are let through (decided from the code, see filter_passes)."""
    k = fmt.find("%n")
    case = "A" if k < 0 else "B" if k == 0 else "C" if fmt[k - 1] == "%" else "D"
    passes = STANDARD_PASSES.get(kind, kind)
    return case not in passes


class FilterFlags(Plugin):
    """path plugin: which abstract outcomes of the '%n' search reach the libc sink call"""
    inline_depth = 0

    def __init__(s, sink, fmt_root):
        s.sink = sink
        s.fmt = fmt_root

    def init(s, eng):
        s.pinned = set()
        s.passes = set()
        s.nsink = 0
        return (None, frozenset(), None)     # (search call id, atoms of characters loaded in front of the match, value of the match)

    def on_event(s, pl, ev, eng, st):
        if ev[0] == "load" and pl[0] is not None:
            p = ev[1]
            if p[0] == "p" and p[1] == s.fmt:
                off = p[2] - Lin.atom("off:" + pl[0])
                if off.is_const() and off.c < 0:
                    a = ev[3].pre + ev[2]["id"]
                    s.pinned.add(a)
                    return (pl[0], pl[1] | {a}, pl[2])
        return pl

    def on_result(s, pl, ev, value):
        if pl[0] == ev[6] and pl[2] is None:
            return (pl[0], pl[1], value)
        return pl

    def on_call(s, pl, call, eng, st):
        if call[0] != "ext":
            return [(pl, [])]
        name, eff, args, i, fr, vid = call[1:7]
        env, facts, epoch = st
        if name in SEARCHERS and args and args[0][0] == "p" and args[0][1] == s.fmt:
            s.pinned.add("off:" + vid)
            return [((vid, frozenset(), None), [])]
        if i is s.sink:
            s.nsink += 1
            if pl[0] is None:
                s.passes.add("unsearched")
                return [(pl, [])]
            pv = pl[2]
            isnull = True if pv[1] == "null" else eng.decide(("cmp", "eq", eng.as_lin(pv), Lin.const(0)), facts)
            if isnull is not False:
                s.passes.add("A")
            if isnull is not True:
                b = eng.decide(("cmp", "eq", Lin.atom("off:" + pl[0]), Lin.const(0)), facts)
                if b is not False:
                    s.passes.add("B")
                if b is not True:
                    if not pl[1]:
                        s.passes |= {"C", "D"}
                    for a in pl[1]:
                        e = eng.decide(("cmp", "eq", Lin.atom(a), Lin.const(37)), facts)
                        if e is not False:
                            s.passes.add("C")
                        if e is not True:
                            s.passes.add("D")
        return [(pl, [])]


def filter_passes(prog, fn, pidx, sink):
    """decide from all paths of fn which search outcomes let the format through to the sink call"""
    pg = FilterFlags(sink, fn.j["params"][pidx]["id"])
    eng = Engine(prog, fn, pg, budget=60000)
    try:
        eng.run()
    except BudgetExceeded:
        return None
    if pg.nsink == 0:
        return None
    return frozenset(pg.passes)


def witnesses(kind, gram, maxlen=4, limit=3):
    out = []
    alpha = "%nl5*a"
    for L in range(1, maxlen + 1):
        for t in itertools.product(alpha, repeat=L):
            f = "".join(t)
            if libc_executes_n(f, gram) and (kind == "none" or not filter_rejects(f, kind)):
                out.append(f)
                if len(out) >= limit:
                    return out
    return out


# ----------------------------------------------------------------------------- IR side
def const_string_of(prog, fn, o):
    """content of a constant string operand (narrow or wide) or None"""
    names = global_roots(o)
    for nme in names:
        g = fn.mod["gmap"].get(nme)
        if g is None:
            continue
        if "str" in g:
            return g["str"].rstrip("\0")
        if g.get("wstr") is not None:
            return g["wstr"]
    return None


def fmt_flow(prog, fn, pidx, seen=None):
    """Follow the format parameter pidx of fn through the library: returns list of sinks
       (kind 'engine'|'libc', function containing the call, call inst, callee, fmt arg index, chain of functions)"""
    seen = seen if seen is not None else set()
    key = (fn.mod["tu"], fn.name, pidx)
    if key in seen:
        return []
    seen.add(key)
    par = fn.j["params"][pidx]
    der = derive(fn, {par["id"]: "fmt"})
    sinks = []
    for c in fn.calls():
        name = c.get("callee")
        for k, a in enumerate(c.get("args", ())):
            if not labels_of(a, der, None):
                continue
            if name is None:
                continue
            callee = prog.resolve(fn, name)
            if callee is not None:
                if callee.name == ENGINE:
                    fi = callee.param_index("format")
                    if k == fi:
                        sinks.append(("engine", fn, c, name, k, [fn.name]))
                    continue
                if k < len(callee.j["params"]):
                    for s in fmt_flow(prog, callee, k, seen):
                        sinks.append(s[:5] + ([fn.name] + s[5],))
                continue
            eff = external_effect(name)
            if eff and eff.get("fmt") == k and "gram" in eff:
                sinks.append(("libc", fn, c, name, k, [fn.name]))
    return sinks


SEARCHERS = {"strstr": (0, 1), "strnstr": (0, 1), "wcsstr": (0, 1), "strcasestr": (0, 1), "memmem": (0, 2)}
LIB_SEARCHERS = ("_strstr_s_chk", "_wcsstr_s_chk", "_strcasestr_s_chk")


def inspect_filter(prog, fn, pidx, sink):
    """Classify how fn inspects its format parameter before the libc sink call."""
    par = fn.j["params"][pidx]
    der = derive(fn, {par["id"]: "fmt"}, through_int=True)
    searches = []
    other = []
    lb_loads = []
    for i in fn.insts():
        if i is sink:
            continue
        if i["op"] == "load" and labels_of(i["ops"][0], der, None):
            # a character of the format read through an index (fmt[off - 1]) instead of through the search result (p[-1]): part of a
            # look-behind guard when its only use is the comparison with '%'; what the guard lets through is decided semantically below
            us, v_, ok_ = None, i["id"], True
            for _hop in range(3):
                us = [u for u in fn.insts() if any(o.get("k") == "v" and o.get("id") == v_ for o in list(u.get("ops", ())) + [w["v"] for w in u.get("incoming", ())] + list(u.get("args", ())))]
                if len(us) == 1 and us[0]["op"] in ("sext", "zext"):
                    v_ = us[0]["id"]
                    continue
                break
            if us and all(u["op"] == "icmp" and any(o.get("k") == "c" and o.get("v") == 37 for o in u["ops"]) for u in us):
                lb_loads.append(i)
            else:
                other.append(("load of format characters", i))
        elif i["op"] in ("call", "invoke"):
            name = i.get("callee") or ""
            if name.startswith("llvm.dbg"):
                continue
            args = i.get("args", ())
            hit = [k for k, a in enumerate(args) if labels_of(a, der, None)]
            if not hit:
                continue
            if name in SEARCHERS and prog.resolve(fn, name) is None and hit == [SEARCHERS[name][0]]:
                needle = const_string_of(prog, fn, args[SEARCHERS[name][1]])
                if needle == "%n":
                    searches.append(i)
                    continue
                other.append(("search for %r" % needle, i))
                continue
            if "constraint_handler" in name:
                continue
            if name in LIB_SEARCHERS and prog.resolve(fn, name) is not None and hit and hit[0] == 0 and len(args) > 3:
                needle = const_string_of(prog, fn, args[2])
                if needle == "%n":
                    # the library's own bounded search: sound only if the bound is the measured length of the format itself
                    lens = {c["id"]: "len" for c in fn.calls() if c.get("callee") in ("strlen", "wcslen", "strnlen", "wcsnlen", "_strnlen_s_chk", "_wcsnlen_s_chk")
                            and "id" in c and c.get("args") and labels_of(c["args"][0], der, None)}
                    dl = derive(fn, lens, through_int=True) if lens else {}
                    measured = args[1].get("k") == "v" and bool(labels_of(args[1], dl, None))
                    other.append(("bounded-search" if not measured else "search bounded by the measured format length", i))
                    continue
            eff = external_effect(name) if prog.resolve(fn, name) is None else None
            if eff is not None and "gram" in eff and eff.get("fmt") in hit:
                continue     # another formatted sink (the no-space probe): handled as its own sink
            other.append(("call %s" % name, i))
    dom_searches = [q for q in searches if fn.inst_dominates(q, sink)]
    for l in lb_loads:
        if not any(fn.inst_dominates(q, l) for q in dom_searches):
            other.append(("load of format characters", l))
    if other:
        return "other", dom_searches, other
    if not dom_searches:
        return "none", [], []
    # look-behind shape: a load from (result - 1 element) compared with '%' and a comparison of result with the format start
    lookbehind = False
    for q in dom_searches:
        dq = derive(fn, {q["id"]: "p"}, through_int=True)
        has_prev = has_start = False
        for i in fn.insts():
            if i["op"] == "load":
                po = i["ops"][0]
                if po.get("k") == "v":
                    d = fn.defs.get(po["id"])
                    if d is not None and d["op"] == "getelementptr" and labels_of(d["base"], dq, None) and d.get("coff", 0) < 0:
                        has_prev = True
                    if any(i is l for l in lb_loads) and fn.inst_dominates(q, i):
                        has_prev = True
            if i["op"] == "icmp" and any(labels_of(o, dq, None) for o in i["ops"]) and \
                    any(labels_of(o, der, None) or (o.get("k") == "c" and o.get("v") == 0) for o in i["ops"]):
                d0 = [fn.defs.get(o["id"]) for o in i["ops"] if o.get("k") == "v"]
                if any(d is not None and d["op"] in ("sub", "sdiv", "ptrtoint") for d in d0) or any(labels_of(o, der, None) for o in i["ops"]):
                    has_start = True
        if has_prev and has_start:
            lookbehind = True
    return ("lookbehind" if lookbehind else "substring"), dom_searches, []


def engine_rules(ck, prog, summ):
    eng = prog.funcs.get(ENGINE)
    if eng is None:
        ck.fail_broken("engine %s not found" % ENGINE)
        return {}
    # functions reachable from the engine
    reach = {}
    st = [eng]
    while st:
        f = st.pop()
        if id(f) in reach:
            continue
        reach[id(f)] = f
        for c in f.calls():
            g = prog.resolve(f, c.get("callee")) if c.get("callee") else None
            if g is not None:
                st.append(g)
    n_va_ptrs = 0
    n_uses = 0
    stats = {}
    for f in reach.values():
        seeds = {p["id"]: "va" for p in f.j["params"] if "__va_list_tag" in p["ty"]}
        for i in f.insts():
            if i["op"] == "alloca" and "__va_list_tag" in i.get("alloc_ty", ""):
                seeds[i["id"]] = "va"
        if not seeds:
            continue
        der = derive(f, seeds, through_int=True, max_load_depth=2)
        def caller_ptr(o):
            # only pointer-typed values count: an int/double fetched from the argument area is data, not a caller pointer
            return o.get("ty", "").endswith("*") and any(d >= 2 for (_, d) in labels_of(o, der, None))
        ptrs = [v for v, ls in der.items() if any(d >= 2 for (_, d) in ls) and f.defs.get(v, {}).get("ty", "").endswith("*")]
        n_va_ptrs += len(ptrs)
        for i in f.insts():
            if i["op"] == "store" and caller_ptr(i["ops"][1]):
                ck.report("C09:engine-store-through-vararg:%s" % f.name, "E-no-store-through-variadic-pointer", f.loc(i),
                          "%s stores through a pointer taken from the variadic arguments (what a %%n conversion does)" % f.name)
            elif i["op"] in ("call", "invoke"):
                name = i.get("callee")
                for k, a in enumerate(i.get("args", ())):
                    if not caller_ptr(a):
                        continue
                    n_uses += 1
                    if name is None:
                        ck.report("C09:engine-vararg-to-indirect:%s" % f.name, "E-no-store-through-variadic-pointer", f.loc(i),
                                  "%s passes a variadic pointer to an indirect call" % f.name)
                        continue
                    callee = prog.resolve(f, name)
                    if callee is not None:
                        if k in summ.w.get((callee.mod["tu"], callee.name), ()):
                            ck.report("C09:engine-vararg-written-by:%s:%s" % (f.name, name), "E-no-store-through-variadic-pointer", f.loc(i),
                                      "%s passes a variadic pointer to %s, which writes through parameter %d" % (f.name, name, k))
                        continue
                    eff = external_effect(name)
                    if eff is None:
                        ck.fail_broken("engine passes a variadic pointer to unmodelled callee %s" % name)
                    elif k in {x[0] for x in eff.get("w", ())} or ("fmt" in eff and k > eff["fmt"]):
                        ck.report("C09:engine-vararg-written-by:%s:%s" % (f.name, name), "E-no-store-through-variadic-pointer", f.loc(i),
                                  "%s passes a variadic pointer to %s, which may write through argument %d" % (f.name, name, k))
        stats[f.name] = len(ptrs)
    # E3: the formatter hands (part of) the caller's format to libc's own formatter for a few conversions (%a, %Lf ...).  That is only
    # sound for the directive it has parsed itself: a pointer into the caller's format may reach a libc formatted sink only on the edge
    # where the character after the directive is the terminating NUL (otherwise libc would go on parsing the rest of the caller's format).
    fpar = eng.pnames.get("format")
    n_e3 = 0
    if fpar is not None:
        der = derive(eng, {fpar["id"]: "fmt"})
        # loads of format characters and the branches that test them against zero
        zero_edges = []      # (block D, successor S taken when the character is 0)
        for i in eng.insts():
            if i["op"] == "br" and "cond" in i and i["cond"].get("k") == "v":
                c = eng.defs.get(i["cond"]["id"])
                while c is not None and c["op"] in ("zext", "trunc") and c["ops"][0].get("k") == "v":
                    c = eng.defs.get(c["ops"][0]["id"])
                if c is None or c["op"] != "icmp" or c["pred"] not in ("eq", "ne"):
                    continue
                a, b = c["ops"]
                if not (b.get("k") == "c" and b["v"] == 0):
                    a, b = b, a
                if not (b.get("k") == "c" and b["v"] == 0) or a.get("k") != "v":
                    continue
                ld = eng.defs.get(a["id"])
                while ld is not None and ld["op"] in ("sext", "zext") and ld["ops"][0].get("k") == "v":
                    ld = eng.defs.get(ld["ops"][0]["id"])
                if ld is None or ld["op"] != "load" or not labels_of(ld["ops"][0], der, None):
                    continue
                zero_edges.append((i["_bb"], i["t"] if c["pred"] == "eq" else i["f"]))
        for c in eng.calls():
            name = c.get("callee")
            if not name or name.startswith("llvm."):
                continue
            for k, a in enumerate(c.get("args", ())):
                if not labels_of(a, der, None):
                    continue
                callee = prog.resolve(eng, name)
                reaches = False
                if callee is not None and callee.name != ENGINE and k < len(callee.j["params"]):
                    reaches = any(x[0] == "libc" for x in fmt_flow(prog, callee, k))
                elif callee is None:
                    eff = external_effect(name)
                    reaches = bool(eff and eff.get("fmt") == k and "gram" in eff)
                if not reaches:
                    continue
                n_e3 += 1
                ok = any(eng.dominates(S, c["_bb"]) and eng.preds[S] == [D] for (D, S) in zero_edges)
                if not ok:
                    ck.report("C09:engine-uncut-format-to-libc:%s" % name, "E-format-tail-to-libc", eng.loc(c),
                              "%s passes a pointer into the caller's format to %s, which hands it to libc's formatter, on a path where the directive is not known to be the "
                              "end of the format: libc would parse (and execute %%n in) the rest of the caller's format" % (ENGINE, name))
    stats["_format_pointers_reaching_libc"] = n_e3
    # the specifier switch: 'n' must lead only to a negative return behind a handler call
    sw = [i for i in eng.insts() if i["op"] == "switch" and len(i["cases"]) >= 8 and {ord("s"), ord("d"), ord("c")} <= {c["v"] for c in i["cases"]}]
    if len(sw) != 1:
        ck.fail_broken("engine: expected exactly one conversion-specifier switch, found %d" % len(sw))
        return stats
    sw = sw[0]
    tgt = next((c["bb"] for c in sw["cases"] if c["v"] == ord("n")), sw["default"])
    R = eng.reachable_from(tgt)
    hblocks = {i["_bb"] for i in eng.calls() if "constraint_handler" in (i.get("callee") or "")}
    R_nohandler = eng.reachable_from(tgt, avoid=hblocks)
    ret_blocks = {r["_bb"] for r in eng.rets()}
    ok = True
    if sw["_bb"] in R:
        ok = False
        ck.report("C09:engine-n-arm-continues", "E-n-rejected", eng.loc(eng.term(tgt)),
                  "the 'n' specifier arm of %s falls back into the formatting loop instead of failing" % ENGINE)
    if R_nohandler & ret_blocks:
        ok = False
        ck.report("C09:engine-n-arm-no-handler", "E-n-rejected", eng.loc(eng.term(tgt)),
                  "the 'n' specifier arm of %s can return without invoking the constraint handler" % ENGINE)
    for (o, bb) in return_sites(eng):
        if bb in R and not (o is not None and o.get("k") == "c" and o["v"] < 0):
            # values flowing into the return from the arm must be negative constants
            if bb in eng.reachable_from(tgt) and eng.dominates(tgt, bb):
                ok = False
                ck.report("C09:engine-n-arm-nonnegative-return", "E-n-rejected", "%s:%s" % (eng.file, eng.term(bb).get("line")),
                          "the 'n' specifier arm of %s returns a value that is not a negative constant" % ENGINE)
    stats["_n_arm"] = dict(target_block=tgt, explicit_case=any(c["v"] == ord("n") for c in sw["cases"]), blocks=len(R), ok=ok)
    stats["_variadic_pointer_values"] = n_va_ptrs
    stats["_variadic_pointer_uses_in_calls"] = n_uses
    stats["_functions"] = len(reach)
    return stats


def analyse_entries(ck, prog, min_entries):
    entries = {}
    for fn in prog.exported():
        if fn.name == ENGINE:
            continue
        if not (fn.j["vararg"] or any("__va_list_tag" in p["ty"] for p in fn.j["params"])):
            continue
        # the format parameter: the pointer parameter that reaches a formatted sink's format position
        best = None
        for k, p in enumerate(fn.j["params"]):
            if not p["ty"].endswith("*") or "__va_list_tag" in p["ty"]:
                continue
            s = fmt_flow(prog, fn, k)
            if s:
                best = (k, s)
                if p["name"] in ("fmt", "format"):
                    break
        if best is None:
            ck.fail_broken("variadic entry point %s: no parameter reaches a formatted sink" % fn.name)
            continue
        entries[fn.name] = (fn,) + best
    if len(entries) < min_entries:
        ck.fail_broken("only %d printf/scanf entry points found (< %d)" % (len(entries), min_entries))
    table = {}
    for name, (fn, k, sinks) in sorted(entries.items()):
        kinds = sorted({s[0] for s in sinks})
        row = dict(format_param=fn.j["params"][k]["name"], sinks=sorted({"%s:%s" % (s[0], s[3]) for s in sinks}))
        for s in sinks:
            if s[0] != "libc":
                continue
            kind, holder, call, callee, ai, chain = s
            hk = holder.param_index(fn.j["params"][k]["name"]) if holder is fn else None
            if holder is not fn:
                # sink inside a nested library function: analyse the filter where the sink lives, on its own format parameter
                for kk, pp in enumerate(holder.j["params"]):
                    if pp["ty"].endswith("*") and any(x[2] is call for x in fmt_flow(prog, holder, kk)):
                        hk = kk
            if hk is None:
                hk = k
            gram = external_effect(callee)["gram"]
            fk, searches, other = inspect_filter(prog, holder, hk, call)
            row.setdefault("filters", []).append(dict(sink=callee, in_function=holder.name, filter=fk, grammar=gram))
            if fk == "other":
                if any(o[0] == "bounded-search" for o in other):
                    bi = next(o[1] for o in other if o[0] == "bounded-search")
                    ck.report("C09:n-filter-bounded-search:%s:%s" % (name, callee), "D-delegated-format-filter-unsound", holder.loc(bi),
                              "%s searches the format for \"%%n\" with %s and a bound that is not the length of the format (e.g. the size of the destination): a \"%%n\" "
                              "behind the first <bound> characters is not seen and the format still goes to libc %s" % (name, bi.get("callee"), callee),
                              dict(chain=chain))
                    continue
                msg = "%s -> %s: format is inspected by code this rule cannot classify (%s); delegation clause not decided for this sink" % (name, callee, other[0][0])
                ck.notes.append(msg)
                if getattr(ck, "strict_other", False):
                    ck.fail_broken(msg)
                continue
            # the look-behind character is compared at its full width: `(unsigned char)p[-1] != '%'` in a wide-character scan takes every
            # character whose low byte is 0x25 (U+0425, U+2025, ...) for the escaping '%' and lets the "%n" behind it through
            for ld in holder.insts():
                if ld["op"] != "load" or not ld["ty"].startswith("i") or ld.get("bits", 0) <= 8:
                    continue
                v_, narrowed_ = ld["id"], None
                for _hop in range(6):
                    us_ = [u for u in holder.insts() if any(o.get("k") == "v" and o.get("id") == v_ for o in list(u.get("ops", ())) + [x["v"] for x in u.get("incoming", ())])]
                    nxt_ = [u for u in us_ if u["op"] in ("trunc", "zext", "sext", "phi", "select") and "id" in u]      # `c = at_start ? 0 : p[-1]` merges the character with a constant
                    cm_ = [u for u in us_ if u["op"] == "icmp" and any(o.get("k") == "c" and o.get("v") == 37 for o in u["ops"])]
                    if cm_ and narrowed_ is not None:
                        ck.report("C09:n-filter-lookbehind-narrowed:%s:%s" % (name, callee), "D-delegated-format-filter-unsound", holder.loc(narrowed_),
                                  "%s compares the %d-bit format character in front of a \"%%n\" with '%%' after truncating it to %d bits: every character whose low bits are 0x25 "
                                  "(U+0425, U+2025, ...) is taken for an escaping '%%' and the \"%%n\" behind it goes to libc %s" % (name, ld["bits"], narrowed_["bits"], callee),
                                  dict(chain=chain))
                        break
                    if len(nxt_) != 1:
                        break
                    if nxt_[0]["op"] == "trunc" and nxt_[0]["bits"] < ld["bits"]:
                        narrowed_ = nxt_[0]
                    v_ = nxt_[0]["id"]
            passes = None
            if fk in STANDARD_PASSES:
                passes = filter_passes(prog, holder, hk, call)
                if passes is None:
                    ck.fail_broken("%s -> %s: the paths from the '%%n' search to the libc sink could not be explored" % (name, callee))
                    continue
                row["filters"][-1]["outcomes_let_through"] = sorted(passes)
                if not passes <= STANDARD_PASSES[fk]:
                    # the guard lets through more than its shape promises: model exactly what the code does
                    fk = passes
            w = witnesses(fk, gram)
            if not w:
                continue
            if isinstance(fk, frozenset):
                extra = sorted(fk - {"A", "C"})
                names = {"B": "a \"%n\" at the very start of the format", "D": "a \"%n\" preceded by an ordinary character", "unsearched": "a path that skips the search"}
                ck.report("C09:n-filter-lets-through:%s:%s:%s" % (name, callee, "+".join(extra)), "D-delegated-format-filter-unsound", holder.loc(call),
                          "%s hands the caller's format to libc %s although its \"%%n\" search found %s; accepted and executed by libc: %s"
                          % (name, callee, " / ".join(names.get(x, x) for x in extra), ", ".join(repr(x) for x in w)),
                          dict(witnesses=w, chain=chain, outcomes_let_through=sorted(fk)))
                continue
            if fk == "none":
                ck.report("C09:no-n-filter:%s:%s" % (name, callee), "D-delegated-format-unfiltered", holder.loc(call),
                          "%s hands the caller's format to libc %s without inspecting it; libc executes %%n e.g. for %r" % (name, callee, w[0]),
                          dict(witnesses=w, chain=chain))
            else:
                ck.report("C09:unsound-n-filter:%s:%s" % (name, callee), "D-delegated-format-filter-unsound", holder.loc(call),
                          "%s hands the caller's format to libc %s behind a literal \"%%n\" %s filter; accepted by the filter and executed by libc: %s"
                          % (name, callee, "search with one-character look-behind" if fk == "lookbehind" else "substring search", ", ".join(repr(x) for x in w)),
                          dict(witnesses=w, chain=chain, filter=fk))
        table[name] = row
    return table


def run(ck):
    mods, info = frontend.load_modules()
    prog = Program(mods)
    summ = Summaries(prog)
    stats = engine_rules(ck, prog, summ)
    ck.strict_other = True        # on the real tree every delegating entry is classified; an unclassifiable pre-scan is 'not decided' = exit 2, not a pass
    table = analyse_entries(ck, prog, MIN_ENTRIES)
    fx = selftest(ck)
    n_libc = sum(1 for r in table.values() if any(s.startswith("libc:") for s in r["sinks"]))
    n_eng = sum(1 for r in table.values() if any(s.startswith("engine:") for s in r["sinks"]))
    for name in list(table)[:6]:
        ck.sample(dict(entry=name, **table[name]))
    ob = len(table) + stats.get("_variadic_pointer_uses_in_calls", 0) + 1
    cov = dict(
        explanation="Every exported variadic / va_list entry point (%d) is classified by following its format parameter through the call graph to "
                    "formatted sinks: %d reach the library's own engine, %d reach a libc v*printf/v*scanf. Engine rule (exact): over the %d functions reachable "
                    "from the engine, no store or writing effect goes through any of the %d SSA values that hold a caller-supplied variadic pointer "
                    "(load depth 2 from the va_list), and the specifier switch sends 'n' to a handler call and a negative return. Delegation rule: the code "
                    "inspecting the format before each libc sink is classified (none / literal-substring / substring+look-behind / other) and the filter language "
                    "is intersected with the libc directive grammar by enumeration over the alphabet %%,n,l,5,*,a up to length 4."
                    % (len(table), n_eng, n_libc, stats.get("_functions", 0), stats.get("_variadic_pointer_values", 0)),
        obligations=ob, discharged=ob - len({r["key"] for r in ck.reports}),
        entries=table, engine=stats, fixtures=fx, frontend=info,
        summary="%d entries (%d engine-backed, %d libc-backed)" % (len(table), n_eng, n_libc))
    return ck.finish(cov, ["clang-14 x86-64 SysV va_arg lowering (caller pointers are loads at depth 2 from the va_list object)",
                           "libc directive grammars as modelled in libc_executes_n()", "libc formatted sinks named in sa/effects.py"])


def selftest(ck):
    fdir = os.path.join(frontend.VERIF, "fixtures")
    prog = Program(frontend.load_sources([os.path.join(fdir, "c09.c")]))
    res = {}
    class Sink:
        def __init__(s): s.reports = []; s.notes = []; s.broken = []
        def report(s, key, *a, **k): s.reports.append(key)
        def fail_broken(s, m): s.broken.append(m)
    sk = Sink()
    t = analyse_entries(sk, prog, 0)
    got = sorted(sk.reports)
    want = sorted(["C09:no-n-filter:fx_nofilter:vprintf", "C09:unsound-n-filter:fx_lookbehind:vprintf", "C09:unsound-n-filter:fx_substring:vsscanf",
                   "C09:n-filter-lets-through:fx_lookbehind_start:vprintf:B", "C09:unsound-n-filter:fx_lookbehind_w:vwprintf",
                   "C09:n-filter-bounded-search:fx_bounded:vsnprintf"])
    want2 = [w.replace("vsscanf", "__isoc99_vsscanf") for w in want]
    if got != want and got != sorted(want2):
        ck.fail_broken("fixture c09.c: delegation rule reported %s, expected %s" % (got, want))
    if not any("fx_parser" in n for n in sk.notes):
        ck.fail_broken("fixture c09.c: the hand-written directive parser was not classified as 'other'")
    res["delegation"] = got
    # engine rule on the fixture engine
    import sa.checks.c09 as me
    old = me.ENGINE
    try:
        me.ENGINE = "fx_engine_bad"
        sk2 = Sink(); engine_rules(sk2, prog, Summaries(prog))
        me.ENGINE = "fx_engine_good"
        sk3 = Sink(); engine_rules(sk3, prog, Summaries(prog))
    finally:
        me.ENGINE = old
    if not any("store-through-vararg" in k for k in sk2.reports) or sk2.broken:
        ck.fail_broken("fixture c09.c: engine rule did not fire on fx_engine_bad: %s %s" % (sk2.reports, sk2.broken))
    if sk3.reports or sk3.broken:
        ck.fail_broken("fixture c09.c: engine rule fired on fx_engine_good: %s %s" % (sk3.reports, sk3.broken))
    res["engine_bad"] = sk2.reports
    res["engine_good"] = sk3.reports
    # language models
    for f, g, want in (("%n", "printf", True), ("%%n", "printf", False), ("%%%n", "printf", True), ("%ln", "printf", True), ("%5n", "printf", True),
                       ("%*n", "scanf", True), ("%[n]", "scanf", False), ("abc", "printf", False), ("%d%hhn", "scanf", True)):
        if libc_executes_n(f, g) != want:
            ck.fail_broken("libc grammar model wrong on %r" % f)
    return res
