"""C13 -- handler registration: per-thread override of a process-wide handler of the same kind.

The six functions involved are loop-free and touch handler values only by copying and null tests, so each is a finite decision
table over abstract values {NULL, distinct non-null symbols, address of the default handler}.  The table extracted from the IR is
compared, row by row, with the reference model; with per-step equality the statement over all registration/violation histories follows
by induction on the history.  Storage facts (thread_local / not, internal linkage, only the own setter writes) come from the IR."""
import itertools, os
from ..ir import Program
from ..formula import run_tree, NotModelled, NULL, sym, fnaddr
from .. import frontend
from . import c12

LEVEL = "proof"
KINDS = {"str": "src/str/safe_str_constraint.c", "mem": "src/mem/safe_mem_constraint.c"}
DEFAULT = "ignore_handler_s"
HANDLERS = {"ignore_handler_s", "abort_handler_s"}


def find_vars(mod):
    hs = [g for g in mod["globals"] if not g["decl"] and c12.handler_type(g["ty"])]
    G = [g for g in hs if not g["tls"]]
    T = [g for g in hs if g["tls"]]
    return G, T


def is_handler_call(t):
    return t[0] == "sym" or (t[0] == "fn" and t[1] in HANDLERS)


def tables(prog, kind, tu, ck, report):
    mod = next((m for m in prog.mods if m["tu"] == tu), None)
    if mod is None:
        ck.fail_broken("TU %s not in the build" % tu); return 0, 0, []
    G, T = find_vars(mod)
    if len(G) != 1 or len(T) != 1:
        report("C13:%s:storage-class" % kind, "R-storage", tu,
               "%s: expected exactly one process-wide and one thread-local handler variable, found %d / %d (thread_local lost or added?)" % (kind, len(G), len(T)))
        return 0, 0, []
    G, T = G[0], T[0]
    for g in (G, T):
        if not g["internal"]:
            report("C13:%s:%s:linkage" % (kind, g["name"]), "R-storage", tu, "handler variable %s is not internal to its TU" % g["name"])
        if not g.get("zeroinit", False):
            report("C13:%s:%s:init" % (kind, g["name"]), "R-storage", tu, "handler variable %s is not initialised to NULL" % g["name"])
    fset = mod["fmap"].get("set_%s_constraint_handler_s" % kind)
    ftset = mod["fmap"].get("thrd_set_%s_constraint_handler_s" % kind)
    finv = mod["fmap"].get("invoke_safe_%s_constraint_handler" % kind)
    if not (fset and ftset and finv):
        ck.fail_broken("%s: registration/invocation functions not found in %s" % (kind, tu)); return 0, 0, []
    dom_var = [NULL, None, fnaddr(DEFAULT)]
    rows = 0
    bad = 0
    samples = []
    for which, fn in (("set", fset), ("thrd_set", ftset), ("invoke", finv)):
        for a_i, g_i, t_i in itertools.product(range(4), range(3), range(3)):
            g0 = [NULL, sym("g"), fnaddr(DEFAULT)][g_i]
            t0 = [NULL, sym("t"), fnaddr(DEFAULT)][t_i]
            if which == "invoke":
                if a_i:
                    continue
                params = {p["id"]: sym(p["name"]) for p in fn.j["params"]}
            else:
                arg = [NULL, sym("a"), sym("g"), sym("t")][a_i]
                if len(fn.j["params"]) != 1:
                    ck.fail_broken("%s: unexpected signature" % fn.name); return rows, bad, samples
                params = {fn.j["params"][0]["id"]: arg}
            mem = {G["name"]: g0, T["name"]: t0}
            rows += 1
            try:
                o = run_tree(fn, params, mem)
            except NotModelled as e:
                msg = str(e)
                gname = msg.split("global ")[-1] if "unmodelled global" in msg else None
                g_ = fn.mod["gmap"].get(gname) if gname else None
                if g_ is not None and not g_.get("constant"):
                    # which handler runs (or what a registration leaves behind) depends on writable state other than the two registrations
                    bad += 1
                    report("C13:%s:%s:other-state:%s" % (kind, which, g_.get("srcname") or gname), "M-only-the-registrations-decide", "%s:%s" % (fn.file, g_.get("line") or fn.line),
                           "%s reads the writable object %s%s: the handler that is invoked no longer depends on the registrations alone (process-wide state shared by all threads decides it)"
                           % (fn.name, g_.get("srcname") or gname, "" if g_.get("tls") else " (not thread-local)"))
                    return rows, bad, samples
                ck.fail_broken("%s is outside the finite model: %s" % (fn.name, e)); return rows, bad, samples
            hcalls = [c for c in o.calls if is_handler_call(c[0])]
            problems = []
            if which in ("set", "thrd_set"):
                own, other = (G, T) if which == "set" else (T, G)
                old = mem[own["name"]]
                want_new = arg if arg != NULL else fnaddr(DEFAULT)
                if o.ret != old:
                    problems.append("returns %s, expected the previous registration %s" % (o.ret, old))
                if o.mem[own["name"]] != want_new:
                    problems.append("leaves %s = %s, expected %s" % (own["name"], o.mem[own["name"]], want_new))
                if o.mem[other["name"]] != mem[other["name"]]:
                    problems.append("modifies the other registration %s" % other["name"])
                if hcalls:
                    problems.append("invokes a handler while registering")
            else:
                want = t0 if t0 != NULL else (g0 if g0 != NULL else fnaddr(DEFAULT))
                if o.mem != mem:
                    problems.append("modifies a registration while reporting")
                if len(hcalls) != 1:
                    problems.append("invokes %d handlers, expected exactly 1" % len(hcalls))
                elif hcalls[0][0] != want:
                    problems.append("invokes %s, expected %s" % (hcalls[0][0], want))
                elif hcalls[0][1] != [sym(p["name"]) for p in fn.j["params"]]:
                    problems.append("does not pass (msg, ptr, error) through unchanged: %s" % (hcalls[0][1],))
            if len(samples) < 3 and (a_i, g_i, t_i) in ((1, 1, 0), (0, 1, 1), (0, 0, 0)):
                samples.append(dict(function=fn.name, arg=params.get(fn.j["params"][0]["id"]) if which != "invoke" else None, process_wide=g0, thread_local=t0,
                                    ret=o.ret, after=o.mem, handler_calls=[c[0] for c in hcalls], verdict="ok" if not problems else problems))
            if problems:
                bad += 1
                report("C13:%s:%s:%s" % (kind, which, problems[0].split(",")[0].split(" ")[0]), "M-model-equality", "%s:%s" % (fn.file, fn.line),
                       "%s with argument=%s, process-wide=%s, thread-local=%s: %s" % (fn.name, params.get(fn.j["params"][0]["id"]) if which != "invoke" else "-", g0, t0, "; ".join(problems)))
    return rows, bad, samples


DISPATCH = {"invoke_safe_str_constraint_handler": "str", "invoke_safe_mem_constraint_handler": "mem"}
MIN_REPORTING_FUNCTIONS = 150


def kind_rule(prog, report, floor=MIN_REPORTING_FUNCTIONS, broken=None):
    """clause 'the string and memory registrations are independent', seen from the reporting side: a function reports all of its violations
    through one kind of dispatch.  The kind of a function is not written down anywhere (wmemcpy_s reports through mem, wcscpy_s through
    str, qsort_s through mem), but no function of the library mixes the two (0 of 180 on the pinned tree): a function that calls both
    dispatchers -- directly or through the error helpers of the two registration units -- hands some of its violations to the handler
    registered for the other kind, which the caller's registration for its own kind then never sees."""
    helper_kind = {}
    for f in prog.allfuncs:
        if f.mod["tu"] in KINDS.values() and f.name not in DISPATCH:
            ks = {DISPATCH[i["callee"]] for i in f.insts() if i["op"] == "call" and i.get("callee") in DISPATCH}
            if len(ks) == 1:
                helper_kind[f.name] = next(iter(ks))
    n = 0
    for f in prog.allfuncs:
        if f.name in DISPATCH or f.name in helper_kind:
            continue
        sites = {}
        for i in f.insts():
            if i["op"] == "call":
                k = DISPATCH.get(i.get("callee")) or helper_kind.get(i.get("callee"))
                if k:
                    sites.setdefault(k, []).append(i)
        if not sites:
            continue
        n += 1
        if len(sites) > 1:
            minority = min(sites, key=lambda k: len(sites[k]))
            majority = max(sites, key=lambda k: len(sites[k]))
            for i in sites[minority]:
                report("C13:mixed-kinds:%s:%s" % (f.name, minority), "R-one-kind-per-function", f.loc(i),
                       "%s reports %d violation(s) through the %s dispatch and this one through the %s dispatch: a handler registered for %s never sees it, the %s registration does"
                       % (f.name, len(sites[majority]), majority, minority, majority, minority))
    if n < floor and broken is not None:
        broken("only %d functions that report violations found (expected at least %d)" % (n, floor))
    return n


def run(ck):
    mods, info = frontend.load_modules()
    prog = Program(mods)
    rows = bad = 0
    for kind, tu in KINDS.items():
        r, b, smp = tables(prog, kind, tu, ck, ck.report)
        rows += r; bad += b
        for x in smp:
            ck.sample(x)
    # who writes the registrations (independence of str and mem; no hidden writer)
    objs, _, _ = c12.analyse(prog)
    nwr = 0
    for (tu, name), o in objs.items():
        if c12.handler_type(o["ty"]):
            nwr += 1
            kind = next((k for k, t in KINDS.items() if t == tu), None)
            if kind is None:
                ck.report("C13:registration-outside-anchor:%s" % name, "R-storage", tu, "handler-typed static object %s outside the two registration TUs" % name)
                continue
            for (f, loc, how) in o["writes"] + o["escapes"]:
                ok = f in ("set_%s_constraint_handler_s" % kind, "thrd_set_%s_constraint_handler_s" % kind)
                if not ok:
                    ck.report("C13:%s:foreign-writer:%s" % (name, f), "R-who-writes", loc, "%s is modified outside its registration function: %s in %s" % (name, how, f))
    if nwr != 4:
        ck.fail_broken("expected 4 handler registrations in the library, found %d" % nwr)
    # the default handler must not itself do anything observable
    ign = prog.funcs.get(DEFAULT)
    if ign is None:
        ck.fail_broken("default handler %s not found" % DEFAULT)
    else:
        eff = [i for i in ign.insts() if i["op"] in ("store", "call") and not (i.get("callee") or "").startswith("llvm.dbg")]
        if eff:
            ck.report("C13:default-handler-has-effects", "R-default", ign.loc(eff[0]), "the default handler %s performs stores or calls" % DEFAULT)
    nrep = kind_rule(prog, ck.report, broken=ck.fail_broken)
    fx = selftest(ck)
    ob = rows + nwr + 1 + nrep
    cov = dict(obligations=ob, discharged=ob - len({r["key"] for r in ck.reports}) if not ck.reports else ob - bad,
               checker_cmd="bin/check C13",
               trusted_base=["clang-14 lowering to IR", "sa/formula.py interpreter over abstract handler values", "platform TLS (a thread_local object is per thread)"],
               exhaustive=True, decision_table_rows=rows, registrations=nwr, reporting_functions_one_kind=nrep, fixtures=fx, frontend=info,
               explanation="Decision tables of set_/thrd_set_/invoke_ for str and mem over argument x process-wide x thread-local values in {NULL, symbol, default} "
                           "(%d rows) equal the reference model row by row; storage classes, linkage, NULL initialisation and the who-writes rule are read from the IR. "
                           "The statement over all histories follows by induction on the history. Inheritance by threads created after a thread-local registration is left open, as in the property." % rows,
               summary="%d decision-table rows equal the model; 4 registrations with own-setter-only writers" % rows)
    return ck.finish(cov, ["handler values are only copied and null-tested (checked: any other operation makes the function 'not modelled')",
                           "thread_local storage gives each thread its own object"])


def selftest(ck):
    fdir = os.path.join(frontend.VERIF, "fixtures")
    res = {}
    for fname, expect in (("c13_good.c", 0), ("c13_bad_order.c", 1), ("c13_bad_ret.c", 1)):
        prog = Program(frontend.load_sources([os.path.join(fdir, fname)], flags=["-DKIND=str"]))
        reps = []
        class B:
            def fail_broken(s, m): reps.append(("broken", m))
        r, b, _ = tables(prog, "str", prog.mods[0]["tu"], B(), lambda key, *a: reps.append(key))
        res[fname] = dict(rows=r, mismatching_rows=b)
        if (b > 0) != bool(expect) or any(x[0] == "broken" for x in reps if isinstance(x, tuple)):
            ck.fail_broken("fixture %s: %d mismatching rows (%s)" % (fname, b, reps[:2]))
    prog = Program(frontend.load_sources([os.path.join(fdir, "c13_kinds.c")]))
    got = []
    n = kind_rule(prog, lambda key, *a: got.append(key), floor=0)
    res["c13_kinds.c"] = dict(functions=n, reports=got)
    if n != 2 or got != ["C13:mixed-kinds:fxk_mem_mixed:str"]:
        ck.fail_broken("fixture c13_kinds.c: one-kind rule reported %s over %d functions" % (got, n))
    return res
