"""C05 -- every constraint violation is reported exactly once with the code returned.

For every exported function all paths are explored by the pathflags engine (bounded inlining of the library's own helpers and
nested exported callees, so whether a nested call can fail is decided from the guards on the path).  At each return the number
of constraint-handler invocations on the path and the code passed are compared with the returned indication, per the
function's return convention.  Which inputs *are* violations is documentation, not code shape; what is decided is the iff between
"an error indication is returned" and "the handler ran exactly once with that code"."""
import os, sys
from ..ir import Program, exit_line
from ..lin import Lin
from ..pathflags import Engine, BudgetExceeded, run_adaptive
from ..flags import HFlags
from .. import frontend, api, par

STATUS_OK = (0, 408, 409, -1, -408, -409)   # EOK, ESNODIFF, ESNOTFND and -1 ('no such variable' / libc failure): success or plain statuses
SKIP = {"abort_handler_s", "ignore_handler_s", "invoke_safe_str_constraint_handler", "invoke_safe_mem_constraint_handler",
        "set_str_constraint_handler_s", "set_mem_constraint_handler_s", "thrd_set_str_constraint_handler_s", "thrd_set_mem_constraint_handler_s",
        "handle_str_bos_chk_warn", "handle_str_src_bos_chk_warn", "handle_mem_bos_chk_warn"}
# callees too large to inline: assumed to honour their own convention (each is analysed as an entry point itself)
OPAQUE = {"safec_vsnprintf_s": "neg", "_wcsfc_s_chk": "errno", "_wcsnorm_decompose_s_chk": "errno", "_wcsnorm_reorder_s_chk": "errno",
          "_wcsnorm_compose_s_chk": "errno", "_vsnprintf_s_chk": "neg", "_wcstombs_s_chk": "errno"}
BUDGET = 400000
COARSE = {"safec_vsnprintf_s"}        # the formatter's path space is large: handler messages are not part of its path state
SKIP |= {"handle_str_bos_overflow"}        # internal helper (not in the public headers); analysed inlined at each call site
# Nested constraints that cannot fire for value-level reasons the path analysis cannot see; each is an explicit assumption in the evidence.
_FIT = "the source length was measured with strlen and compared with dmax immediately before the copy"
ASSUME_QUIET = {
    # PROVE-FIT: 'not enough space' is dropped only on paths where a measured strlen(src) < dmax is entailed at the nested call (checked, not assumed)
    "_asctime_s_chk": {"_strcpy_s_chk": ["PROVE-FIT", "overlapping objects"]},
    "_ctime_s_chk": {"_strcpy_s_chk": ["PROVE-FIT", "overlapping objects"]},
    "_getenv_s_chk": {"_strcpy_s_chk": ["PROVE-FIT", "overlapping objects"]},
    "_strerror_s_chk": {"_strcpy_s_chk": ["not enough space", "overlapping objects", "src is null"],
                        "_strncpy_s_chk": ["not enough space", "overlapping objects", "src is null"],
                        "_strcat_s_chk": ["not enough space", "overlapping objects", "dest unterminated"]},
}
ASSUME_TEXT = ["asctime_s/ctime_s/getenv_s/strerror_s: the nested strcpy_s/strncpy_s/strcat_s cannot report 'not enough space' (" + _FIT + "), "
               "'overlapping objects' (the source is a libc-owned or local buffer) or 'src is null' (strerror never returns NULL); strerror_s: after strncpy_s(dest, dmax, .., dmax-4) dest is terminated with 3 elements to spare"]


def convention(fn):
    n = api.base_name(fn.name)
    rt = fn.j["ret_ty"]
    if rt == "void":
        return None
    if "scanf" in n:
        return "eof"
    if "printf" in n or n in ("towfc_s",):
        return "neg"
    if n.startswith("timingsafe"):
        return "cmp"
    if n in ("iswfc", "_towfc_single", "_decomp_s", "_towcase", "_towupper", "isExclusion", "isSingleton", "isNonStDecomp", "isComp2nd", "strerrorlen_s"):
        return None          # pure helpers: no failure indication
    if rt.endswith("*"):
        return "ptr"
    if rt == "i1":
        return "bool"
    if rt == "i64":
        return "size"
    if rt == "i32":
        return "errno"
    return None


def describe(rv):
    if rv is None:
        return "void"
    if rv[0] == "i":
        return "const:%s" % rv[1].c if rv[1].is_const() else "value"
    if rv[0] == "p":
        return "NULL" if rv[1] == "null" else "pointer"
    if rv[0] in ("b", "zb"):
        t = rv[1]
        return "const:%d" % (1 if t[1] else 0) if t[0] == "c" else "bool"
    return "?"


def worker(prog, name):
    fn = prog.funcs[name]
    conv = convention(fn)
    mk = lambda: HFlags(noinline=[n for n in OPAQUE if n != name], opaque_convention=OPAQUE, assume_quiet=ASSUME_QUIET.get(name),
                        track_msgs=(name not in COARSE))
    try:
        eng = run_adaptive(prog, fn, mk, budgets=(60000, BUDGET))
    except BudgetExceeded as e:
        return dict(budget=str(e))
    res = eng.results
    finds = {}
    classes = set()
    for (rv, st, path) in res:
        cnt, code, msgs = st.pl[:3]
        errp = st.pl[3]
        has_errp = "errp" in fn.pnames
        d = describe(rv)
        classes.add((d, cnt))
        base = api.base_name(name)
        r = eng.as_lin(rv) if rv is not None and rv[0] in ("i", "p") else None
        def add(rule, text):
            key = "C05:%s:%s:ret=%s:%s" % (rule, base, d, "|".join(msgs))
            if key not in finds:
                line = exit_line(fn, path)
                finds[key] = dict(key=key, rule=rule, where="%s:%s" % (fn.file, line), text="%s: %s (returns %s; handler messages on the path: %s)" % (base, text, d, list(msgs) or "none"),
                                  path=path[-12:] if path else None)
        for (opn, how, before) in sorted(st.pl[6]):
            key = "C05:touched-before-size-check:%s:%s:%s:after=%s" % (base, opn, how, "|".join(before))
            if key not in finds:
                finds[key] = dict(key=key, rule="touched-before-size-check", where="%s:%s" % (fn.file, fn.line),
                                  text="%s: %s is accessed (%s; handler messages so far: %s) on a path where the function's own size limit has not been established (a size above the RSIZE limit is not rejected before the operand is touched)" % (base, opn, how, list(before) or "none"),
                                  path=path[-12:] if path else None)
        if cnt >= 2:
            add("reported-twice", "the constraint handler is invoked more than once for one call")
            continue
        if r is not None and not r.is_const() and all(a in eng.indirect_results for a in r.t):
            continue        # the value comes straight from a caller-supplied callback (output function): reporting is that callee's business
        nested = isinstance(code, tuple)
        if conv == "errno":
            if r is None:
                continue
            if r.is_const():
                err = int(r.c) not in STATUS_OK
            else:
                z = eng.decide(("cmp", "eq", r, Lin.const(0)), st.facts)
                err = None if z is None else (not z)
            if err is True and cnt == 0:
                add("error-without-handler", "an error code is returned without invoking the constraint handler")
            elif err is False and cnt == 1:
                if not (r.is_const() and r.c != 0 and code is not None and not nested and (code == r or code == -r)):
                    add("handler-on-success", "the constraint handler is invoked but a success/status value is returned")
            elif err is True and cnt == 1 and not nested and code is not None:
                if not (code == r or code == -r or eng.decide(("cmp", "eq", code, r), st.facts) is True):
                    add("code-mismatch", "the code passed to the handler (%s) differs from the code returned (%s)" % (code, r))
        elif conv == "neg":
            if r is None:
                continue
            if r.is_const():
                err = r.c < 0 and int(-r.c) not in STATUS_OK
            else:
                z = eng.decide(("cmp", "slt", r, Lin.const(0)), st.facts)
                err = z
            if err is True and cnt == 0:
                add("error-without-handler", "a negative result is returned without invoking the constraint handler")
            elif err is False and cnt == 1:
                add("handler-on-success", "the constraint handler is invoked but a non-negative result is returned")
            elif err is True and cnt == 1 and not nested and code is not None and r.is_const() and r.c != -1:
                if not (code == -r or code == r):
                    add("code-mismatch", "the code passed to the handler (%s) differs from the negated result (%s)" % (code, r))
        elif conv == "eof":
            if r is not None and r.is_const():
                if r.c == -1 and cnt == 0:
                    add("error-without-handler", "EOF is returned for a constraint violation without invoking the handler")
                elif r.c >= 0 and cnt == 1:
                    add("handler-on-success", "the handler is invoked but a non-negative count is returned")
            elif r is not None and cnt == 1:
                if eng.decide(("cmp", "slt", r, Lin.const(0)), st.facts) is False:
                    add("handler-on-success", "the handler is invoked but a non-negative count is returned")
        elif conv == "ptr":
            if rv is not None and rv[0] == "p":
                isnull = rv[1] == "null" or eng.decide(("cmp", "eq", eng.as_lin(rv), Lin.const(0)), st.facts) is True
                nonnull = rv[1] != "null" and eng.decide(("cmp", "eq", eng.as_lin(rv), Lin.const(0)), st.facts) is False
                if nonnull and cnt == 1:
                    add("handler-on-success", "the handler is invoked but a non-null result is returned")
                if has_errp and isnull:
                    # pointer result with an errno_t out-parameter (stpcpy_s family): *errp is the code
                    if cnt == 0 and errp is not None and not (errp.is_const() and int(errp.c) in STATUS_OK):
                        add("error-without-handler", "NULL is returned with *errp = %s without invoking the constraint handler" % errp)
                    elif cnt == 1 and not nested and code is not None and errp is not None and not (code == errp or code == -errp):
                        add("code-mismatch", "the code passed to the handler (%s) differs from the code stored in *errp (%s)" % (code, errp))
                    elif cnt == 1 and errp is None and eng.decide(("cmp", "eq", Lin.atom("&" + fn.pnames["errp"]["id"]), Lin.const(0)), st.facts) is not True:
                        add("code-mismatch", "NULL is returned after a report but nothing was stored through errp on this path: the caller reads a stale code")
        elif conv == "bool":
            if rv is not None and rv[0] in ("b", "zb") and rv[1][0] == "c" and rv[1][1] and cnt == 1:
                add("handler-on-success", "the handler is invoked but true is returned")
        elif conv == "size":
            if r is not None and cnt == 1 and not (r.is_const() and r.c == 0):
                if eng.decide(("cmp", "eq", r, Lin.const(0)), st.facts) is not True:
                    add("handler-on-success", "the handler is invoked but a non-zero length is returned")
        elif conv == "cmp":
            if r is not None and cnt == 1 and code is not None and not nested:
                if not (code == -r or code == r):
                    add("code-mismatch", "the code passed to the handler (%s) differs from the negated result (%s)" % (code, r))
    return dict(findings=list(finds.values()), outcomes=len(res), classes=len(classes), states=eng.nstates, conv=conv,
                limits=sorted({"%s>%d" % (fn.params[a]["name"] + ("*%d" % sc if sc != 1 else ""), K) for (a, sc, K) in eng.plugin.limits}),
                operands=sorted(eng.plugin.operand_roots.values()),
                unmodelled=sorted(eng.unmodelled), widened=len(eng.widened))


HANDLER_KIND = {"invoke_safe_str_constraint_handler": "str", "invoke_safe_mem_constraint_handler": "mem", "handle_error": "str", "handle_werror": "str",
                "handle_mem_error": "mem", "handle_str_bos_overflow": "str", "handle_str_bos_chk_warn": "str", "handle_str_src_bos_chk_warn": "str",
                "handle_mem_bos_chk_warn": "mem"}


def status_rule(ck, prog, report=None, tu="src/str/vsnprintf_s.c", min_sites=40):
    """error discipline of the formatting engine: the output callback reports 'does not fit' by invoking the constraint handler and returning a
    negative status; the engine's routines hand that status up (54 call sites: `rc = out(..); if (rc < 0) return rc;`).  A status that is
    dropped lets the formatting go on -- further handler calls, a positive return, dest neither cleared nor terminated.  Rule: the result of
    every call through the `out` parameter is compared with zero by a signed comparison or returned (directly or through phis / integer
    casts); the result of every routine of the engine that itself takes `out` and returns an integer is at least used."""
    report = report or ck.report
    fns = [f for f in prog.allfuncs if f.mod["tu"] == tu]
    prod = {f.name for f in fns if "out" in f.pnames and f.j.get("ret", "i32").startswith("i")}

    def users(fn, v):
        return [u for u in fn.insts() if any(o.get("k") == "v" and o.get("id") == v for o in list(u.get("ops", ())) + [w["v"] for w in u.get("incoming", ())] + list(u.get("args", ())))]

    def checked(fn, v, depth=0, seen=None):
        seen = seen if seen is not None else set()
        if v in seen or depth > 6:
            return False
        seen.add(v)
        for u in users(fn, v):
            if u["op"] == "icmp" and u["pred"] in ("slt", "sle", "sgt", "sge"):
                return True
            if u["op"] == "ret":
                return True
            if u["op"] in ("phi", "sext", "zext", "trunc") and "id" in u and checked(fn, u["id"], depth + 1, seen):
                return True
        return False
    n = 0
    sites = []
    for fn in fns:
        outp = fn.pnames.get("out")
        for c in fn.calls():
            is_out = c.get("callee") is None and outp is not None and c.get("callee_v", {}).get("id") == outp["id"]
            if not (is_out or c.get("callee") in prod):
                continue
            n += 1

            def used(v, depth=0, seen=None):
                seen = seen if seen is not None else set()
                if v in seen or depth > 8:
                    return False
                seen.add(v)
                for u in users(fn, v):
                    if u["op"] != "phi":
                        return True
                    if used(u["id"], depth + 1, seen):
                        return True
                return False
            # the callback's status must be tested or returned; a routine's result (new index or negative status) must at least be used --
            # that the engine goes on formatting with a negative index is the recorded 'formatter double report' finding, not this rule's
            bad = not ("id" in c and checked(fn, c["id"])) if is_out else not ("id" in c and used(c["id"]))
            if bad:
                what = c.get("callee") or "the output callback"
                ordinal = sum(1 for s_ in sites if s_[0] == fn.name and s_[1] == what) + 1
                sites.append((fn.name, what))
                report("C05:status-dropped:%s:%s#%d" % (fn.name, what.replace(" ", "-"), ordinal), "H-status-handed-up", fn.loc(c),
                       "%s ignores the status returned by %s: when the output does not fit the callback has invoked the constraint handler, but the formatting continues "
                       "(more handler calls, a positive result, dest neither cleared nor terminated)" % (fn.name, what))
    if n < min_sites:
        ck.fail_broken("status rule: only %d calls of the output callback / status-returning routines found in %s (< %d)" % (n, tu, min_sites))
    return dict(call_sites=n, status_returning_routines=sorted(prod), dropped=len(sites))


def family_rule(ck, prog, names, report=None):
    """sibling agreement: all reports of one function go to the handler of one family (string or memory).  The registrations are independent
    (C13), so a violation sent to the other family's handler is invisible to a program that registered the one the rest of the function uses."""
    report = report or ck.report
    out = dict(functions=0, mixed=0)
    for n in names:
        fn = prog.funcs[n]
        kinds = {}
        for c in fn.calls():
            k = HANDLER_KIND.get(c.get("callee") or "")
            if k:
                kinds.setdefault(k, []).append(c)
        if not kinds:
            continue
        out["functions"] += 1
        if len(kinds) > 1:
            out["mixed"] += 1
            minor = min(kinds, key=lambda k: len(kinds[k]))
            major = [k for k in kinds if k != minor][0]
            for c in kinds[minor]:
                msg = exit_message_of(fn, c)
                report("C05:other-family-handler:%s:%s" % (api.base_name(n), msg or c.get("callee")), "H-one-handler-family-per-function", fn.loc(c),
                       "%s: this violation is reported through the %s handler (%s) while the function's other %d reports go to the %s handler"
                       % (api.base_name(n), {"str": "string", "mem": "memory"}[minor], c.get("callee"), len(kinds[major]), {"str": "string", "mem": "memory"}[major]))
    return out


def exit_message_of(fn, call):
    from ..ir import global_roots
    for a in call.get("args", ()):
        for g_ in global_roots(a):
            g = fn.mod["gmap"].get(g_)
            if g and "str" in g:
                return g["str"].rstrip("\0").replace(" ", "_")[:50]
    return None


def null_order_rule(prog, names, report):
    """clause: a null pointer the function checks for is *reported*, not dereferenced first.  For every pointer parameter P of an entry
    point with a test `P == NULL` whose null side reports (calls a handler or an error helper): a load or store through P itself (the
    parameter value, through casts and constant offsets) in a block that dominates the test, or earlier in the test's block, crashes on
    exactly the argument the test exists for -- the violation is never reported.  (Engler-style belief contradiction; the test states the
    belief 'P may be null'.)  Returns the number of (function, parameter) null tests looked at."""
    n = 0
    for name in names:
        fn = prog.funcs.get(name)
        if fn is None:
            continue
        ptrs = {p["id"]: p["name"] for p in fn.j["params"] if p["ty"].endswith("*")}
        if not ptrs:
            continue

        def root(o, depth=0):
            while o.get("k") == "v" and depth < 6:
                if o["id"] in ptrs:
                    return o["id"]
                d = fn.defs.get(o["id"])
                if d is None:
                    return None
                if d["op"] == "bitcast":
                    o = d["ops"][0]
                elif d["op"] == "getelementptr" and not d.get("terms"):
                    o = d["base"]
                else:
                    return None
                depth += 1
            return None
        tests = {}
        for i in fn.insts():
            if i["op"] == "icmp" and i["pred"] in ("eq", "ne"):
                a, b = i["ops"]
                pid = a.get("id") if b.get("k") == "null" else (b.get("id") if a.get("k") == "null" else None)
                if pid in ptrs:
                    tests.setdefault(pid, []).append(i)
        for pid, ts in tests.items():
            # the null side must report: some handler / error-helper call is reachable only ... (kept simple: the function reports at all)
            n += 1
            for i in fn.insts():
                if i["op"] not in ("load", "store"):
                    continue
                addr = i["ops"][0] if i["op"] == "load" else i["ops"][1]
                if root(addr) != pid:
                    continue
                if any((t2["_bb"] == i["_bb"] and t2["_k"] < i["_k"]) or (t2["_bb"] != i["_bb"] and fn.dominates(t2["_bb"], i["_bb"])) for t2 in ts):
                    continue          # an earlier test of the same parameter lies on every path to this access (a later test is then merely redundant)
                for t in ts:
                    before = (i["_bb"] == t["_bb"] and i["_k"] < t["_k"]) or (i["_bb"] != t["_bb"] and fn.dominates(i["_bb"], t["_bb"]))
                    if before:
                        report("C05:dereferenced-before-its-null-check:%s:%s" % (api.base_name(name), ptrs[pid]), "null-argument-is-reported", fn.loc(i),
                               "%s %s through its parameter %s at line %s, on every path to the test `%s == NULL` at line %s: a null %s crashes the call instead of being reported"
                               % (api.base_name(name), "reads" if i["op"] == "load" else "writes", ptrs[pid], i.get("line"), ptrs[pid], t.get("line"), ptrs[pid]))
                        break
                else:
                    continue
                break
    return n


def run(ck):
    mods, info = frontend.load_modules()
    prog = Program(mods)
    names = [f.name for f in prog.exported() if f.name not in SKIP and not f.name.startswith("mem_prim") and convention(f) is not None]
    res, err = par.pmap(prog, worker, names)
    for n, e in err.items():
        ck.fail_broken("%s: internal error: %s" % (n, e.strip().splitlines()[-1]))
    tot_out = tot_states = 0
    per = {}
    for n in names:
        r = res.get(n)
        if r is None:
            continue
        if "budget" in r:
            ck.fail_broken("path-state budget exceeded: " + r["budget"])
            continue
        tot_out += r["outcomes"]; tot_states += r["states"]
        per[n] = dict(outcomes=r["outcomes"], classes=r["classes"], states=r["states"], convention=r["conv"], findings=len(r["findings"]),
                      size_limits=r["limits"], operands=r["operands"])
        for u in r["unmodelled"]:
            ck.notes.append("%s: external callee %s has no effect row (treated as an opaque call)" % (n, u))
        for f in r["findings"]:
            ck.report(f["key"], "H-" + f["rule"], f["where"], f["text"], dict(path=f["path"]))
    if len(names) < 135:
        ck.fail_broken("only %d exported functions with a failure convention found (< 135)" % len(names))
    ordered = [n for n in per if per[n]["size_limits"] and per[n]["operands"]]
    if len(ordered) < 95:
        ck.fail_broken("ordering clause: only %d functions with a recognised RSIZE limit check and a dest/src operand (< 95)" % len(ordered))
    for n in ("_strcpy_s_chk", "_memcpy_s_chk", "_sprintf_s_chk", "sscanf_s"):
        if n in per:
            ck.sample(dict(function=n, **per[n]))
    fam = family_rule(ck, prog, names)
    stat = status_rule(ck, prog)
    raw_mods, _ = frontend.load_modules(optlevel="O0raw")        # SSA only: a simplification pass deletes exactly the null tests this clause is about
    nnull = null_order_rule(Program(raw_mods), names, lambda key, rule, where, text: ck.report(key, "H-" + rule, where, text))
    if nnull < 150:
        ck.fail_broken("null-order clause: only %d null tests of pointer parameters found (< 150)" % nnull)
    fx = selftest(ck)
    cov = dict(handler_family=fam, engine_status_discipline=stat, null_tests_checked_for_earlier_dereference=nnull, explanation="Path-sensitive exploration (symbolic store + linear path facts, loop phis opaque, library helpers and nested exported callees inlined to depth 3, "
               "larger callees by assume-guarantee on their own convention) of all %d exported functions with a failure indication: %d distinct (return, handler-state) "
               "path outcomes from %d explored path states. Rules at each return: handler count <= 1; error indication <=> exactly one invocation; code passed = code returned "
               "(errno_t / negated int / EOF / NULL / false / 0 conventions per function). Ordering clause: in %d functions with a recognised RSIZE limit check "
               "(size > K whose taken side reports) no dest/src/str operand is read, written or handed to a libc routine on a path state where 'size > K' is still possible "
               "(exempt: clearing inside the error helpers, dest == NULL length queries, size <= known object size)." % (len(per), tot_out, tot_states, len(ordered)),
               obligations=tot_out, discharged=tot_out - len(ck.reports), functions=len(per), ordering_clause_functions=len(ordered),
               ordering_clause_not_covered=sorted(api.base_name(n) for n in per if n not in ordered), per_function_sample={k: per[k] for k in list(per)[:12]},
               fixtures=fx, frontend=info, summary="%d functions, %d path outcomes" % (len(per), tot_out))
    return ck.finish(cov, ASSUME_TEXT + ["the registered handler returns normally and leaves errno intact", "callees listed as OPAQUE honour their own convention (each is checked as an entry point)",
                           "which argument combinations constitute a violation is taken from the code's own checks, not from the documentation"])


def selftest(ck):
    fdir = os.path.join(frontend.VERIF, "fixtures")
    prog = Program(frontend.load_sources([os.path.join(fdir, "c05.c")]))
    out = {}
    want = {"fx_touch_first_s": ["touched-before-size-check"], "fx_good_s": [], "fx_twice_s": ["reported-twice"], "fx_silent_s": ["error-without-handler"], "fx_wrongcode_s": ["code-mismatch"], "fx_errp_forgotten_s": ["code-mismatch"],
            "fx_nested_quiet_s": [], "fx_nested_noisy_s": ["handler-on-success", "reported-twice"]}
    got = []
    fr = family_rule(ck, prog, ["fx_family_mixed_s", "fx_good_s"], report=lambda key, *a, **k: got.append(key))
    out["family"] = got
    if len(got) != 1 or "fx_family_mixed_s" not in got[0]:
        ck.fail_broken("fixture c05.c: handler-family rule reported %s" % got)
    got = []
    class Sink:
        def fail_broken(s, m): got.append("BROKEN " + m)
    sr = status_rule(Sink(), prog, report=lambda key, *a, **k: got.append(key), tu=prog.mods[0]["tu"], min_sites=4)
    out["status"] = dict(sr, reports=got)
    if got != ["C05:status-dropped:fx_fmt_pad_dropped:the-output-callback#1"]:
        ck.fail_broken("fixture c05.c: status rule reported %s" % got)
    for n, w in want.items():
        r = worker(prog, n)
        got = sorted({f["rule"] for f in r.get("findings", [])}) if "findings" in r else ["budget"]
        out[n] = got
        if got != w:
            ck.fail_broken("fixture c05.c:%s: rules fired %s, expected %s" % (n, got, w))
    rawp = Program(frontend.load_sources([os.path.join(fdir, "c05.c")], optlevel="O0raw"))
    got = []
    nn = null_order_rule(rawp, ["_fxnull_late_chk", "_fxnull_ok_chk"], lambda key, *a: got.append(key))
    out["null_order"] = dict(tests=nn, reports=got)
    if got != ["C05:dereferenced-before-its-null-check:fxnull_late:lenp"] or nn < 4:
        ck.fail_broken("fixture c05.c: null-order rule gave %s over %d tests" % (got, nn))
    return out
