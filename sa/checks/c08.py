"""C08 (default build) -- after success nothing stale remains behind the terminator.

Structural necessary conditions decided here (end clause, and a start clause: no gap between what was written and the clearing): every slack-clearing write into a caller destination -- a zeroing memset, or a loop whose
only stores put 0 through a cursor -- ends *exactly* at dest + dmax (off + n == dmax0 as an equality, entailed both ways from the loop
invariants).  A clearing that uses a stale counter, the wrong unit (elements for bytes) or stops one element early is what leaves old
contents readable.  That the clearing is reached on every success path is the terminator rule of C03 plus this equality; the no-slack
build degenerates to C03 (thorough tier of C03).  Which functions are documented to null the slack is not encoded: the rule applies to
every zeroing write into a caller buffer in the library."""
import json, os, re
from ..ir import Program
from .. import frontend, api, par, capcheck, budget
from . import capcommon
from . import dest_common as dc

VERIF = frontend.VERIF
MIN_FILLS = 100


def worker(prog, key):
    tu, name = key
    fn = next(f for f in prog.allfuncs if f.name == name and f.mod["tu"] == tu)
    res, info = capcheck.analyse(fn, worker.roles.get(name, []), prog, worker.roles, want_kinds=("W", "S"))
    return dict(res=[x for x in res if x.get("zero_fill")], file=fn.file)


MUST_EXCLUDE = {"handle_str_bos_overflow", "_wmemcpy_s_chk", "_wmemmove_s_chk", "safec_vsnprintf_s", "_wcsnorm_decompose_s_chk", "_wcsnorm_reorder_s_chk", "_wcsnorm_compose_s_chk"}


def must_worker(prog, name):
    return dc.explore(prog, name)


FILL_FAMILY = ("_strset_s_chk", "_strnset_s_chk", "_strzero_s_chk")


def budget_exhausted(fn, path):
    """does the path leave a loop on the edge where a counter initialised from dmax is zero"""
    mp = fn.pnames.get("dmax")
    if not path or mp is None:
        return False
    for b, s_ in zip(path, path[1:]):
        t = fn.term(b)
        if t["op"] != "br" or "cond" not in t:
            continue
        c = fn.defs.get(t["cond"].get("id")) if t["cond"].get("k") == "v" else None
        if c is None or c["op"] != "icmp":
            continue
        a, z = c["ops"]
        if c["pred"] in ("ult", "ne", "slt", "uge", "eq", "sge") and a.get("k") == "v" and z.get("k") == "v":
            # index form: `i < dmax` fails (the index, a loop-header phi, has reached the declared size)
            pa, pz = fn.defs.get(a["id"]), fn.defs.get(z["id"])
            idx, bound = (a, z) if (pa is not None and pa["op"] == "phi" and pa["_bb"] in fn.loops) else ((z, a) if (pz is not None and pz["op"] == "phi" and pz["_bb"] in fn.loops) else (None, None))
            if idx is not None and c["pred"] != "eq":
                o_ = bound
                while o_.get("k") == "v" and fn.defs.get(o_["id"], {}).get("op") in ("zext", "trunc"):
                    o_ = fn.defs[o_["id"]]["ops"][0]
                if o_.get("k") == "v" and o_["id"] == mp["id"]:
                    stay = t["t"] if c["pred"] in ("ult", "ne", "slt") else t["f"]
                    if s_ != stay:
                        return True
            continue
        if c["pred"] not in ("eq", "ne"):
            continue
        if not (z.get("k") == "c" and z["v"] == 0 and a.get("k") == "v"):
            continue
        ph = fn.defs.get(a["id"])
        if ph is None or ph["op"] != "phi" or ph["_bb"] not in fn.loops:
            continue
        init = [x["v"] for x in ph["incoming"] if x["bb"] not in fn.loops[ph["_bb"]]["_set"]]
        def from_dmax(o, depth=0):
            # the remaining capacity: dmax itself, or dmax minus what was consumed so far (another such counter, a pointer difference)
            if o is None or o.get("k") != "v" or depth > 6:
                return False
            if o["id"] == mp["id"]:
                return True
            d_ = fn.defs.get(o["id"])
            if d_ is None:
                return False
            if d_["op"] in ("zext", "trunc"):
                return from_dmax(d_["ops"][0], depth + 1)
            if d_["op"] == "sub":
                return from_dmax(d_["ops"][0], depth + 1)
            if d_["op"] == "add":
                return from_dmax(d_["ops"][0], depth + 1) or from_dmax(d_["ops"][1], depth + 1)
            if d_["op"] == "phi":
                return any(from_dmax(x["v"], depth + 1) for x in d_["incoming"])
            return False
        if not (init and from_dmax(init[0])):
            continue
        zero_side = t["t"] if c["pred"] == "eq" else t["f"]
        if s_ == zero_side:
            return True
    return False


def must_clear(ck, prog):
    """third clause: on every success return of a string producer on which this call stored into dest, dest has been zeroed up to its declared
    end since the last non-zero write (a memset / zero-only loop certified by the end clause, a full clearing, or a nested producer's own success)."""
    names = [n for n in dc.anchored_writers(prog, "C03") if n not in MUST_EXCLUDE]
    # the fill family is anchored by C08 only (strset_s, strnset_s, strzero_s)
    names += [n for n in dc.anchored_writers(prog, "C08") if n not in names and n in FILL_FAMILY]
    res, err = par.pmap(prog, must_worker, names)
    for n, e in err.items():
        ck.fail_broken("%s: internal error: %s" % (n, e.strip().splitlines()[-1]))
    nsucc = 0
    per = {}
    for n in names:
        r = res.get(n)
        if not r or "outcomes" not in r:
            if r and "budget" in r:
                ck.fail_broken("path-state budget exceeded: " + r["budget"])
            continue
        base = api.base_name(n)
        succ = [o for o in r["outcomes"] if o["err"] is False and o["wrote"] and not o["exempt"]]
        if n in FILL_FAMILY:
            # a fill that ran until the declared size was used up leaves no slack (dest was not terminated inside dmax)
            succ = [o for o in succ if not budget_exhausted(prog.funcs[n], o.get("path"))]
        nsucc += len(succ)
        per[base] = dict(success_classes=len(succ), without_clearing=sum(1 for o in succ if not o["slack"]))
        for o in succ:
            if not o["slack"]:
                ck.report("C08:success-without-slack-clearing:%s:ret=%s:%s" % (base, o["ret"], o["msg"]), "S-clear-on-every-success", "%s:%s" % (r["file"], o["line"]),
                          "%s: a success return (%s) is reached after this call stored into dest without dest having been zeroed up to dest+dmax since the last non-zero store: "
                          "old contents stay readable behind the result" % (base, o["ret"]), dict(path=o["path"]))
    if nsucc < 60:
        ck.fail_broken("must-clear clause: only %d success classes of string producers explored (< 60)" % nsucc)
    return nsucc, per


def run(ck):
    mods, info = frontend.load_modules()
    prog = Program(mods)
    worker.roles = capcheck.all_roles(prog)
    reach = [(re.compile(rx), why) for rx, why in json.load(open(os.path.join(VERIF, "tables", "cap_reach.json")))["reach"]]
    res, err = par.pmap(prog, worker, [(f.mod["tu"], f.name) for f in prog.allfuncs])
    for k, e in err.items():
        ck.fail_broken("%s: internal error: %s" % (k[1], e.strip().splitlines()[-1]))
    n = ok = nreach = nstart = 0
    reach_fns = {}
    fns = set()
    for k in sorted(res):
        for x in res[k]["res"]:
            if x["role"].startswith(("local:", "global:")):
                continue
            n += 1
            fns.add(k[1])
            base = api.base_name(k[1])
            if x.get("starts_at_written_end") is not None:
                nstart += 1
            if x.get("starts_at_written_end") is False:
                ck.report("C08:slack-clear-gap:%s:%s:%s#%d" % (base, x["what"].replace(" ", "-"), x["role"], x["ordinal"]), "S-clear-starts-at-written-end",
                          "%s:%s" % (res[k]["file"], x["line"]),
                          "%s: the zeroing %s starts at offset %s, a constant distance behind the end of everything this function wrote into %s: the elements in between keep their old contents"
                          % (base, x["what"], x["off"], x["role"]), dict(obligation=x))
                continue
            if x["ends_at_cap"]:
                ok += 1
                if len(ck.samples) < 5:
                    ck.sample(dict(function=base, clearing=x["what"], start_offset=x["off"], length=x["size"], capacity=x["cap"], verdict="off + n == capacity entailed"))
                continue
            sig = "%s|%s|%s|%s" % (k[1], "W", x["what"], x["role"])
            if any(rx.search(sig) for rx, _ in reach):
                nreach += 1
                reach_fns[k[1]] = reach_fns.get(k[1], 0) + 1
                continue
            ck.report("C08:slack-clear-short:%s:%s:%s#%d" % (base, x["what"].replace(" ", "-"), x["role"], x["ordinal"]), "S-clear-ends-at-dmax",
                      "%s:%s" % (res[k]["file"], x["line"]),
                      "%s: the zeroing %s starting at offset %s with length %s is not known to end exactly at the declared end of %s (%s): elements behind it keep their old contents"
                      % (base, x["what"], x["off"], x["size"], x["role"], x["cap"]), dict(obligation=x))
    pinned = json.load(open(os.path.join(VERIF, "tables", "cap_reach.json"))).get("c08_fills", {})
    for fname, cnt in sorted(reach_fns.items()):
        if fname not in pinned:
            ck.fail_broken("tables/cap_reach.json records no slack-clearing count for %s" % fname)
        elif cnt > pinned[fname]:
            ck.report("C08:outside-reach-grew:%s" % api.base_name(fname), "S-clear-ends-at-dmax", "%s:%s" % (res[next(k for k in res if k[1] == fname)]["file"], "?"),
                      "%s: %d slack-clearing writes of this function cannot be decided where %d were recorded for the pinned tree (function listed in tables/cap_reach.json)"
                      % (api.base_name(fname), cnt, pinned[fname]))
    if n < MIN_FILLS:
        ck.fail_broken("only %d slack-clearing writes found (< %d)" % (n, MIN_FILLS))
    if nstart < 80:
        ck.fail_broken("start clause decided for only %d slack-clearing writes (< 80 confirmed on the pinned tree)" % nstart)
    nmust, mper = must_clear(ck, prog)
    bud = budget.rule(prog, ck.report, "C08", broken=ck.fail_broken)
    fx = selftest(ck)
    cov = dict(cursor_and_count_loops={k: bud[k] for k in ("loops", "iteration_paths")}, must_clear=dict(success_classes=nmust, functions=mper), explanation="%d zeroing writes into caller buffers (memsets and zero-only loops) in %d functions: for %d the equality 'start offset + length == declared size' is entailed "
               "from the loop invariants in both directions; %d lie in functions outside the reach of the domain (not claimed). Start clause: for %d of them it is decided that the clearing "
               "starts at the buffer start or not behind the end of something the function itself wrote (a store, or the element count returned by a converter/formatter); "
               "a start a constant distance behind every such write is reported, the rest (start computed from a value reloaded from memory) is not decided." % (n, len(fns), ok, nreach, nstart),
               obligations=n, discharged=ok, outside_reach=nreach, start_clause_decided=nstart, functions=len(fns), fixtures=fx, frontend=info,
               summary="%d slack-clearing writes, %d end exactly at dmax, %d outside reach" % (n, ok, nreach))
    return ck.finish(cov, ["only the 'clearing ends exactly at dest+dmax' clause is decided here; 'a terminator is present' is C03, 'the elements in front are exactly the result' is C06 (not decided)",
                           "functions in tables/cap_reach.json are not analysed"])


def selftest(ck):
    fdir = os.path.join(frontend.VERIF, "fixtures")
    prog = Program(frontend.load_sources([os.path.join(fdir, "c08.c")]))
    roles = capcheck.all_roles(prog)
    out = {}
    want = {"fx8_good": 0, "fx8_wrong_unit": 1, "fx8_stale_counter": 1, "fx8_loop_short": 1, "fx8_loop_good": 0, "fx8_conv_good": 0, "fx8_conv_gap": 1, "fx8_loop_gap": 1}
    for n, w in want.items():
        res, _ = capcheck.analyse(prog.funcs[n], roles.get(n, []), prog, roles, want_kinds=("W", "S"))
        bad = sum(1 for x in res if x.get("zero_fill") and (not x["ends_at_cap"] or x.get("starts_at_written_end") is False))
        if n in ("fx8_good", "fx8_conv_good") and not any(x.get("starts_at_written_end") is True for x in res if x.get("zero_fill")):
            ck.fail_broken("fixture c08.c:%s: the start clause was not decided" % n)
        out[n] = dict(fills=sum(1 for x in res if x.get("zero_fill")), not_ending_at_dmax=bad)
        if (bad > 0) != bool(w) or out[n]["fills"] == 0:
            ck.fail_broken("fixture c08.c:%s: %d of %d fills do not end at dmax, expected %s" % (n, bad, out[n]["fills"], "some" if w else "none"))
    p1 = Program(frontend.load_sources([os.path.join(fdir, "c01.c")]))
    got = []
    r = budget.rule(p1, lambda key, *a, **k: got.append(key), "C08", funcs=[p1.funcs[n] for n in ("fxb_good", "fxb_no_room", "fxb_double_dec")], floor=0)
    out["budget_rule"] = dict(reports=got, loops=r["loops"])
    if got != ["C08:count-ahead-of-cursor:fxb_double_dec:while.cond"] or r["loops"] != 3:
        ck.fail_broken("fixture c01.c: budget rule (C08 direction) reported %s over %d loops" % (got, r["loops"]))
    return out
