"""C19 -- timingsafe comparisons are data-independent and correct.
Clause 1 (data-independence): no value loaded from either compared region reaches a branch condition, a select condition, a memory
address, a division/remainder operand, or an argument of a non-pure call (taint analysis).
Clause 2 (result): relational value-set abstract interpretation (sa/relval.py): the byte streams are abstracted to the relation of the
current pair (<, =, >); the loop-carried accumulators are followed over all sequences of relations to a fixpoint together with the
sign of the first difference, and the value returned from every reachable state is compared with it: timingsafe_bcmp returns 0 iff
no pair differed, timingsafe_memcmp a value with the sign of the first differing pair."""
import os
from ..ir import Program, operands
from ..derive import derive, labels_of, taint
from ..effects import is_pure_intrinsic
from .. import frontend, relval

TARGETS = {"_timingsafe_bcmp_chk": "src/extmem/timingsafe_bcmp.c", "_timingsafe_memcmp_chk": "src/extmem/timingsafe_memcmp.c"}


def analyse_fn(fn, secret_params=None):
    """returns (n_secret_loads, n_tainted, violations[(kind, inst)])"""
    if secret_params is None:
        secret_params = [p["id"] for p in fn.j["params"] if p["ty"].endswith("*")]
    der = derive(fn, {p: p for p in secret_params}, through_int=True)
    src = set()
    for i in fn.insts():
        if i["op"] == "load" and labels_of(i["ops"][0], der, None):
            src.add(i["id"])
        # libc/intrinsic readers of the secret (memcmp, bcmp...) return secret-dependent values
        if i["op"] == "call" and "id" in i and any(labels_of(a, der, None) for a in i.get("args", ())):
            if not i.get("callee", "").startswith("llvm.dbg"):
                src.add(i["id"])
    t = taint(fn, src)
    viol = []
    def tv(o):
        return o.get("k") == "v" and o["id"] in t
    for i in fn.insts():
        op = i["op"]
        if op in ("br", "switch") and "cond" in i and tv(i["cond"]):
            viol.append(("secret-dependent branch", i))
        elif op == "select" and tv(i["ops"][0]):
            viol.append(("secret-dependent select", i))
        elif op == "load" and tv(i["ops"][0]):
            viol.append(("secret-dependent load address", i))
        elif op == "store" and tv(i["ops"][1]):
            viol.append(("secret-dependent store address", i))
        elif op in ("udiv", "sdiv", "urem", "srem", "fdiv", "frem") and any(tv(o) for o in i["ops"]):
            viol.append(("secret-dependent division", i))
        elif op in ("call", "invoke"):
            cal = i.get("callee", "")
            if cal.startswith("llvm.dbg") or is_pure_intrinsic(cal):
                continue
            if any(tv(a) for a in i.get("args", ())):
                viol.append(("secret value passed to %s" % (cal or "<indirect>"), i))
            elif any(labels_of(a, der, None) for a in i.get("args", ())) and fn.prog_resolve(cal) is None and \
                    not cal.startswith("llvm.") and "constraint_handler" not in cal:
                viol.append(("secret region handed to external %s (timing not analysable)" % cal, i))
    analyse_fn.last_taint = t
    return len(src), len(t), viol


def _tybits(ty):
    try:
        return int(ty[1:]) if ty.startswith("i") else 64
    except ValueError:
        return 64


def narrowing_rule(fn, tainted):
    """clause: the verdict is computed from the *whole* accumulated difference.  A truncation of a secret-derived value that can have
    significant bits above the width it is truncated to loses every difference that shows only in those bits (the functions then answer
    'equal' for unequal regions).  Significant bits: a load has its own width, zext keeps the operand's, or/xor/phi take the maximum, and
    the minimum, shl adds, lshr subtracts, add one more than the maximum; anything else (sub, mul, sext, calls) may fill its type.
    Returns (number of truncations of secret-derived values looked at, [(instruction, operand bits, result bits)])."""
    width = {}

    def w(o):
        if o.get("k") == "c":
            v = o.get("v", 0)
            return _tybits(o.get("ty", "i%d" % o.get("bits", 64))) if v < 0 else max(1, int(v).bit_length())
        if o.get("k") != "v":
            return 64
        return width.get(o["id"], 0)
    for _ in range(6):                                  # ascending fixpoint; widths are bounded by the type
        for i in fn.insts():
            if "id" not in i or not i.get("ty", "").startswith("i"):
                continue
            tb = _tybits(i["ty"])
            op = i["op"]
            if op == "load":
                r = tb
            elif op == "zext":
                r = w(i["ops"][0])
            elif op == "sext":
                ob = _tybits(i["ops"][0].get("ty", "i32"))
                r = w(i["ops"][0]) if w(i["ops"][0]) < ob else tb          # the sign bit of the operand is known to be 0: same as zext
            elif op == "trunc":
                r = min(tb, w(i["ops"][0]))
            elif op in ("or", "xor"):
                r = max(w(i["ops"][0]), w(i["ops"][1]))
            elif op == "and":
                r = min(w(i["ops"][0]), w(i["ops"][1]))
            elif op == "phi":
                r = max([w(x["v"]) for x in i["incoming"]] or [0])
            elif op == "select":
                r = max(w(i["ops"][1]), w(i["ops"][2]))
            elif op == "shl" and i["ops"][1].get("k") == "c":
                r = w(i["ops"][0]) + i["ops"][1]["v"]
            elif op == "lshr" and i["ops"][1].get("k") == "c":
                r = max(0, w(i["ops"][0]) - i["ops"][1]["v"])
            elif op == "add":
                r = max(w(i["ops"][0]), w(i["ops"][1])) + 1
            elif op == "icmp":
                r = 1
            else:
                r = tb
            width[i["id"]] = min(tb, max(width.get(i["id"], 0), r))
    seen, bad = 0, []
    for i in fn.insts():
        if i["op"] == "trunc" and i["ops"][0].get("k") == "v" and i["ops"][0]["id"] in tainted:
            seen += 1
            ob, rb = width.get(i["ops"][0]["id"], 64), _tybits(i["ty"])
            if ob > rb:
                bad.append((i, ob, rb))
    return seen, bad


RESULT_SPEC = {"_timingsafe_bcmp_chk": "zero-iff-equal", "_timingsafe_memcmp_chk": "sign-of-first-difference",
               "good_bcmp": "zero-iff-equal", "good_memcmp": "sign-of-first-difference", "bad_result_done": "sign-of-first-difference", "bad_result_bcmp": "zero-iff-equal"}


def result_rule(fn, spec):
    """(states explored, [violation texts])"""
    b1, b2 = fn.pnames.get("b1"), fn.pnames.get("b2")
    r = relval.analyse_loop(fn, {b1["id"]: 1, b2["id"]: 2})
    bad = []
    for ghost, v in r["exits"]:
        vals = relval._vals(v) if v is not None else None
        if spec == "zero-iff-equal":
            ok = (v is not None and ((ghost == 0 and vals == frozenset([0])) or
                                     (ghost != 0 and ((vals is not None and 0 not in vals) or (v[0] == "rng" and (v[1] > 0 or v[2] < 0))))))
            want = "0" if ghost == 0 else "non-zero"
        else:
            if ghost == 0:
                ok = vals == frozenset([0])
            elif ghost < 0:
                ok = (vals is not None and all(x < 0 for x in vals)) or (v is not None and v[0] == "rng" and v[2] < 0)
            else:
                ok = (vals is not None and all(x > 0 for x in vals)) or (v is not None and v[0] == "rng" and v[1] > 0)
            want = {0: "0", -1: "a negative value", 1: "a positive value"}[ghost]
        if not ok:
            shown = "unknown" if v is None else (sorted(vals)[:6] if vals is not None else "%d..%d" % (v[1], v[2]))
            bad.append("after a sequence of byte pairs whose first difference is %s the function can return %s, expected %s"
                       % ({0: "absent (all pairs equal)", -1: "'less'", 1: "'greater'"}[ghost], shown, want))
    return r["states"], sorted(set(bad))


def run(ck):
    tier = ck.tier
    levels = ["O0"] + (["O1", "O2", "O3"] if tier == "thorough" else [])
    per = {}
    total_ob = 0
    for ol in levels:
        if ol == "O0":
            mods, info = frontend.load_modules()
        else:
            mods, info = frontend.load_modules(optlevel=ol, only=[os.path.basename(v) for v in TARGETS.values()])
        prog = Program(mods)
        for name, tu in TARGETS.items():
            fn = prog.funcs.get(name)
            if fn is None or fn.mod["tu"] != tu:
                ck.fail_broken("anchor %s not found in %s (%s)" % (name, tu, ol)); continue
            fn.prog_resolve = lambda c, fn=fn, prog=prog: prog.resolve(fn, c) if c else None
            nsrc, nt, viol = analyse_fn(fn)
            ninst = sum(1 for _ in fn.insts())
            total_ob += ninst
            per["%s@%s" % (name, ol)] = dict(instructions=ninst, secret_loads=nsrc, tainted_values=nt, violations=len(viol))
            if nsrc < 2:
                ck.fail_broken("%s@%s: fewer than 2 loads from the compared regions (%d): taint sources vanished" % (name, ol, nsrc))
            loops = len(fn.loops)
            if ol == "O0" and loops < 1:
                ck.fail_broken("%s: no loop found" % name)
            for kind, i in viol:
                ck.report("C19:%s:%s:%s" % (name, kind.split(" passed to ")[0].replace(" ", "-"), ol), "T-secret-independent", fn.loc(i),
                          "%s (%s IR): %s at %s" % (name, ol, kind, fn.loc(i)), dict(inst={k: v for k, v in i.items() if not k.startswith("_")}))
            ck.sample(dict(function=name, opt=ol, secret_loads=nsrc, tainted_values=nt, sinks_checked=ninst, verdict="no tainted sink" if not viol else "VIOLATION"))
            narrowed = []
            if ol == "O0":
                ntr, narrowed = narrowing_rule(fn, analyse_fn.last_taint)
                per["%s@%s" % (name, ol)]["truncations_of_secret_values"] = ntr
                for (ti, ob, rb) in narrowed:
                    ck.report("C19:%s:difference-narrowed:%d-to-%d" % (name, ob, rb), "R-result-from-the-whole-difference", fn.loc(ti),
                              "%s: a value derived from the compared bytes with up to %d significant bits is truncated to %d bits on the way to the verdict: regions that differ only in the dropped bits compare as equal"
                              % (name, ob, rb))
            if ol == "O0":
                try:
                    nst, bad = result_rule(fn, RESULT_SPEC[name])
                    per["%s@%s" % (name, ol)]["result_clause"] = dict(spec=RESULT_SPEC[name], abstract_states=nst, violations=len(bad))
                    for k_, b_ in enumerate(bad):
                        ck.report("C19:%s:wrong-result#%d" % (name, k_), "R-result-from-relations", "%s:%s" % (fn.file, fn.line), "%s: %s" % (name, b_))
                except relval.Undecidable as e:
                    if narrowed:
                        # the shape relval cannot interpret (word-wise accumulation) is the one whose verdict the narrowing clause just
                        # judged: reported above, not 'analysis broken' on top
                        per["%s@%s" % (name, ol)]["result_clause"] = dict(not_interpreted="%s; the verdict is reported by the narrowing clause" % e)
                    elif viol and "conditional branch" in str(e):
                        # the loop body branches on the compared data: that is the violation of the first clause reported above, and the reason
                        # why the result clause has nothing to interpret -- not a second, 'analysis broken' verdict
                        per["%s@%s" % (name, ol)]["result_clause"] = dict(not_interpreted="the loop body branches on data (reported by the data-independence clause)")
                    else:
                        ck.fail_broken("%s: result clause not decidable on this shape: %s" % (name, e))
    fx = selftest(ck)
    cov = dict(explanation="Taint analysis over the SSA IR of the two timingsafe functions (%s): sources = every load through a pointer derived from "
               "either region parameter (and results of calls reading them); sinks = branch/switch/select conditions, load/store addresses, "
               "division operands, arguments of non-pure calls. All instructions of both functions are checked. Result clause: the loop accumulators are followed over all sequences of byte-pair relations (<, =, >) "
               "to a fixpoint and the value returned from every reachable abstract state is compared with 0-iff-equal / the sign of the first difference (sa/relval.py)." % ", ".join(levels),
               exhaustive=True, obligations=total_ob, discharged=total_ob - len(ck.reports), functions=per, opt_levels=levels, fixtures=fx,
               summary="%d function×level instances, %d instructions, 0 tainted sinks" % (len(per), total_ob) if not ck.reports else "tainted sinks found")
    return ck.finish(cov, ["IR-level argument: the x86 back end is trusted not to introduce secret-dependent branches for the remaining arithmetic",
                           "shifts, multiplications and bitwise ops are constant-time on the target"])


def selftest(ck):
    fdir = os.path.join(frontend.VERIF, "fixtures")
    out = {}
    for ol in ("O0", "O2"):
        prog = Program(frontend.load_sources([os.path.join(fdir, "c19.c")], optlevel=ol))
        for name, want in (("bad_early_exit", True), ("bad_table", True), ("bad_libc", True), ("good_bcmp", False), ("good_memcmp", False)):
            fn = prog.funcs[name]
            fn.prog_resolve = lambda c, fn=fn, prog=prog: prog.resolve(fn, c) if c else None
            secret = [p["id"] for p in fn.j["params"] if p["name"] in ("b1", "b2")]
            nsrc, nt, viol = analyse_fn(fn, secret)
            out["%s@%s" % (name, ol)] = len(viol)
            if bool(viol) != want:
                ck.fail_broken("fixture c19.c:%s@%s: rule %s" % (name, ol, "did not fire" if want else "fired on conforming code: %s" % viol[0][0]))
    prog = Program(frontend.load_sources([os.path.join(fdir, "c19.c")]))
    for name, want in (("good_bcmp", False), ("good_memcmp", False), ("bad_result_done", True), ("bad_result_bcmp", True)):
        try:
            nst, bad = result_rule(prog.funcs[name], RESULT_SPEC[name])
        except relval.Undecidable as e:
            ck.fail_broken("fixture c19.c:%s: result clause undecidable: %s" % (name, e)); continue
        out["%s:result" % name] = len(bad)
        if bool(bad) != want:
            ck.fail_broken("fixture c19.c:%s: result rule %s" % (name, "did not fire" if want else "fired on conforming code: %s" % bad[0]))
    for name, want in (("words_narrowed", True), ("words_whole", False), ("bytes_in_long", False), ("good_bcmp", False), ("good_memcmp", False)):
        fn = prog.funcs[name]
        fn.prog_resolve = lambda c, fn=fn, prog=prog: prog.resolve(fn, c) if c else None
        analyse_fn(fn, [p["id"] for p in fn.j["params"] if p["name"] in ("b1", "b2")])
        ntr, nar = narrowing_rule(fn, analyse_fn.last_taint)
        out["%s:narrowing" % name] = dict(truncations=ntr, reported=len(nar))
        if bool(nar) != want:
            ck.fail_broken("fixture c19.c:%s: narrowing rule %s" % (name, "did not fire" if want else "fired on conforming code"))
    return out
