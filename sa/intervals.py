"""Interval-partition abstract interpretation of a pure classification function of one unsigned integer (C17: iswfc).

A function that touches its argument only through comparisons with constants behaves uniformly on every interval between two
consecutive constants.  The CFG is explored with the argument restricted to an interval; every comparison against a constant splits
the interval into the part where it holds and the part(s) where it does not, so every branch is decided.  The result is the list
[(lo, hi, result)] with result a returned constant, or "opaque" when the returned value depends on anything else (a libc call).
Nothing is executed and no representative values are tried: the partition is derived from the comparisons themselves."""


class Unsupported(Exception):
    pass


def _split(pred, lo, hi, c):
    """[(lo, hi, truth)] of  x <pred> c  for x in [lo, hi] (unsigned)"""
    out = []

    def add(a, b, t):
        if a <= b:
            out.append((a, b, t))
    if pred == "eq":
        add(lo, min(hi, c - 1), False); add(max(lo, c), min(hi, c), True); add(max(lo, c + 1), hi, False)
    elif pred == "ne":
        add(lo, min(hi, c - 1), True); add(max(lo, c), min(hi, c), False); add(max(lo, c + 1), hi, True)
    elif pred in ("ult", "slt"):
        add(lo, min(hi, c - 1), True); add(max(lo, c), hi, False)
    elif pred in ("ule", "sle"):
        add(lo, min(hi, c), True); add(max(lo, c + 1), hi, False)
    elif pred in ("ugt", "sgt"):
        add(lo, min(hi, c), False); add(max(lo, c + 1), hi, True)
    elif pred in ("uge", "sge"):
        add(lo, min(hi, c - 1), False); add(max(lo, c), hi, True)
    else:
        raise Unsupported("predicate " + pred)
    return out


def classify(fn, param, lo=0, hi=(1 << 31) - 1, max_states=20000):
    """[(lo, hi, result)] for the integer parameter `param` (SSA id) of fn over [lo, hi]"""
    results = []
    # state: (block, predecessor, lo, hi, env of booleans already decided on this path)
    work = [(fn.entry, None, lo, hi, {})]
    n = 0

    def ev(o, lo, hi, env):
        """[(lo, hi, value)] with value an int (i1 as 0/1), or None when it does not depend on the argument alone"""
        if o.get("k") == "c":
            return [(lo, hi, o["v"])]
        if o.get("k") != "v":
            return [(lo, hi, None)]
        v = o["id"]
        if v in env:
            return [(lo, hi, env[v])]
        if v == param:
            return [(lo, hi, "arg")]
        d = fn.defs.get(v)
        if d is None:
            return [(lo, hi, None)]
        op = d["op"]
        if op == "icmp":
            a, b = d["ops"]
            pred = d["pred"]
            if b.get("k") == "v" and b["id"] == param and a.get("k") == "c":
                a, b = b, a
                pred = {"ult": "ugt", "ugt": "ult", "ule": "uge", "uge": "ule", "slt": "sgt", "sgt": "slt", "sle": "sge", "sge": "sle"}.get(pred, pred)
            if a.get("k") == "v" and a["id"] == param and b.get("k") == "c":
                return [(l, h, int(t)) for (l, h, t) in _split(pred, lo, hi, b["v"])]
            out = []
            for (l, h, x) in ev(a, lo, hi, env):
                for (l2, h2, y) in ev(b, l, h, env):
                    if isinstance(x, int) and isinstance(y, int):
                        r = {"eq": x == y, "ne": x != y, "ult": x < y, "ule": x <= y, "ugt": x > y, "uge": x >= y, "slt": x < y, "sle": x <= y, "sgt": x > y, "sge": x >= y}[pred]
                        out.append((l2, h2, int(r)))
                    else:
                        out.append((l2, h2, None))
            return out
        if op in ("zext", "sext", "trunc"):
            return ev(d["ops"][0], lo, hi, env)
        if op in ("and", "or", "xor"):
            out = []
            for (l, h, x) in ev(d["ops"][0], lo, hi, env):
                for (l2, h2, y) in ev(d["ops"][1], l, h, env):
                    if isinstance(x, int) and isinstance(y, int):
                        out.append((l2, h2, {"and": x & y, "or": x | y, "xor": (x ^ y) & 1 if d["ty"] == "i1" else x ^ y}[op]))
                    else:
                        out.append((l2, h2, None))
            return out
        if op == "select":
            out = []
            for (l, h, c) in ev(d["ops"][0], lo, hi, env):
                if isinstance(c, int):
                    out += ev(d["ops"][1] if c else d["ops"][2], l, h, env)
                else:
                    out.append((l, h, None))
            return out
        return [(lo, hi, None)]

    while work:
        bb, pred, lo_, hi_, env = work.pop()
        n += 1
        if n > max_states:
            raise Unsupported("more than %d states" % max_states)
        env = dict(env)
        # phis first (by the edge taken); an undecided incoming value splits the state
        pend = [(lo_, hi_, env)]
        for i in fn.blocks[bb]["insts"]:
            if i["op"] != "phi":
                break
            inc = next((x["v"] for x in i["incoming"] if x["bb"] == pred), None)
            nxt = []
            for (l, h, e) in pend:
                if inc is None:
                    nxt.append((l, h, e)); continue
                for (l2, h2, val) in ev(inc, l, h, e):
                    e2 = dict(e)
                    if isinstance(val, int):
                        e2[i["id"]] = val
                    else:
                        e2.pop(i["id"], None)
                        e2[i["id"]] = None if val is None else val
                    nxt.append((l2, h2, e2))
            pend = nxt
        t = fn.term(bb)
        for (l, h, e) in pend:
            if t["op"] == "ret":
                o = t["ops"][0] if t.get("ops") else None
                for (l2, h2, val) in (ev(o, l, h, e) if o is not None else [(l, h, None)]):
                    results.append((l2, h2, val if isinstance(val, int) else "opaque"))
            elif t["op"] == "br" and "cond" not in t:
                work.append((t["t"], bb, l, h, e))
            elif t["op"] == "br":
                for (l2, h2, val) in ev(t["cond"], l, h, e):
                    if not isinstance(val, int):
                        # a branch on something else than the argument (a libc classification): both sides, result becomes opaque unless they agree
                        work.append((t["t"], bb, l2, h2, e)); work.append((t["f"], bb, l2, h2, e))
                    else:
                        work.append((t["t"] if val else t["f"], bb, l2, h2, e))
            else:
                raise Unsupported("terminator %s" % t["op"])
    # merge adjacent intervals with equal results
    results.sort()
    out = []
    for (l, h, r) in results:
        if out and out[-1][2] == r and out[-1][1] + 1 >= l:
            out[-1] = (out[-1][0], max(out[-1][1], h), r)
        else:
            out.append((l, h, r))
    return out


# ---- interval-set reachability: for which values of one integer parameter may a block be reached? ----------------------------------

def _union(a, b):
    xs = sorted(a + b)
    out = []
    for (l, h) in xs:
        if out and l <= out[-1][1] + 1:
            out[-1] = (out[-1][0], max(out[-1][1], h))
        else:
            out.append((l, h))
    return out


def _restrict(ivs, pred, c, truth):
    out = []
    for (l, h) in ivs:
        for (a, b, t) in _split(pred, l, h, c):
            if bool(t) == truth:
                out.append((a, b))
    return _union(out, [])


_SWAP = {"ult": "ugt", "ugt": "ult", "ule": "uge", "uge": "ule", "slt": "sgt", "sgt": "slt", "sle": "sge", "sge": "sle", "eq": "eq", "ne": "ne"}


def reach(fn, param, lo=0, hi=(1 << 32) - 1):
    """{block: [(lo, hi)]}: an over-approximation of the values of the unsigned integer parameter `param` (SSA id) with which each block can
    be reached.  A branch on `icmp param, constant` restricts the set on each edge exactly; every other branch passes the set to both sides."""
    def cmp_of(cond):
        d = fn.defs.get(cond.get("id")) if cond.get("k") == "v" else None
        if d is None or d["op"] != "icmp":
            return None
        a, b = d["ops"]
        pred = d["pred"]
        if a.get("k") == "c" and b.get("k") == "v":
            a, b, pred = b, a, _SWAP[pred]
        while a.get("k") == "v" and a["id"] != param and fn.defs.get(a["id"], {}).get("op") == "zext":
            a = fn.defs[a["id"]]["ops"][0]
        if a.get("k") == "v" and a["id"] == param and b.get("k") == "c" and not pred.startswith("s"):
            return pred, b["v"]
        return None
    R = {b["id"]: [] for b in fn.j["blocks"]}
    R[fn.entry] = [(lo, hi)]
    work = [fn.entry]
    while work:
        bb = work.pop()
        t = fn.term(bb)
        if t["op"] == "ret" or t["op"] == "unreachable":
            continue
        if t["op"] == "br" and "cond" in t:
            c = cmp_of(t["cond"])
            if c is None:
                outs = [(t["t"], R[bb]), (t["f"], R[bb])]
            else:
                outs = [(t["t"], _restrict(R[bb], c[0], c[1], True)), (t["f"], _restrict(R[bb], c[0], c[1], False))]
        elif t["op"] == "br":
            outs = [(t["t"], R[bb])]
        else:
            outs = [(s, R[bb]) for s in fn.succ[bb]]
        for (s, ivs) in outs:
            new = _union(R[s], ivs)
            if new != R[s]:
                R[s] = new
                work.append(s)
    return R


def contains(ivs, x):
    return any(l <= x <= h for (l, h) in ivs)
