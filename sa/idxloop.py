"""Element-index verification of a (base, count) search loop (C16: bsearch_s).

The loop carries a pointer into the array and a remaining count; all pointer arithmetic is `base + size * k`.  Working in the
*index domain* (pointer = element index relative to the array parameter, obtained by dividing every offset by the symbolic element
size) makes the arithmetic linear.  The candidate invariant   0 <= B  and  B + n <= nmemb   is checked by induction over every
acyclic path from the loop header back to it (guards of the path as hypotheses, udiv as 2q <= n <= 2q+1), and at every call that
receives a pointer into the array the index must satisfy 0 <= idx < nmemb under the invariant and the path's guards.
Nothing is executed; unsupported arithmetic makes the rule answer 'undecidable'."""
from .lin import Lin, entails


class Undecidable(Exception):
    pass


def verify(fn, base_param, count_param, size_param):
    """returns dict(paths, calls=[(line, ok)], inductive=bool)"""
    P = fn.pnames
    base, count, size = P[base_param]["id"], P[count_param]["id"], P[size_param]["id"]
    if len(fn.loops) != 1:
        raise Undecidable("expected one loop, found %d" % len(fn.loops))
    (h, L), = fn.loops.items()
    inside = L["_set"]
    pphi = nphi = None
    for i in fn.blocks[h]["insts"]:
        if i["op"] != "phi":
            continue
        outs = [x["v"] for x in i["incoming"] if x["bb"] not in inside]
        if i["ty"].endswith("*") and any(o.get("id") == base for o in outs):
            pphi = i
        elif i["ty"].startswith("i") and any(o.get("id") == count for o in outs):
            nphi = i
    if pphi is None or nphi is None:
        raise Undecidable("no (pointer, count) pair of header phis initialised from %s / %s" % (base_param, count_param))
    Bv, nv = Lin.atom("B"), Lin.atom("n")
    N = Lin.atom("N")
    extra = []          # definitional facts (udiv)

    def ival(o, env):
        if o.get("k") == "c":
            return Lin.const(o["v"])
        if o.get("k") != "v":
            raise Undecidable("operand %s" % o)
        v = o["id"]
        if v in env:
            return env[v]
        if v == count:
            return N
        if v == size:
            return Lin.atom("SIZE")
        d = fn.defs.get(v)
        if d is None:
            return Lin.atom(v)
        op = d["op"]
        if op in ("add", "sub"):
            a, b = ival(d["ops"][0], env), ival(d["ops"][1], env)
            r = a + b if op == "add" else a - b
        elif op in ("udiv", "lshr") and d["ops"][1].get("k") == "c":
            k = d["ops"][1]["v"] if op == "udiv" else 2 ** d["ops"][1]["v"]
            a = ival(d["ops"][0], env)
            q = Lin.atom("q:" + v)
            extra.extend([a - q.scale(k), q.scale(k) + Lin.const(k - 1) - a, q])
            r = q
        elif op in ("zext", "sext", "trunc"):
            r = ival(d["ops"][0], env)
        elif op == "mul":
            a, b = ival(d["ops"][0], env), ival(d["ops"][1], env)
            if a == Lin.atom("SIZE"):
                r = ("scaled", b)
            elif b == Lin.atom("SIZE"):
                r = ("scaled", a)
            elif a.is_const():
                r = b.scale(a.c)
            elif b.is_const():
                r = a.scale(b.c)
            else:
                raise Undecidable("non-linear product %s" % v)
        else:
            r = Lin.atom(v)          # call results, loads: opaque integers
        env[v] = r
        return r

    def pval(o, env):
        """element index of a pointer into the array, or None for other pointers"""
        if o.get("k") != "v":
            return None
        v = o["id"]
        if v in env:
            return env[v] if env[v] is None or isinstance(env[v], Lin) else None
        if v == base:
            return Lin.const(0)
        d = fn.defs.get(v)
        if d is None:
            return None
        if d["op"] == "bitcast":
            return pval(d["ops"][0], env)
        if d["op"] == "getelementptr":
            b = pval(d["base"], env)
            if b is None:
                return None
            if d.get("coff", 0) != 0:
                raise Undecidable("byte offset in %s" % v)
            idx = b
            for t in d.get("terms", ()):
                tv = ival(t["v"], env)
                if isinstance(tv, tuple) and tv[0] == "scaled" and t["stride"] == 1:
                    idx = idx + tv[1]
                elif isinstance(tv, Lin) and set(tv.t) == {"SIZE"} and tv.c == 0 and t["stride"] == 1:
                    idx = idx + Lin.const(tv.t["SIZE"])          # base + size: one element
                else:
                    raise Undecidable("pointer step in %s is not size * k" % v)
            env[v] = idx
            return idx
        return None

    inv = [Bv, N - Bv - nv, nv]                       # 0 <= B, B + n <= N, 0 <= n
    results = dict(paths=0, calls=[], inductive=True, reasons=[])

    def guard(cond, val, env):
        d = fn.defs.get(cond.get("id")) if cond.get("k") == "v" else None
        if d is None or d["op"] != "icmp":
            return []
        try:
            a, b = ival(d["ops"][0], env), ival(d["ops"][1], env)
        except Undecidable:
            return []
        if isinstance(a, tuple) or isinstance(b, tuple):
            return []
        pred = d["pred"]
        if not val:
            pred = {"eq": "ne", "ne": "eq", "ugt": "ule", "uge": "ult", "ult": "uge", "ule": "ugt", "sgt": "sle", "sge": "slt", "slt": "sge", "sle": "sgt"}[pred]
        if pred in ("ugt", "sgt"):
            return [a - b - Lin.const(1)]
        if pred in ("uge", "sge"):
            return [a - b]
        if pred in ("ult", "slt"):
            return [b - a - Lin.const(1)]
        if pred in ("ule", "sle"):
            return [b - a]
        if pred == "eq":
            return [a - b, b - a]
        return []

    def walk(bb, pred_bb, env, facts, depth=0):
        if depth > 40:
            raise Undecidable("path too long")
        env = dict(env)
        for i in fn.blocks[bb]["insts"]:
            if i["op"] == "phi" and bb != h:
                inc = next((x["v"] for x in i["incoming"] if x["bb"] == pred_bb), None)
                if inc is not None:
                    if i["ty"].endswith("*"):
                        env[i["id"]] = pval(inc, env)
                    elif i["ty"].startswith("i") and i["ty"] != "i1":
                        r = ival(inc, env)
                        env[i["id"]] = r
            elif i["op"] in ("call", "invoke"):
                for a in i.get("args", ()):
                    if a.get("ty", "").endswith("*"):
                        idx = pval(a, env)
                        if idx is not None:
                            F = inv + facts + extra
                            ok = entails(F, idx) and entails(F, N - idx - Lin.const(1))
                            results["calls"].append((i.get("line"), bool(ok)))
        t = fn.term(bb)
        if t["op"] == "ret":
            return
        succs = [(t["t"], None)] if "cond" not in t else [(t["t"], True), (t["f"], False)]
        for (sc, val) in succs:
            f2 = facts + (guard(t["cond"], val, env) if val is not None else [])
            if sc == h:
                results["paths"] += 1
                pin = next(x["v"] for x in pphi["incoming"] if x["bb"] == bb)
                nin = next(x["v"] for x in nphi["incoming"] if x["bb"] == bb)
                B2, n2 = pval(pin, env), ival(nin, env)
                if B2 is None or isinstance(n2, tuple):
                    raise Undecidable("back edge value not in the index domain")
                F = inv + f2 + extra
                for g, nm in ((B2, "0 <= B'"), (N - B2 - n2, "B' + n' <= nmemb"), (n2, "0 <= n'")):
                    if not entails(F, g):
                        results["inductive"] = False
                        results["reasons"].append("%s not preserved along the path ending in %s" % (nm, bb))
            elif sc in inside:
                walk(sc, bb, env, f2, depth + 1)
            # exits from the loop: nothing to show

    env0 = {pphi["id"]: Bv, nphi["id"]: nv}
    walk(h, None, env0, [])
    return results
