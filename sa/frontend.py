"""Front end: /repo's current working tree -> SSA LLVM IR -> JSON modules.

The TU list and the -D/-I/-U flags are taken on every run from the real build
(`make -n -B` in /repo/src with the generated prerequisites marked old so that
nothing is re-configured).  Every TU is compiled by clang-14, normalised by
opt-14 and serialised by build/irdump.  Results are cached by content hash
(TU + every header + flags + tool), so an edit anywhere in /repo is picked up.
"""
import hashlib, json, os, re, shutil, subprocess, sys, tempfile, time
from concurrent.futures import ThreadPoolExecutor

VERIF = os.path.dirname(os.path.dirname(os.path.abspath(__file__)))
REPO = os.environ.get("VERIF_REPO", "/repo")
CACHE = os.path.join(VERIF, ".cache")
IRDUMP = os.path.join(VERIF, "build", "irdump")
OPT_PASSES = "mem2reg,lower-constant-intrinsics,lower-expect,instsimplify,early-cse"
MIN_TUS = 140          # instance floor: the autotools build compiles 140 TUs


class AnalysisBroken(Exception):
    """exit 2: the analysis itself cannot run / an anchor vanished"""


def _run(cmd, cwd=None, inp=None):
    p = subprocess.run(cmd, cwd=cwd, input=inp, stdout=subprocess.PIPE, stderr=subprocess.PIPE)
    return p.returncode, p.stdout, p.stderr


def ensure_tools():
    if not os.path.exists(IRDUMP):
        rc, out, err = _run(["sh", os.path.join(VERIF, "setup.sh")])
        if rc != 0 or not os.path.exists(IRDUMP):
            raise AnalysisBroken("cannot build irdump: " + err.decode()[-400:])


def compile_db(repo=None):
    """[(tu relative to src/, [flags])] from the real build's make rules."""
    repo = repo or REPO
    src = os.path.join(repo, "src")
    old = ["Makefile", "Makefile.in", "../config.status", "../configure", "../config.h",
           "../include/safe_config.h", "../Makefile", "../aclocal.m4", "../configure.ac", "Makefile.am"]
    cmd = ["make", "-n", "-B"]
    for o in old:
        cmd += ["-o", o]
    # make -n still re-makes the included .deps/*.Plo fragments: concurrent checks must not race on them
    import fcntl
    os.makedirs(CACHE, exist_ok=True)
    with open(os.path.join(CACHE, "compdb.lock"), "w") as lk:
        fcntl.flock(lk, fcntl.LOCK_EX)
        rc, out, err = _run(cmd, cwd=src)
    db = {}
    for line in out.decode(errors="replace").splitlines():
        if "mode=compile" not in line:
            continue
        toks = line.split()
        tu = None
        flags = []
        it = iter(range(len(toks)))
        for k in it:
            t = toks[k]
            if t.endswith(".c") and not t.startswith("-"):
                tu = t
            elif t.startswith(("-D", "-U", "-I", "-std=")):
                if t in ("-D", "-U", "-I") and k + 1 < len(toks):
                    flags.append(t + toks[k + 1])
                else:
                    flags.append(t)
        if tu:
            seen = []
            for f in flags:
                if f not in seen:
                    seen.append(f)
            db[tu] = seen
    if len(db) < MIN_TUS:
        raise AnalysisBroken("compile database has %d TUs (< %d): make -n failed? %s" % (len(db), MIN_TUS, err.decode()[-300:]))
    return sorted(db.items())


def _headers_digest(repo):
    h = hashlib.sha256()
    roots = [os.path.join(repo, "src"), os.path.join(repo, "include")]
    files = [os.path.join(repo, "config.h")]
    for r in roots:
        for dp, dn, fn in os.walk(r):
            dn[:] = [d for d in dn if d not in (".libs", ".deps")]
            for f in fn:
                if f.endswith(".h"):
                    files.append(os.path.join(dp, f))
    for f in sorted(files):
        try:
            with open(f, "rb") as fh:
                h.update(f.encode()); h.update(b"\0"); h.update(fh.read())
        except OSError:
            pass
    return h.hexdigest()


def _tool_digest():
    h = hashlib.sha256()
    with open(IRDUMP, "rb") as fh:
        h.update(fh.read())
    h.update(OPT_PASSES.encode())
    return h.hexdigest()


def _one(args):
    tu, flags, repo, key, optlevel, incdir = args
    out = os.path.join(CACHE, key + ".json")
    if os.path.exists(out):
        os.utime(out, None)
        return tu, out, True, ""
    src = os.path.join(repo, "src")
    fl = list(flags)
    if incdir:
        fl = [("-I" + incdir) if f in ("-I../include",) else f for f in fl]
    tmp = tempfile.mkdtemp(prefix="tu.", dir=CACHE)
    try:
        bc = os.path.join(tmp, "a.bc"); ssa = os.path.join(tmp, "b.bc")
        if optlevel in ("O0", "O0raw"):
            cmd = ["clang-14", "-O0", "-g", "-Xclang", "-disable-O0-optnone", "-fno-discard-value-names",
                   "-emit-llvm", "-c", "-w"] + fl + [tu, "-o", bc]
        else:
            cmd = ["clang-14", "-" + optlevel, "-g", "-fno-discard-value-names", "-emit-llvm", "-c", "-w"] + fl + [tu, "-o", bc]
        rc, o, e = _run(cmd, cwd=src)
        if rc != 0:
            return tu, None, False, "clang: " + e.decode(errors="replace")[-600:]
        if optlevel in ("O0", "O0raw"):
            # 'O0raw': SSA construction only -- no simplification may use a dereference to delete a later null test (null_order_rule of C05)
            rc, o, e = _run(["opt-14", "-passes=" + (OPT_PASSES if optlevel == "O0" else "mem2reg"), bc, "-o", ssa])
            if rc != 0:
                return tu, None, False, "opt: " + e.decode(errors="replace")[-600:]
        else:
            ssa = bc
        rc, o, e = _run([IRDUMP, ssa])
        if rc != 0:
            return tu, None, False, "irdump: " + e.decode(errors="replace")[-600:]
        with open(out + ".tmp%d" % os.getpid(), "wb") as fh:
            fh.write(o)
        os.replace(out + ".tmp%d" % os.getpid(), out)
        return tu, out, False, ""
    finally:
        shutil.rmtree(tmp, ignore_errors=True)


def _prune_cache(keep_mb=400):
    ents = []
    for f in os.listdir(CACHE):
        p = os.path.join(CACHE, f)
        if f.endswith(".json") and os.path.isfile(p):
            st = os.stat(p)
            ents.append((st.st_mtime, st.st_size, p))
        elif f.startswith(("tu.", "inc.")) and os.path.isdir(p) and time.time() - os.stat(p).st_mtime > 3600:
            shutil.rmtree(p, ignore_errors=True)
    tot = sum(s for _, s, _ in ents)
    for m, s, p in sorted(ents):
        if tot <= keep_mb * 1e6:
            break
        try:
            os.unlink(p)
        except OSError:
            pass
        tot -= s


def load_modules(config="default", optlevel="O0", only=None, repo=None):
    """Return (modules, info).  config: 'default' | 'noslack'.  only: iterable of TU substrings (for -O2 variants)."""
    repo = repo or REPO
    ensure_tools()
    os.makedirs(CACHE, exist_ok=True)
    t0 = time.time()
    db = compile_db(repo)
    if only:
        db = [(tu, fl) for tu, fl in db if any(o in tu for o in only)]
    hd = _headers_digest(repo)
    td = _tool_digest()
    incdir = None
    if config == "noslack":
        incdir = tempfile.mkdtemp(prefix="inc.", dir=CACHE)
        for f in os.listdir(os.path.join(repo, "include")):
            if f.endswith(".h"):
                shutil.copy(os.path.join(repo, "include", f), os.path.join(incdir, f))
        p = os.path.join(incdir, "safe_config.h")
        os.chmod(p, 0o644)
        s = open(p).read()
        s2 = re.sub(r"(?m)^\s*#\s*define\s+SAFECLIB_STR_NULL_SLACK\b.*$", "/* verif: no-slack configuration */", s)
        if s2 == s:
            shutil.rmtree(incdir, ignore_errors=True)
            raise AnalysisBroken("SAFECLIB_STR_NULL_SLACK is not defined in include/safe_config.h: no-slack variant cannot be derived")
        open(p, "w").write(s2)
    try:
        jobs = []
        for tu, fl in db:
            h = hashlib.sha256()
            with open(os.path.join(repo, "src", tu), "rb") as fh:
                h.update(fh.read())
            h.update(("|".join(fl) + "|" + hd + "|" + td + "|" + config + "|" + optlevel + "|" + tu).encode())
            jobs.append((tu, fl, repo, h.hexdigest()[:40], optlevel, incdir))
        with ThreadPoolExecutor(max_workers=min(16, os.cpu_count() or 4)) as ex:
            results = list(ex.map(_one, jobs))
    finally:
        if incdir:
            shutil.rmtree(incdir, ignore_errors=True)
    bad = [(tu, msg) for tu, p, hit, msg in results if p is None]
    if bad:
        raise AnalysisBroken("front end failed on %d TU(s): %s: %s" % (len(bad), bad[0][0], bad[0][1]))
    mods = []
    for tu, p, hit, msg in results:
        with open(p) as fh:
            m = json.load(fh)
        m["tu"] = "src/" + tu
        mods.append(m)
    _prune_cache()
    info = dict(tus=len(mods), cache_hits=sum(1 for r in results if r[2]), config=config, optlevel=optlevel,
                frontend_s=round(time.time() - t0, 2))
    return mods, info


def load_sources(paths, flags=(), optlevel="O0", cwd=None):
    """Compile stand-alone C files (fixtures) through the same pipeline; returns modules."""
    ensure_tools()
    os.makedirs(CACHE, exist_ok=True)
    td = _tool_digest()
    jobs = []
    for p in paths:
        h = hashlib.sha256()
        with open(p, "rb") as fh:
            h.update(fh.read())
        h.update(("|".join(flags) + "|" + td + "|fixture|" + optlevel + "|" + p).encode())
        jobs.append((os.path.abspath(p), list(flags), VERIF, "fx" + h.hexdigest()[:38], optlevel, None))
    results = []
    for j in jobs:
        tu, fl, _, key, ol, _ = j
        results.append(_one_abs(tu, fl, key, ol))
    mods = []
    for tu, p, msg in results:
        if p is None:
            raise AnalysisBroken("fixture %s does not compile: %s" % (tu, msg))
        with open(p) as fh:
            m = json.load(fh)
        m["tu"] = os.path.relpath(tu, VERIF)
        mods.append(m)
    return mods


def _one_abs(tu, flags, key, optlevel):
    out = os.path.join(CACHE, key + ".json")
    if os.path.exists(out):
        os.utime(out, None)
        return tu, out, ""
    tmp = tempfile.mkdtemp(prefix="tu.", dir=CACHE)
    try:
        bc = os.path.join(tmp, "a.bc"); ssa = os.path.join(tmp, "b.bc")
        if optlevel in ("O0", "O0raw"):
            cmd = ["clang-14", "-O0", "-g", "-Xclang", "-disable-O0-optnone", "-fno-discard-value-names", "-emit-llvm", "-c", "-w"] + flags + [tu, "-o", bc]
        else:
            cmd = ["clang-14", "-" + optlevel, "-g", "-fno-discard-value-names", "-emit-llvm", "-c", "-w"] + flags + [tu, "-o", bc]
        rc, o, e = _run(cmd)
        if rc != 0:
            return tu, None, e.decode(errors="replace")[-600:]
        if optlevel in ("O0", "O0raw"):
            rc, o, e = _run(["opt-14", "-passes=" + (OPT_PASSES if optlevel == "O0" else "mem2reg"), bc, "-o", ssa])
            if rc != 0:
                return tu, None, e.decode(errors="replace")[-600:]
        else:
            ssa = bc
        rc, o, e = _run([IRDUMP, ssa])
        if rc != 0:
            return tu, None, e.decode(errors="replace")[-600:]
        with open(out + ".tmp%d" % os.getpid(), "wb") as fh:
            fh.write(o)
        os.replace(out + ".tmp%d" % os.getpid(), out)
        return tu, out, ""
    finally:
        shutil.rmtree(tmp, ignore_errors=True)
