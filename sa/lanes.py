"""Byte-lane abstract domain for the fill primitives: which byte of the fill value does each byte of a stored word hold?

A value of w bytes is a tuple of w lanes (little endian, lane 0 = least significant byte); a lane is
   0            the constant zero byte,
   ("V", k)     byte k of the function's value parameter,
   ("S", k)     the sign fill (0x00 or 0xFF) of byte k of the value parameter,
   None         anything else.
Transfer functions exist only for what a byte spread is made of (zext, sext, trunc, shl/lshr by whole bytes, or, and with a
byte mask, phi, constants); every other instruction yields unknown lanes.  A phi merges lane-wise; where one incoming edge is
taken only if the value parameter is zero (icmp eq/ne value, 0), zero lanes coming over that edge count as ("V", k) for every k
(the byte *is* zero there).  Nothing is executed: the result is a per-SSA-value table."""


def _unknown(w):
    return (None,) * w


def width(ty):
    if ty.startswith("i") and ty[1:].isdigit():
        b = int(ty[1:])
        return b // 8 if b % 8 == 0 and b >= 8 else None
    return None


def lanes_of(fn, value_param):
    """{ssa id: lane tuple} for fn, with the bytes of parameter value_param as the symbols"""
    vp = fn.params[value_param]
    vw = width(vp["ty"])
    env = {value_param: tuple(("V", k) for k in range(vw))}
    zero_edges = set()      # (pred block, succ block) taken only when the value parameter is 0
    for b in fn.j["blocks"]:
        t = b["insts"][-1]
        if t["op"] == "br" and "cond" in t and t["cond"].get("k") == "v":
            c = fn.defs.get(t["cond"]["id"])
            if c is not None and c["op"] == "icmp" and c["pred"] in ("eq", "ne"):
                a, z = c["ops"]
                if a.get("k") == "c":
                    a, z = z, a
                if z.get("k") == "c" and z.get("v") == 0 and a.get("k") == "v" and a["id"] == value_param:
                    zero_edges.add((b["id"], t["t"] if c["pred"] == "eq" else t["f"]))

    def val(o, w):
        if o.get("k") == "c":
            v = o["v"] & ((1 << (8 * w)) - 1)
            return tuple(0 if ((v >> (8 * k)) & 0xFF) == 0 else None for k in range(w))
        if o.get("k") == "v":
            return env.get(o["id"], _unknown(w))
        return _unknown(w)

    changed = True
    rounds = 0
    while changed and rounds < 8:
        changed = False
        rounds += 1
        for b in fn.j["blocks"]:
            for i in b["insts"]:
                if "id" not in i:
                    continue
                w = width(i.get("ty", ""))
                if w is None:
                    continue
                op = i["op"]
                r = _unknown(w)
                if op in ("zext", "sext", "trunc"):
                    sw = width(i["ops"][0].get("ty", "")) or (width(fn.defs[i["ops"][0]["id"]]["ty"]) if i["ops"][0].get("k") == "v" and i["ops"][0]["id"] in fn.defs else None)
                    if sw is None and i["ops"][0].get("k") == "v" and i["ops"][0]["id"] in fn.params:
                        sw = width(fn.params[i["ops"][0]["id"]]["ty"])
                    if sw is not None:
                        s = val(i["ops"][0], sw)
                        if op == "trunc":
                            r = s[:w]
                        elif op == "zext":
                            r = s + (0,) * (w - sw)
                        else:
                            top = s[-1]
                            fill = 0 if top == 0 else ("S", top[1]) if isinstance(top, tuple) and top[0] in ("V", "S") else None
                            r = s + (fill,) * (w - sw)
                elif op in ("shl", "lshr") and i["ops"][1].get("k") == "c" and i["ops"][1]["v"] % 8 == 0:
                    n = i["ops"][1]["v"] // 8
                    s = val(i["ops"][0], w)
                    if op == "shl":
                        r = ((0,) * n + s)[:w]
                    else:
                        r = (s + (0,) * n)[n:n + w]
                elif op == "or":
                    a, c = val(i["ops"][0], w), val(i["ops"][1], w)
                    r = tuple(y if x == 0 else x if y == 0 else x if x == y and x is not None else None for x, y in zip(a, c))
                elif op == "and" and i["ops"][1].get("k") == "c":
                    a = val(i["ops"][0], w)
                    m = i["ops"][1]["v"]
                    r = tuple(0 if ((m >> (8 * k)) & 0xFF) == 0 else a[k] if ((m >> (8 * k)) & 0xFF) == 0xFF else None for k in range(w))
                elif op == "phi":
                    r = None
                    for inc in i["incoming"]:
                        s = val(inc["v"], w)
                        if inc["v"].get("k") == "v" and inc["v"]["id"] not in env:
                            continue          # not computed yet (back edge): optimistic, refined in the next round
                        if (inc["bb"], b["id"]) in zero_edges:
                            s = tuple("Z" if x == 0 else x for x in s)       # a zero that equals every byte of the value on this edge
                        if r is None:
                            r = s
                        else:
                            r = tuple(y if x == "Z" else x if y == "Z" else x if x == y else None for x, y in zip(r, s))
                    r = _unknown(w) if r is None else tuple(0 if x == "Z" else x for x in r)
                if env.get(i["id"]) != r:
                    env[i["id"]] = r
                    changed = True
    return env


def replicated(l, vw):
    """does the lane tuple hold the value parameter's bytes, repeated?"""
    return all(x == ("V", k % vw) for k, x in enumerate(l))
