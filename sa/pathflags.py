"""pathflags: path-sensitive abstract interpretation of one entry point with bounded inlining of library callees.

State = (symbolic store of the live SSA values, linear path facts, plugin flags).  Loop-header phis are opaque atoms, so
the state space is finite; every other phi takes the value of the incoming edge (path sensitivity).  Branches whose
condition is decided by the facts (Fourier-Motzkin entailment over <= ~12 constraints) are followed on one side only.
A plugin receives *events* (handler invocation, store / memset / memcpy / external write through a pointer with a known
root, allocation, free, opaque call, branch edge) and keeps its own finite flags.
"""
import os
from collections import deque
from fractions import Fraction as Fr
from .lin import Lin, entails, fm_unsat
from .effects import external_effect
from .ir import return_sites

HANDLER_DISPATCH = {"invoke_safe_str_constraint_handler": "str", "invoke_safe_mem_constraint_handler": "mem"}
TWO64 = 1 << 64


class BudgetExceeded(Exception):
    pass


# ----------------------------------------------------------------------------- values
# int:  ("i", Lin)      pointer: ("p", root, Lin byte offset)      bool: ("b", term)
def I(l):
    return ("i", l)


def P(root, off):
    return ("p", root, off)


def B(t):
    return ("b", t)


def T_const(b):
    return ("c", bool(b))


NEG = {"eq": "ne", "ne": "eq", "ugt": "ule", "uge": "ult", "ult": "uge", "ule": "ugt", "sgt": "sle", "sge": "slt", "slt": "sge", "sle": "sgt"}


class Facts:
    """immutable set of linear facts (Lin >= 0), disequalities (Lin != 0) and opaque boolean facts"""
    __slots__ = ("ge", "ne", "cb", "_h")

    def __init__(s, ge=frozenset(), ne=frozenset(), cb=frozenset()):
        s.ge = ge
        s.ne = ne
        s.cb = cb
        s._h = hash((ge, ne, cb))

    def __hash__(s):
        return s._h

    def __eq__(s, o):
        return s.ge == o.ge and s.ne == o.ne and s.cb == o.cb

    def atoms(s):
        a = set()
        for l in s.ge:
            a |= l.atoms()
        for l in s.ne:
            a |= l.atoms()
        return a

    def kill(s, dead):
        """drop every fact mentioning an atom for which dead(atom) is true"""
        ge = frozenset(l for l in s.ge if not any(dead(a) for a in l.t))
        ne = frozenset(l for l in s.ne if not any(dead(a) for a in l.t))
        cb = frozenset((k, v) for (k, v) in s.cb if not dead(k))
        if len(ge) == len(s.ge) and len(ne) == len(s.ne) and len(cb) == len(s.cb):
            return s
        return Facts(ge, ne, cb)


class State:
    __slots__ = ("env", "facts", "epoch", "pl", "_h")

    def __init__(s, env, facts, epoch, pl):
        s.env = env          # dict id -> value   (treated as immutable)
        s.facts = facts
        s.epoch = epoch      # errno epoch
        s.pl = pl
        s._h = None

    def key(s):
        if s._h is None:
            s._h = (frozenset(s.env.items()), s.facts, s.epoch, s.pl)
        return s._h


class Plugin:
    """base plugin: no flags"""
    inline_depth = 3

    def init(s, eng):
        return ()

    def on_event(s, pl, ev, eng, st):
        return pl

    def on_call(s, pl, call, eng, st):
        """opaque (non-inlined) library call or unmodelled external: list of (pl', [assumptions on the result as (term, bool)])"""
        return [(pl, [])]

    def no_inline(s, fn):
        return False


class Engine:
    first_iter = True       # loop-header phis take their initial value on entry from outside the loop (first iteration is path-sensitive)
    K_PHI = 6
    BIG_FN = 150
    MED_FN = 100

    def __init__(s, prog, fn, plugin, budget=150000, noinline=(), precision="high"):
        s.precision = precision
        s.prog = prog
        s.top = fn
        s.plugin = plugin
        s.budget = budget
        s.nstates = 0
        s.noinline = set(noinline)
        s.nonneg = set()
        s.init_assumptions = None
        s.exact_div = False
        s.widened = set()
        s.top_blocks = len(fn.order) if precision == "high" else 10 ** 6     # 'low' behaves like a very large entry point
        s.debug_hook = None
        s.atom_op = {}
        s.phivals = {}
        s.positive_roots = set()
        s.positive = set()      # atoms known >= 1 (addresses of allocas / globals)
        s.nofacts = set()
        s.indirect_results = set()
        s.hdrphi = set()
        s.loopdef = set()       # atoms (prefixed SSA ids) defined inside a loop: facts about them are not kept
        s._live = {}
        s._useful = {}
        s._relevant = {}
        s._loopphi = {}
        s._static_root = {}
        s.results = []          # (ret value, State, path of blocks)
        s.notes = []
        s.unmodelled = set()

    # ------------------------------------------------------------------ static helpers per function
    def live_in(s, fn):
        """classic backward liveness over SSA values; phi operands are live-out of the corresponding predecessor"""
        L = s._live.get(id(fn))
        if L is not None:
            return L
        use = {}
        defs = {}
        phi_use = {b: set() for b in fn.order}     # values needed at the end of b by phis of successors
        for b in fn.order:
            u = set()
            d = set()
            for i in fn.blocks[b]["insts"]:
                if i["op"] == "phi":
                    for inc in i["incoming"]:
                        if inc["v"].get("k") == "v" and inc["bb"] in phi_use:
                            phi_use[inc["bb"]].add(inc["v"]["id"])
                    d.add(i["id"])
                    continue
                from .ir import operands
                for o in operands(i):
                    if o.get("k") == "v" and o["id"] not in d:
                        u.add(o["id"])
                    elif o.get("k") == "ce":
                        pass
                if "id" in i:
                    d.add(i["id"])
            use[b] = u
            defs[b] = d
        live_in = {b: set() for b in fn.order}
        changed = True
        while changed:
            changed = False
            for b in reversed(fn.order):
                out = set(phi_use[b])
                for sc in fn.succ[b]:
                    # live-in of successor minus its phis (phi results are defined at entry of sc)
                    out |= live_in[sc] - {i["id"] for i in fn.blocks[sc]["insts"] if i["op"] == "phi"}
                new = use[b] | (out - defs[b])
                # phi results of b itself are live-in "after phis": keep them out of live_in[b]
                if new != live_in[b]:
                    live_in[b] = new
                    changed = True
        s._live[id(fn)] = live_in
        return live_in

    def worth_facts(s, fn, i):
        """is it worth remembering branch facts about the value defined by i?  Call results, loads and values compared
        in two or more places are; a value that feeds a single comparison is not."""
        if i["op"] in ("call", "invoke", "load", "phi", "alloca", "getelementptr", "bitcast"):
            return True
        cu = getattr(fn, "_cmpuses", None)
        if cu is None:
            cu = {}
            users = fn.users()
            for j in fn.insts():
                if j["op"] in ("icmp", "switch", "select"):
                    ops = j.get("ops", ()) if j["op"] != "switch" else (j["cond"],)
                    w = 1
                    if j["op"] == "icmp":
                        # one comparison consumed by several branches (after CSE) counts once per consumer
                        w = max(1, sum(1 for u in users.get(j["id"], ()) if u["op"] in ("br", "select", "phi", "zext", "and", "or", "xor")))
                    for o in ops:
                        if o.get("k") == "v":
                            cu[o["id"]] = cu.get(o["id"], 0) + w
                elif j["op"] in ("zext", "sext", "trunc", "add", "sub", "mul", "shl", "udiv", "lshr"):
                    pass
            fn._cmpuses = cu
        return cu.get(i["id"], 0) >= 2

    def useful_later(s, fn):
        """per block: SSA ids on which some later decision / call argument / returned or stored value can still depend"""
        U = s._useful.get(id(fn))
        if U is not None:
            return U
        from .ir import operands
        dep = {}
        def deps(v, seen=None):
            r = dep.get(v)
            if r is not None:
                return r
            dep[v] = {v}            # cycle guard
            d = fn.defs.get(v)
            r = {v}
            if d is not None and d["op"] in ("add", "sub", "mul", "shl", "zext", "sext", "trunc", "getelementptr", "bitcast", "phi", "ptrtoint",
                                             "inttoptr", "udiv", "lshr", "and", "or", "xor", "select", "icmp", "freeze"):
                for o in operands(d):
                    if o.get("k") == "v":
                        r |= deps(o["id"])
            dep[v] = r
            return r
        sink = {b: set() for b in fn.order}
        for i in fn.insts():
            op = i["op"]
            ops = ()
            if op in ("icmp", "switch", "select", "ret", "br"):
                ops = [o for o in operands(i)]
            elif op in ("call", "invoke"):
                ops = list(i.get("args", ())) + ([i["callee_v"]] if "callee_v" in i else [])
            elif op == "store":
                ops = list(i["ops"])
            elif op == "load":
                ops = list(i["ops"])
            for o in ops:
                if o.get("k") == "v":
                    sink[i["_bb"]] |= deps(o["id"])
        # fixpoint of deps through cycles (phi webs): iterate closure once more
        U = {b: set(sink[b]) for b in fn.order}
        changed = True
        while changed:
            changed = False
            for b in reversed(fn.order):
                n = len(U[b])
                for sc in fn.succ[b]:
                    U[b] |= U[sc]
                if len(U[b]) != n:
                    changed = True
        s._useful[id(fn)] = U
        return U

    def loop_header_phis(s, fn):
        r = s._loopphi.get(id(fn))
        if r is None:
            r = set()
            for h in fn.loops:
                for i in fn.blocks[h]["insts"]:
                    if i["op"] == "phi":
                        r.add(i["id"])
            s._loopphi[id(fn)] = r
        return r

    def static_root(s, fn, v, seen=None):
        """root parameter/alloca of a pointer value ignoring offsets (for opaque loop phis); None if ambiguous"""
        key = (id(fn), v)
        if key in s._static_root:
            return s._static_root[key]
        seen = seen or set()
        if v in seen:
            return "self"
        seen.add(v)
        d = fn.defs.get(v)
        r = None
        if d is None:
            r = v if v in fn.params else None
        elif d["op"] == "getelementptr":
            b = d["base"]
            r = s.static_root(fn, b["id"], seen) if b.get("k") == "v" else None
        elif d["op"] == "bitcast":
            b = d["ops"][0]
            r = s.static_root(fn, b["id"], seen) if b.get("k") == "v" else None
        elif d["op"] == "phi":
            roots = set()
            for inc in d["incoming"]:
                if inc["v"].get("k") != "v":
                    roots.add(None)
                    continue
                x = s.static_root(fn, inc["v"]["id"], seen)
                if x != "self":
                    roots.add(x)
            r = roots.pop() if len(roots) == 1 else None
        elif d["op"] in ("alloca", "call"):
            r = v
        if r != "self":
            s._static_root[key] = r
        return r

    # ------------------------------------------------------------------ evaluation
    def atom(s, frame, name, nonneg=False):
        a = frame + name
        if nonneg:
            s.nonneg.add(a)
        return a

    def val(s, fr, o, env):
        """symbolic value of operand o in frame fr"""
        k = o.get("k")
        if k == "c":
            if o.get("bits") == 1:
                return B(T_const(o["v"] != 0))
            return I(Lin.const(o["v"]))
        if k == "null":
            return P("null", Lin.const(0))
        if k == "v":
            v = env.get(fr.pre + o["id"])
            if v is not None:
                return v
            # parameter of the top frame / value not in the store: opaque
            return s.opaque(fr, o["id"], o.get("ty", ""))
        if k == "g":
            return P("@%s|%s" % (o["name"], fr.fn.mod["tu"]), Lin.const(0))
        if k == "f":
            return P("@fn:" + o["name"], Lin.const(0))
        if k == "ce":
            if o.get("op") == "getelementptr":
                b = s.val(fr, o["base"], env)
                if b[0] == "p":
                    off = b[2] + Lin.const(o.get("coff", 0))
                    for t in o.get("terms", ()):
                        tv = s.val(fr, t["v"], env)
                        if tv[0] != "i":
                            return P("?ce", Lin.const(0))
                        off = off + tv[1].scale(t["stride"])
                    return P(b[1], off)
            if o.get("op") in ("bitcast", "inttoptr", "ptrtoint") and o.get("ops"):
                return s.val(fr, o["ops"][0], env)
            return P("?ce", Lin.const(0))
        if k == "undef":
            return I(Lin.atom("undef"))
        return I(Lin.atom("?" + str(k)))

    def opaque(s, fr, vid, ty):
        if ty.endswith("*"):
            return P(fr.pre + vid, Lin.const(0))
        if ty == "i1":
            return B(("o", fr.pre + vid))
        return I(Lin.atom(s.atom(fr.pre, vid, nonneg=(ty == "i64" and vid in fr.fn.params))))

    def as_lin(s, v):
        """integer view of a value (pointers become &root + offset)"""
        if v[0] == "i":
            return v[1]
        if v[0] == "p":
            if v[1] == "null":
                return v[2]
            a = "&" + v[1]
            s.nonneg.add(a)
            if v[1].startswith("@") or v[1] in s.positive_roots:
                s.positive.add(a)
            return Lin.atom(a) + v[2]
        if v[0] == "b":
            t = v[1]
            if t[0] == "c":
                return Lin.const(1 if t[1] else 0)
            return None
        return None

    def cond_term(s, v):
        """boolean view"""
        if v[0] in ("b", "zb"):
            return v[1]
        l = s.as_lin(v)
        if l is None:
            return ("o", "?")
        return ("cmp", "ne", l, Lin.const(0))

    # ------------------------------------------------------------------ facts
    def base_facts(s, facts, extra=()):
        f = list(facts.ge) + list(extra)
        atoms = set()
        for l in f:
            atoms |= l.atoms()
        for a in atoms:
            if a in s.positive:
                f.append(Lin.atom(a) - Lin.const(1))
            elif a in s.nonneg:
                f.append(Lin.atom(a))
        return f

    def decide(s, t, facts):
        k = t[0]
        if k == "c":
            return t[1]
        if k == "not":
            r = s.decide(t[1], facts)
            return None if r is None else (not r)
        if k == "and":
            a = s.decide(t[1], facts)
            b = s.decide(t[2], facts)
            if a is False or b is False:
                return False
            if a is True and b is True:
                return True
            return None
        if k == "or":
            a = s.decide(t[1], facts)
            b = s.decide(t[2], facts)
            if a is True or b is True:
                return True
            if a is False and b is False:
                return False
            return None
        if k == "o":
            for (kk, vv) in facts.cb:
                if kk == t[1]:
                    return vv
            return None
        if k == "cmp":
            pred, x, y = t[1], t[2], t[3]
            d = x - y
            if d.is_const():
                c = d.c
                return {"eq": c == 0, "ne": c != 0, "gt": c > 0, "ge": c >= 0, "lt": c < 0, "le": c <= 0}[_plain(pred)]
            pp = _plain(pred)
            bf = s.base_facts(facts, [])
            for a in d.atoms():
                if a in s.positive:
                    bf.append(Lin.atom(a) - Lin.const(1))
                elif a in s.nonneg:
                    bf.append(Lin.atom(a))
            if pp in ("eq", "ne"):
                if _prim(d) in facts.ne:
                    return pp == "ne"
                if entails(bf, d - Lin.const(1)) or entails(bf, (-d) - Lin.const(1)):
                    return pp == "ne"
                if entails(bf, d) and entails(bf, -d):
                    return pp == "eq"
                return None
            if pp == "gt":
                if entails(bf, d - Lin.const(1)):
                    return True
                if entails(bf, -d):
                    return False
            elif pp == "ge":
                if entails(bf, d):
                    return True
                if entails(bf, (-d) - Lin.const(1)):
                    return False
            elif pp == "lt":
                if entails(bf, (-d) - Lin.const(1)):
                    return True
                if entails(bf, d):
                    return False
            elif pp == "le":
                if entails(bf, -d):
                    return True
                if entails(bf, d - Lin.const(1)):
                    return False
            return None
        return None

    def assume(s, t, val, facts):
        """facts extended with t == val, or None if that is contradictory"""
        d = s.decide(t, facts)
        if d is not None:
            return facts if d == val else None
        k = t[0]
        if k == "not":
            return s.assume(t[1], not val, facts)
        if k == "and":
            if val:
                f = s.assume(t[1], True, facts)
                return None if f is None else s.assume(t[2], True, f)
            a = s.decide(t[1], facts)
            b = s.decide(t[2], facts)
            if a is True:
                return s.assume(t[2], False, facts)
            if b is True:
                return s.assume(t[1], False, facts)
            return facts
        if k == "or":
            if not val:
                f = s.assume(t[1], False, facts)
                return None if f is None else s.assume(t[2], False, f)
            a = s.decide(t[1], facts)
            b = s.decide(t[2], facts)
            if a is False:
                return s.assume(t[2], True, facts)
            if b is False:
                return s.assume(t[1], True, facts)
            return facts
        if k == "o":
            if t[1] in s.loopdef:
                return facts
            return Facts(facts.ge, facts.ne, facts.cb | {(t[1], val)})
        if k == "cmp":
            pred, x, y = t[1], t[2], t[3]
            pp = _plain(pred if val else NEG[pred])
            d = x - y
            pinned = getattr(s.plugin, "pinned", ())
            if any(a not in pinned and ((_core(a) in s.loopdef and (s.precision != "high" or _core(a) not in s.hdrphi)) or _core(a) in s.nofacts) for a in d.t):
                return facts          # facts about loop-header phis are kept for the current iteration (killed on re-entry); other loop-variant data is not tracked
            new = []
            ne = facts.ne
            if pp == "gt":
                new = [d - Lin.const(1)]
            elif pp == "ge":
                new = [d]
            elif pp == "lt":
                new = [(-d) - Lin.const(1)]
            elif pp == "le":
                new = [-d]
            elif pp == "eq":
                new = [d, -d]
            elif pp == "ne":
                bf = s.base_facts(facts)
                for a in d.atoms():
                    if a in s.positive:
                        bf.append(Lin.atom(a) - Lin.const(1))
                    elif a in s.nonneg:
                        bf.append(Lin.atom(a))
                if entails(bf, d):
                    new = [d - Lin.const(1)]
                elif entails(bf, -d):
                    new = [(-d) - Lin.const(1)]
                else:
                    ne = ne | {_prim(d)}
            ge = facts.ge | frozenset(new)
            if new and fm_unsat(s.base_facts(Facts(ge, ne, facts.cb))):
                return None
            return Facts(ge, ne, facts.cb)
        return facts

    # ------------------------------------------------------------------ exploration
    def run(s):
        s.plugin.prog = s.prog
        fn = s.top
        fr = Frame(fn, "", 0, None)
        env = {}
        for p in fn.j["params"]:
            env[p["id"]] = s.opaque(fr, p["id"], p["ty"])
        f0 = Facts()
        for (t_, v_) in (s.init_assumptions or ()):
            f0 = s.assume(t_, v_, f0)
            if f0 is None:
                s.results = []
                return s.results          # the assumed situation is contradictory
        st0 = State(env, f0, 0, s.plugin.init(s))
        for (rv, st, path) in s.explore(fr, st0, top=True):
            s.results.append((rv, st, path))
        return s.results

    def explore(s, fr, st0, top=False):
        """worklist over the CFG of fr.fn from its entry; returns [(return value or None, State, path)]"""
        fn = fr.fn
        live = s.live_in(fn)
        lphis = s.loop_header_phis(fn)
        out = []
        seen = set()
        seen_out = set()
        seen_post = set()
        parent = {}
        q = deque()
        k0 = (fn.entry, None, st0.key())
        seen.add(k0)
        q.append((fn.entry, None, st0, k0))
        parent[k0] = None
        while q:
            bb, pred, st, key = q.popleft()
            s.nstates += 1
            if s.nstates > s.budget:
                raise BudgetExceeded("%s: more than %d path states" % (s.top.name, s.budget))
            for (succ, st2, rv, is_ret) in s.exec_block(fr, bb, pred, st, lphis, seen_post):
                if is_ret:
                    ok_ = (rv, st2.key())
                    if ok_ in seen_out:
                        continue
                    seen_out.add(ok_)
                    path = None
                    if top:
                        path = []
                        kk = key
                        while kk is not None:
                            path.append(kk[0])
                            kk = parent[kk]
                        path.reverse()
                    out.append((rv, st2, path))
                    continue
                # restrict the store to values live into succ (plus its own phis, bound on entry)
                lv = live[succ] | fn_phi_uses(fn, succ, bb)
                pre = fr.pre
                env = st2.env
                keep = {}
                for v, x in env.items():
                    if v.startswith(pre) and "/" not in v[len(pre):]:
                        if v[len(pre):] in lv or v[len(pre):] in fn.params:
                            keep[v] = x
                    else:
                        keep[v] = x      # values of outer frames
                st3 = State(keep, st2.facts, st2.epoch, st2.pl)
                k = (succ, bb, st3.key())
                if k in seen:
                    continue
                seen.add(k)
                parent[k] = key
                q.append((succ, bb, st3, k))
        return out

    def exec_block(s, fr, bb, pred, st, lphis, seen_post=None):
        """execute block bb entered from pred; yields (successor, state, retval, is_ret)"""
        fn = fr.fn
        blk = fn.blocks[bb]
        env = dict(st.env)
        pre = fr.pre
        # kill facts about values (re)defined in this block
        defined = set()
        inloop = "loop" in blk
        for i in blk["insts"]:
            if "id" in i:
                defined.add(pre + i["id"])
                s.atom_op[pre + i["id"]] = i["op"]
                if inloop:
                    s.loopdef.add(pre + i["id"])
                    if i["op"] not in ("call", "invoke", "load", "phi") and s.worth_facts(fn, i):
                        s.hdrphi.add(pre + i["id"])      # a loop-variant value tested in several places: correlated branches must agree within one iteration
                elif not s.worth_facts(fn, i):
                    s.nofacts.add(pre + i["id"])       # tested at most once: a fact about it can never decide a later branch
        def dead(a):
            return _core(a) in defined
        facts = st.facts.kill(dead) if (st.facts.ge or st.facts.ne or st.facts.cb) else st.facts
        # phis, simultaneously
        newv = {}
        carried = []
        renames = []          # pointer values that a merge phi re-expressed in its own offset atom (the plugin may hold the old form)
        for i in blk["insts"]:
            if i["op"] != "phi":
                break
            vid = pre + i["id"]
            if i["id"] in lphis and not (s.first_iter and pred is not None and pred not in fn.loops[bb]["_set"] and s.top_blocks <= s.MED_FN):
                s.hdrphi.add(vid)
                ty = i["ty"]
                if ty.endswith("*"):
                    r = s.static_root(fn, i["id"])
                    if r is not None and r != "self":
                        base = env.get(pre + r)
                        if base is None and r in fn.params:
                            base = s.opaque(fr, r, "i8*")
                        if base is not None and base[0] == "p":
                            newv[vid] = P(base[1], base[2] + Lin.atom("off:" + vid) if True else None)
                        else:
                            newv[vid] = P(vid, Lin.const(0))
                    else:
                        newv[vid] = P(vid, Lin.const(0))
                elif ty == "i1":
                    newv[vid] = B(("o", vid))
                else:
                    newv[vid] = I(Lin.atom(vid))
                    # carry a lower bound of the counter across the edge: if the incoming value is known >= 1 (>= 0) on this path,
                    # so is the new instance of the phi (decided with the facts about the old instance, before they are killed)
                    inc_ = [x for x in i["incoming"] if x["bb"] == pred] if s.precision == "high" else []
                    if inc_:
                        xv = s.val(fr, inc_[0]["v"], st.env)
                        if xv[0] == "i":
                            bf = s.base_facts(st.facts)
                            for a_ in xv[1].t:
                                if a_ in s.positive:
                                    bf.append(Lin.atom(a_) - Lin.const(1))
                                elif a_ in s.nonneg:
                                    bf.append(Lin.atom(a_))
                            # candidates: 1, 0 and -- for a variable that starts at a constant c0 (a capacity that only grows) -- c0 + 1 and c0
                            cands = [1, 0]
                            for x_ in i["incoming"]:
                                if x_["bb"] not in fn.loops[bb]["_set"] and x_["v"].get("k") == "c" and 1 < x_["v"]["v"] < (1 << 31):
                                    cands = [x_["v"]["v"] + 1, x_["v"]["v"]] + cands
                            for c_ in cands:
                                if entails(bf, xv[1] - Lin.const(c_)):
                                    carried.append(Lin.atom(vid) - Lin.const(c_))
                                    break
                continue
            inc = [x for x in i["incoming"] if x["bb"] == pred]
            if not inc or vid in s.widened:
                newv[vid] = s.opaque(fr, i["id"], i["ty"])
            else:
                raw = s.val(fr, inc[0]["v"], env)
                if blk["insts"][-1]["op"] == "ret" and fr.depth == 0 and i["ty"].endswith("*"):
                    x = raw       # the pointer returned by the entry point: nothing merges behind it, keep the path's own value
                else:
                    x = s.stabilise(fr, i, raw, facts)
                    if x is not raw and x != raw and raw[0] == "p" and i["id"] not in lphis:
                        renames.append((raw, x))      # (not for loop-header phis: their atom is reused by the next iteration)
                    if x is not raw and x != raw and raw[0] == "i" and x[0] == "i" and s.precision == "high" and len(raw[1].t) > 1:
                        # a count computed from several path values (dmax - i) collapsed into the phi's own atom: keep what the path
                        # knows about its lower bound, as for loop-carried counters (>= 1 decides whether a clearing loop runs at all)
                        bf_ = s.base_facts(st.facts)
                        for c_ in (1, 0):
                            if entails(bf_, raw[1] - Lin.const(c_)):
                                carried.append(x[1] - Lin.const(c_))
                                break
                if blk["insts"][-1]["op"] != "ret" and not (x[0] == "i" and x[1].is_const() and i["id"] in s.relevant_ids(fn)):
                    vs = s.phivals.setdefault(vid, set())
                    vs.add(x)
                    if len(vs) > s.K_PHI:
                        # too many distinct path-sensitive values for one merge phi: from now on it is an opaque value (sound widening)
                        s.widened.add(vid)
                        s.loopdef.add(vid)
                        x = s.opaque(fr, i["id"], i["ty"])
                newv[vid] = x
        env.update(newv)
        if carried:
            facts = Facts(facts.ge | frozenset(carried), facts.ne, facts.cb)
        # values that were only needed to bind the phis on this edge are dead now
        lv = s.live_in(fn)[bb]
        npre = len(pre)
        for k in [k for k in env if k.startswith(pre) and "/" not in k[npre:] and k not in newv
                  and k[npre:] not in lv and k[npre:] not in fn.params]:
            del env[k]
        if facts.ge or facts.ne or facts.cb:
            useful = s.live_in(fn)[bb] | fn_phi_defs(fn, bb)
            referenced = set()          # atoms that live values are expressed in
            for k_, v_ in env.items():
                if v_[0] == "i":
                    referenced.update(v_[1].t)
                elif v_[0] == "p":
                    referenced.update(v_[2].t)
                    referenced.add("&" + v_[1])
                elif v_[0] in ("b", "zb") and v_[1][0] == "cmp":
                    referenced.update(v_[1][2].t); referenced.update(v_[1][3].t)
            pinned = getattr(s.plugin, "pinned", ())
            npre = len(pre)
            def atom_useful(a):
                c = _core(a)
                if c.startswith("errno#") or a in pinned or a in referenced:
                    return True
                if c.startswith(pre):
                    rest = c[npre:]
                    if "/" in rest:
                        return False            # leftover of a deeper frame
                    return rest in useful
                return True                     # atom of an outer frame: still needed after the return
            items = [(l, set(l.t)) for l in facts.ge] + [(l, set(l.t)) for l in facts.ne]
            live_atoms = set()
            for l, at in items:
                for a in at:
                    if atom_useful(a):
                        live_atoms.add(a)
            # facts chained to a useful atom through shared atoms stay (dmax <= 4096 matters while destbos < dmax does)
            changed = True
            keep = [False] * len(items)
            while changed:
                changed = False
                for k, (l, at) in enumerate(items):
                    if not keep[k] and at & live_atoms:
                        keep[k] = True
                        if not at <= live_atoms:
                            live_atoms |= at
                            changed = True
            if not all(keep) or any(not atom_useful(kv[0]) for kv in facts.cb):
                ng = len(facts.ge)
                ge = frozenset(l for k, (l, at) in enumerate(items[:ng]) if keep[k])
                ne = frozenset(l for k, (l, at) in enumerate(items[ng:]) if keep[ng + k])
                cb = frozenset(kv for kv in facts.cb if atom_useful(kv[0]))
                facts = Facts(ge, ne, cb)
        if renames and getattr(s.plugin, "on_rename", None) is not None:
            pl_ = st.pl
            for (old_, new_) in renames:
                pl_ = s.plugin.on_rename(pl_, old_, new_)
            if pl_ is not st.pl:
                st = State(st.env, st.facts, st.epoch, pl_)
        if seen_post is not None:
            kpost = (bb, frozenset(env.items()), facts, st.epoch, st.pl)
            if kpost in seen_post:
                return
            seen_post.add(kpost)
            if s.debug_hook is not None:
                s.debug_hook(fr.pre, bb, env, facts, st.pl)
        states = [(env, facts, st.epoch, st.pl)]
        for i in blk["insts"]:
            op = i["op"]
            if op == "phi":
                continue
            if op in ("br", "switch", "ret", "unreachable"):
                break
            nxt = []
            for (env, facts, epoch, pl) in states:
                for x in s.exec_inst(fr, i, env, facts, epoch, pl):
                    if x[3] != "DROP":           # a plugin may declare a path outside its assumptions
                        nxt.append(x)
            states = nxt
            if not states:
                return
        t = blk["insts"][-1]
        for (env, facts, epoch, pl) in states:
            if t["op"] == "ret":
                rv = s.val(fr, t["ops"][0], env) if t.get("ops") else None
                yield (None, State(env, facts, epoch, pl), rv, True)
            elif t["op"] == "unreachable":
                continue
            elif t["op"] == "br":
                if "cond" not in t:
                    yield (t["t"], State(env, facts, epoch, pl), None, False)
                    continue
                ct = s.cond_term(s.val(fr, t["cond"], env))
                for (succ, val) in ((t["t"], True), (t["f"], False)):
                    f2 = s.assume(ct, val, facts)
                    if f2 is None:
                        continue
                    pl2 = s.plugin.on_event(pl, ("edge", ct, val, t, fr), s, (env, f2, epoch))
                    if pl2 != "DROP":
                        yield (succ, State(env, f2, epoch, pl2), None, False)
            elif t["op"] == "switch":
                cv = s.val(fr, t["cond"], env)
                l = s.as_lin(cv)
                targets = {}
                for c in t["cases"]:
                    targets.setdefault(c["bb"], []).append(c["v"])
                for succ, vals in targets.items():
                    if l is None:
                        yield (succ, State(env, facts, epoch, pl), None, False)
                        continue
                    if len(vals) == 1:
                        f2 = s.assume(("cmp", "eq", l, Lin.const(vals[0])), True, facts)
                        if f2 is not None:
                            yield (succ, State(env, f2, epoch, pl), None, False)
                    else:
                        if any(s.decide(("cmp", "eq", l, Lin.const(v)), facts) is not False for v in vals):
                            yield (succ, State(env, facts, epoch, pl), None, False)
                # default
                f2 = facts
                if l is not None:
                    for c in t["cases"]:
                        if f2 is None:
                            break
                        f2 = s.assume(("cmp", "ne", l, Lin.const(c["v"])), True, f2)
                if f2 is not None:
                    yield (t["default"], State(env, f2, epoch, pl), None, False)

    # ------------------------------------------------------------------ instructions
    def exec_inst(s, fr, i, env, facts, epoch, pl):
        """returns list of (env, facts, epoch, pl) after instruction i"""
        op = i["op"]
        pre = fr.pre
        vid = pre + i["id"] if "id" in i else None
        ty = i.get("ty", "")

        def setv(v):
            env[vid] = v            # the block owns this dict: straight-line code updates it in place
            return [(env, facts, epoch, pl)]

        if op in ("add", "sub"):
            a = s.as_lin(s.val(fr, i["ops"][0], env))
            b = s.as_lin(s.val(fr, i["ops"][1], env))
            if a is None or b is None:
                return setv(s.opaque(fr, i["id"], ty))
            return setv(I(a + b if op == "add" else a - b))
        if op == "mul":
            a = s.as_lin(s.val(fr, i["ops"][0], env))
            b = s.as_lin(s.val(fr, i["ops"][1], env))
            if a is not None and b is not None:
                if a.is_const():
                    return setv(I(b.scale(a.c)))
                if b.is_const():
                    return setv(I(a.scale(b.c)))
            return setv(s.opaque(fr, i["id"], ty))
        if op == "shl":
            a = s.as_lin(s.val(fr, i["ops"][0], env))
            b = s.as_lin(s.val(fr, i["ops"][1], env))
            if a is not None and b is not None and b.is_const() and 0 <= b.c < 40:
                return setv(I(a.scale(2 ** int(b.c))))
            return setv(s.opaque(fr, i["id"], ty))
        if op in ("udiv", "lshr"):
            a = s.as_lin(s.val(fr, i["ops"][0], env))
            b = s.as_lin(s.val(fr, i["ops"][1], env))
            if a is not None and b is not None and b.is_const() and b.c > 0:
                k = b.c if op == "udiv" else 2 ** int(b.c)
                if a.is_const():
                    return setv(I(Lin.const(int(a.c) // int(k))))
                # opaque quotient tied to the dividend by k*q <= a < k*q + k
                q = Lin.atom(vid)
                s.nonneg.add(vid)
                if vid in s.loopdef or any(_core(x) in s.loopdef for x in a.t):
                    return setv(I(q))
                if s.exact_div:
                    ge = facts.ge | {a - q.scale(k), q.scale(k) - a}      # stated assumption: the dividend is a multiple of the divisor
                else:
                    ge = facts.ge | {a - q.scale(k), q.scale(k) + Lin.const(k - 1) - a}
                e2 = dict(env)
                e2[vid] = I(q)
                return [(e2, Facts(ge, facts.ne, facts.cb), epoch, pl)]
            return setv(s.opaque(fr, i["id"], ty))
        if op in ("zext", "sext", "trunc"):
            v = s.val(fr, i["ops"][0], env)
            if v[0] == "b":
                if ty == "i1":
                    return setv(v)
                t = v[1]
                if t[0] == "c":
                    return setv(I(Lin.const(1 if t[1] else 0)))
                # remember the boolean behind the integer
                e2 = dict(env)
                e2[vid] = ("zb", t)
                return [(e2, facts, epoch, pl)]
            if v[0] == "zb":
                return setv(v)
            if v[0] == "i":
                if op == "trunc" and ty == "i1":
                    return setv(B(("cmp", "ne", v[1], Lin.const(0))))
                return setv(v)
            return setv(v)
        if op in ("bitcast", "addrspacecast", "freeze"):
            return setv(s.val(fr, i["ops"][0], env))
        if op == "ptrtoint":
            v = s.val(fr, i["ops"][0], env)
            l = s.as_lin(v)
            return setv(I(l) if l is not None else s.opaque(fr, i["id"], ty))
        if op == "inttoptr":
            return setv(P(vid, Lin.const(0)))
        if op == "getelementptr":
            b = s.val(fr, i["base"], env)
            if b[0] != "p":
                return setv(P(vid, Lin.const(0)))
            off = b[2] + Lin.const(i.get("coff", 0))
            for t in i.get("terms", ()):
                tv = s.val(fr, t["v"], env)
                l = s.as_lin(tv)
                if l is None:
                    return setv(P(vid, Lin.const(0)))
                off = off + l.scale(t["stride"])
            return setv(P(b[1], off))
        if op == "icmp":
            a = s.val(fr, i["ops"][0], env)
            b = s.val(fr, i["ops"][1], env)
            pred = i["pred"]
            # (zext i1 x) != 0  and friends
            for (x, y) in ((a, b), (b, a)):
                if x[0] in ("zb", "b") and y[0] == "i" and y[1].is_const() and pred in ("eq", "ne"):
                    t = x[1]
                    c = y[1].c
                    if c == 0:
                        return setv(B(t if pred == "ne" else ("not", t)))
                    if c == 1:
                        return setv(B(t if pred == "eq" else ("not", t)))
            if a[0] == "p" and b[0] == "p" and pred in ("eq", "ne") and a[1] != b[1]:
                # a local object of a live activation and an object that existed before it (parameter root, global) are distinct
                ra, rb = a[1], b[1]
                if (ra in s.positive_roots and s.older_root(rb, ra)) or (rb in s.positive_roots and s.older_root(ra, rb)):
                    return setv(B(T_const(pred == "ne")))
            la, lb = s.as_lin(a), s.as_lin(b)
            if la is None or lb is None:
                return setv(B(("o", vid)))
            bits = i["ops"][0].get("bits") or i["ops"][1].get("bits") or 64
            if pred in ("eq", "ne") and int(bits) < 64 and (la.is_const() and la.c < 0) != (lb.is_const() and lb.c < 0):
                # `x == -1` on a narrow integer: the value model is the mathematical integers, and a 32-bit quantity is carried either as
                # the signed value (an int result: -1) or as the unsigned one (a uint32_t: 0xFFFFFFFF) depending on where it came from --
                # the comparison holds for both readings, so it is the disjunction (conjunction for `!=`) of the two
                if la.is_const():
                    la, lb = lb, la
                alt = Lin.const(lb.c + (1 << int(bits)))
                if pred == "eq":
                    return setv(B(("or", ("cmp", "eq", la, lb), ("cmp", "eq", la, alt))))
                return setv(B(("and", ("cmp", "ne", la, lb), ("cmp", "ne", la, alt))))
            if pred in ("eq", "ne") or pred.startswith("u"):
                if la.is_const() and la.c < 0:
                    la = Lin.const(la.c + (1 << int(_bits_of(i, 0))))
                if lb.is_const() and lb.c < 0:
                    lb = Lin.const(lb.c + (1 << int(_bits_of(i, 1))))
            return setv(B(("cmp", pred, la, lb)))
        if op in ("and", "or", "xor") and ty == "i1":
            a = s.cond_term(s.val(fr, i["ops"][0], env))
            b = s.cond_term(s.val(fr, i["ops"][1], env))
            if op == "xor":
                if b[0] == "c":
                    return setv(B(("not", a) if b[1] else a))
                if a[0] == "c":
                    return setv(B(("not", b) if a[1] else b))
                return setv(B(("o", vid)))
            return setv(B((op, a, b)))
        if op == "select":
            c = s.cond_term(s.val(fr, i["ops"][0], env))
            d = s.decide(c, facts)
            if d is not None:
                return setv(s.val(fr, i["ops"][1 if d else 2], env))
            out = []
            for val, k in ((True, 1), (False, 2)):
                f2 = s.assume(c, val, facts)
                if f2 is not None:
                    e2 = dict(env)
                    e2[vid] = s.val(fr, i["ops"][k], env)
                    out.append((e2, f2, epoch, pl))
            return out
        if op == "alloca":
            pl2 = s.plugin.on_event(pl, ("alloca", vid, i, fr), s, (env, facts, epoch))
            s.positive_roots.add(vid)
            e2 = dict(env)
            e2[vid] = P(vid, Lin.const(0))
            return [(e2, facts, epoch, pl2)]
        if op == "load":
            p = s.val(fr, i["ops"][0], env)
            pl2 = s.plugin.on_event(pl, ("load", p, i, fr), s, (env, facts, epoch))
            e2 = dict(env)
            if p[0] == "p" and p[1] == "errno":
                e2[vid] = I(Lin.atom("errno#%s" % epoch))
            else:
                x = s.plugin_load(pl2, p, i, fr, env)
                e2[vid] = x if x is not None else s.opaque(fr, i["id"], ty)
                if e2[vid][0] == "i" and i.get("size", 8) < 8 and ty != "i64":
                    pass
            return [(e2, facts, epoch, pl2)]
        if op == "store":
            p = s.val(fr, i["ops"][1], env)
            v = s.val(fr, i["ops"][0], env)
            ep = epoch
            if p[0] == "p" and p[1] == "errno":
                ep = s.clobber(fr, i)
                # remember what errno holds now
                l = s.as_lin(v)
                an = "errno#%s" % ep
                f2 = facts.kill(lambda a: a == an)
                if l is not None and not any(_core(x) in s.loopdef for x in l.t):
                    a = Lin.atom(an)
                    f2 = Facts(f2.ge | {a - l, l - a}, f2.ne, f2.cb)
                pl2 = s.plugin.on_event(pl, ("errno_store", v, i, fr), s, (env, f2, ep))
                return [(env, f2, ep, pl2)]
            pl2 = s.plugin.on_event(pl, ("store", p, v, i, fr), s, (env, facts, epoch))
            return [(env, facts, ep, pl2)]
        if op in ("call", "invoke"):
            return s.exec_call(fr, i, env, facts, epoch, pl)
        if op == "fence":
            return [(env, facts, epoch, pl)]
        if op in ("and", "or", "xor", "ashr", "urem", "srem", "sdiv") or True:
            if vid is None:
                return [(env, facts, epoch, pl)]
            # constant folding for the few cases that matter, otherwise opaque
            if op in ("and", "or", "xor", "ashr", "urem", "srem", "sdiv"):
                a = s.as_lin(s.val(fr, i["ops"][0], env))
                b = s.as_lin(s.val(fr, i["ops"][1], env))
                if a is not None and b is not None and a.is_const() and b.is_const():
                    x, y = int(a.c), int(b.c)
                    try:
                        r = {"and": x & y, "or": x | y, "xor": x ^ y, "ashr": x >> y if y >= 0 else 0, "urem": x % y if y else 0,
                             "srem": x % y if y else 0, "sdiv": int(x / y) if y else 0}[op]
                        return setv(I(Lin.const(r)))
                    except Exception:
                        pass
                if op in ("sdiv", "ashr") and i.get("exact") and a is not None and b is not None and b.is_const() and b.c > 0 \
                        and not (vid in s.loopdef or any(_core(x) in s.loopdef for x in a.t)):
                    # 'exact' (pointer differences): the IR itself states dividend == divisor * quotient
                    k = int(b.c) if op == "sdiv" else 2 ** int(b.c)
                    return setv(I(a.scale(Fr(1, k))))
                if op == "and" and b is not None and b.is_const() and b.c >= 0:
                    s.nonneg.add(vid)
                if op in ("urem",):
                    s.nonneg.add(vid)
            return setv(s.opaque(fr, i["id"], ty))

    def plugin_load(s, pl, p, i, fr, env):
        f = getattr(s.plugin, "load_value", None)
        return f(pl, p, i, fr, env, s) if f else None

    def exec_call(s, fr, i, env, facts, epoch, pl):
        name = i.get("callee")
        pre = fr.pre
        vid = pre + i["id"] if "id" in i else None
        ty = i.get("ty", "")
        args = [s.val(fr, a, env) for a in i.get("args", ())]

        def with_result(env, facts, epoch, pl, res=None):
            if vid is None:
                return (env, facts, epoch, pl)
            e2 = dict(env)
            e2[vid] = res if res is not None else s.opaque_result(vid, ty)
            return (e2, facts, epoch, pl)

        if name is None:
            if vid is not None:
                s.indirect_results.add(vid)
            pl2 = s.plugin.on_event(pl, ("indirect", args, i, fr), s, (env, facts, epoch))
            ep = s.clobber(fr, i)
            return [with_result(env, facts.kill(lambda a: a == "errno#%s" % ep), ep, pl2)]
        if name.startswith("llvm.dbg") or name.startswith("llvm.lifetime"):
            return [(env, facts, epoch, pl)]
        if name in HANDLER_DISPATCH:
            code = s.as_lin(args[2]) if len(args) > 2 else None
            msg = s.string_of(args[0]) if args else None
            pl2 = s.plugin.on_event(pl, ("handler", HANDLER_DISPATCH[name], code, msg, args[1] if len(args) > 1 else None, i, fr), s, (env, facts, epoch))
            return [(env, facts, epoch, pl2)]       # assumption: the handler returns with errno intact
        if name == "__errno_location":
            return [with_result(env, facts, epoch, pl, P("errno", Lin.const(0)))]
        callee = s.prog.resolve(fr.fn, name)
        if callee is not None:
            if (fr.depth < s.plugin.inline_depth and callee.name not in s.noinline and not s.plugin.no_inline(callee)
                    and not fr.in_stack(callee) and not callee.j.get("vararg")):
                return s.inline(fr, callee, i, args, env, facts, epoch, pl, vid, ty)
            outs = []
            for (pl2, assumptions) in s.plugin.on_call(pl, ("lib", callee, args, i, fr, vid), s, (env, facts, epoch)):
                ep0 = s.clobber(fr, i)
                e, f, ep, p2 = with_result(env, facts.kill(lambda a: a == "errno#%s" % ep0), ep0, pl2)
                ok = True
                for (mk, val) in assumptions:
                    t = mk(e[vid]) if callable(mk) else mk
                    f = s.assume(t, val, f)
                    if f is None:
                        ok = False
                        break
                if ok:
                    outs.append((e, f, ep, p2))
            return outs
        # external
        eff = external_effect(name)
        if eff is None:
            s.unmodelled.add(name)
            eff = {}
        ev = ("ext", name, eff, args, i, fr, vid)
        outs = []
        res = None
        if "ret_arg" in eff and eff["ret_arg"] < len(args) and args[eff["ret_arg"]][0] == "p" and ty.endswith("*"):
            # interior pointer of the argument (or NULL for the searchers): keep the root, opaque offset
            a = args[eff["ret_arg"]]
            res = P(a[1], a[2] + Lin.atom("off:" + vid)) if name != "realloc" else None
        variants = [(res, None)]
        if res is not None and name in NULL_ON_FAILURE:
            # fgets / asctime_r / ctime_r return their buffer argument, or NULL when they fail
            variants = [(P("null", Lin.const(0)), None), (P(args[eff["ret_arg"]][1], args[eff["ret_arg"]][2]), None)]
        if res is not None and name in SEARCHERS:
            # a searcher returns NULL or a pointer at/behind its argument: two outcomes instead of one unconstrained offset
            variants = [(P("null", Lin.const(0)), None), (res, Lin.atom("off:" + vid))]
        for (pl2, assumptions) in s.plugin.on_call(pl, ev, s, (env, facts, epoch)):
          for (res, extra) in variants:
            clob = not ((not eff and name.startswith("llvm.")) or name.startswith("llvm.") or name in ("strlen", "strnlen", "memset", "memcpy", "memmove", "free", "wcslen", "wcsnlen", "strerror", "strchr", "strrchr", "strstr", "memchr", "memrchr"))
            if clob:
                ep0 = s.clobber(fr, i)
                e, f, ep, p2 = with_result(env, facts.kill(lambda a: a == "errno#%s" % ep0), ep0, pl2, res)
            else:
                e, f, ep, p2 = with_result(env, facts, epoch, pl2, res)
            if extra is not None:
                f = Facts(f.ge | {extra}, f.ne, f.cb)
            hook = getattr(s.plugin, "on_result", None)
            if hook is not None and vid is not None:
                p2 = hook(p2, ev, e[vid])
            if vid is not None and "ret_le" in eff and eff["ret_le"] < len(args):
                b = s.as_lin(args[eff["ret_le"]])
                r = e[vid]
                if b is not None and r[0] == "i":
                    s.nonneg |= r[1].atoms()
                    f = Facts(f.ge | {b - r[1]}, f.ne, f.cb)
            ok = True
            for (mk, val) in assumptions:
                t = mk(e[vid]) if callable(mk) else mk
                f = s.assume(t, val, f)
                if f is None:
                    ok = False
                    break
            if ok:
                outs.append((e, f, ep, p2))
        return outs

    # ------------------------------------------------------------------ relevance of integer values
    def relevant_ids(s, fn):
        """SSA ids of fn whose value can reach a return value, a handler code, memory (stores), a length/size argument of an external
        routine, or a relevant parameter of a library callee.  Only those integer merges are worth carrying precisely."""
        key = id(fn)
        r = s._relevant.get(key)
        if r is not None:
            return r
        s._relevant[key] = set()          # recursion guard (optimistic; refined by the outer fixpoint below)
        from .ir import operands
        for _round in range(4):
            sinks = set()
            for i in fn.insts():
                op = i["op"]
                if op == "ret" or op == "store":
                    for o in i.get("ops", ())[:1]:
                        if o.get("k") == "v":
                            sinks.add(o["id"])
                elif op in ("call", "invoke"):
                    name = i.get("callee")
                    args = i.get("args", ())
                    if name is None:
                        for o in args:
                            if o.get("k") == "v":
                                sinks.add(o["id"])
                        continue
                    if name in HANDLER_DISPATCH:
                        if len(args) > 2 and args[2].get("k") == "v":
                            sinks.add(args[2]["id"])
                        continue
                    callee = s.prog.resolve(fn, name)
                    if callee is not None:
                        rp = s.relevant_params(callee)
                        for k, o in enumerate(args):
                            if o.get("k") == "v" and (k in rp or k >= len(callee.j["params"])):
                                sinks.add(o["id"])
                        continue
                    eff = external_effect(name) or {}
                    idx = set()
                    for kind in ("w", "r"):
                        for (pa, ln) in eff.get(kind, ()):
                            if ln and ln[0] in ("arg", "argnul", "mul"):
                                idx.update(x for x in ln[1:] if isinstance(x, int) and x < len(args))
                    if not eff and not name.startswith("llvm."):
                        idx = set(range(len(args)))
                    for k in idx:
                        if k < len(args) and args[k].get("k") == "v":
                            sinks.add(args[k]["id"])
            rel = set()
            st = list(sinks)
            while st:
                v = st.pop()
                if v in rel:
                    continue
                rel.add(v)
                d = fn.defs.get(v)
                if d is None:
                    continue
                if d["op"] in ("phi", "select", "zext", "sext", "trunc", "add", "sub", "mul", "shl", "udiv", "lshr", "bitcast", "ptrtoint", "freeze"):
                    for o in operands(d):
                        if o.get("k") == "v":
                            st.append(o["id"])
            if rel == s._relevant[key]:
                break
            s._relevant[key] = rel
        return s._relevant[key]

    def relevant_params(s, fn):
        rel = s.relevant_ids(fn)
        return {k for k, p in enumerate(fn.j["params"]) if p["id"] in rel}

    def stable_atom(s, a):
        """atoms worth carrying precisely through a merge: parameters, call results, errno, addresses"""
        if a.startswith(("&", "errno#")):
            return True
        if a in getattr(s.plugin, "pinned", ()):
            return True              # the plugin's verdict depends on this value: a short-circuit condition merged in a phi must keep it
        c = _core(a)
        op = s.atom_op.get(c)
        if op is None:
            return True              # parameter (no defining instruction)
        return op in ("call", "invoke")

    def stabilise(s, fr, phi, x, facts=None):
        """value bound to a merge phi: constants, parameter/call-result expressions and pointer roots stay precise; data computed along
        the path (loads, bit operations, loop-carried values) collapses into the phi's own opaque atom so that paths can merge again"""
        vid = fr.pre + phi["id"]
        if x[0] == "i":
            if (x[1].is_const() or all(s.stable_atom(a) for a in x[1].t)) and \
                    (s.top_blocks <= s.BIG_FN or phi["id"] in s.relevant_ids(fr.fn)):
                return x          # (in very large entry points only merges that can reach a result/handler/length stay precise)
            if len(x[1].t) == 1 and x[1].c == 0 and list(x[1].t.values())[0] == 1 and (s.top_blocks <= s.BIG_FN or phi["id"] in s.relevant_ids(fr.fn)):
                return x          # the phi merely forwards one opaque value: keep its identity (bounded by K_PHI)
            s.loopdef.add(vid)
            return I(Lin.atom(vid))
        if x[0] == "p":
            if x[2].is_const() or all(s.stable_atom(a) for a in x[2].t):
                return x
            return P(x[1], Lin.atom("off:" + vid))
        if x[0] in ("b", "zb"):
            if x[1][0] == "c":
                return x
            if x[1][0] == "cmp" and all(s.stable_atom(a) for a in (x[1][2] - x[1][3]).t):
                return x
            if facts is not None:
                d_ = s.decide(x[1], facts)
                if d_ is not None:
                    return (x[0], T_const(d_))      # the condition is already decided on this path: carry the constant
            s.loopdef.add(vid)
            return (x[0], ("o", vid))
        return x

    def older_root(s, r, local):
        """is root r an object that cannot be the local (alloca) root `local`: a top-level parameter, a global or null?"""
        if r == "null":
            return False
        if r.startswith("@"):
            return True
        return r in s.top.params and "/" not in r

    def string_of(s, v):
        """constant string a pointer value designates, if any"""
        if v[0] == "p" and v[1].startswith("@") and "|" in v[1] and v[2].is_const():
            name, tu = v[1][1:].split("|", 1)
            for m in s.prog.mods:
                if m["tu"] == tu:
                    g = m["gmap"].get(name)
                    if g and "str" in g:
                        return g["str"][int(v[2].c):].split("\0")[0]
        return None

    def clobber(s, fr, i):
        """errno epoch = the site of the last instruction that may have changed errno (finite, unlike a counter)"""
        return "%s%s:%s" % (fr.pre, i["_bb"], i["_k"])

    def opaque_result(s, vid, ty):
        if ty.endswith("*"):
            return P(vid, Lin.const(0))
        if ty == "i1":
            return B(("o", vid))
        return I(Lin.atom(vid))

    def inline(s, fr, callee, i, args, env, facts, epoch, pl, vid, ty):
        site = "%s@%s:%s/" % (callee.name, i["_bb"], i["_k"])
        fr2 = Frame(callee, fr.pre + site, fr.depth + 1, fr)
        env2 = dict(env)
        for k, p in enumerate(callee.j["params"]):
            if k < len(args):
                v = args[k]
                env2[fr2.pre + p["id"]] = v
            else:
                env2[fr2.pre + p["id"]] = s.opaque(fr2, p["id"], p["ty"])
        pl = s.plugin.on_event(pl, ("enter", callee, args, i, fr), s, (env, facts, epoch))
        st0 = State(env2, facts, epoch, pl)
        outs = []
        seen = set()
        for (rv, st, _) in s.explore(fr2, st0):
            # drop the callee's own values, keep the caller's
            e = {k: v for k, v in st.env.items() if not k.startswith(fr2.pre)}
            f = st.facts
            if vid is not None:
                e[vid] = rv if rv is not None else s.opaque_result(vid, ty)
            pl2 = s.plugin.on_event(st.pl, ("leave", callee, rv, i, fr), s, (e, f, st.epoch))
            # facts about atoms local to the callee frame are no longer expressible unless the result mentions them
            keep_atoms = set()
            if vid is not None:
                l = s.as_lin(e[vid]) if e[vid][0] in ("i", "p") else None
                if l is not None:
                    keep_atoms = l.atoms()
            def dead(a, pre2=fr2.pre, keep=keep_atoms):
                return _core(a).startswith(pre2) and a not in keep
            f = f.kill(dead)
            k = (frozenset(e.items()), f, st.epoch, pl2)
            if k in seen:
                continue
            seen.add(k)
            outs.append((e, f, st.epoch, pl2))
        return outs


class Frame:
    __slots__ = ("fn", "pre", "depth", "parent")

    def __init__(s, fn, pre, depth, parent):
        s.fn = fn
        s.pre = pre
        s.depth = depth
        s.parent = parent

    def in_stack(s, fn):
        f = s
        while f is not None:
            if f.fn is fn:
                return True
            f = f.parent
        return False


_PHI_USES = {}


def fn_phi_uses(fn, succ, pred):
    """values consumed by the phis of succ on the edge pred -> succ"""
    k = (id(fn), succ, pred)
    r = _PHI_USES.get(k)
    if r is None:
        r = set()
        for i in fn.blocks[succ]["insts"]:
            if i["op"] != "phi":
                break
            for inc in i["incoming"]:
                if inc["bb"] == pred and inc["v"].get("k") == "v":
                    r.add(inc["v"]["id"])
        _PHI_USES[k] = r
    return r


_PHI_DEFS = {}


def fn_phi_defs(fn, bb):
    k = (id(fn), bb)
    r = _PHI_DEFS.get(k)
    if r is None:
        r = frozenset(i["id"] for i in fn.blocks[bb]["insts"] if i["op"] == "phi")
        _PHI_DEFS[k] = r
    return r


# entry points whose path space is too large for the precise setting (measured: > 70k states); they are always explored coarsely,
# so that the verdict for them does not depend on a budget being hit
LOW_PRECISION = {"safec_vsnprintf_s", "_wcsnorm_compose_s_chk", "_wcsfc_s_chk"}


def run_adaptive(prog, fn, make_plugin, budgets=(60000, 400000), noinline=(), low_set=None):
    """explore with full precision under a modest budget; fall back to the coarse setting (sound, less precise) when the path space is too large"""
    last = None
    plan = list(zip(("high", "low"), budgets))
    if fn.name in (LOW_PRECISION if low_set is None else low_set):
        plan = plan[1:]
    for prec, b in plan:
        eng = Engine(prog, fn, make_plugin(), budget=b, noinline=noinline, precision=prec)
        try:
            eng.run()
            return eng
        except BudgetExceeded as e:
            last = e
    raise last


NULL_ON_FAILURE = ("fgets", "asctime_r", "ctime_r")
SEARCHERS = ("strchr", "strrchr", "strstr", "strcasestr", "strpbrk", "memchr", "memrchr", "wcschr", "wcsrchr", "wcsstr", "wcspbrk", "wmemchr")


def _prim(d):
    """canonical form of a disequality d != 0: integer coefficients without common factor, leading coefficient positive"""
    from math import gcd
    m = 1
    for c in list(d.t.values()) + [d.c]:
        m = m * c.denominator // gcd(m, c.denominator)
    g = 0
    for c in list(d.t.values()) + [d.c]:
        g = gcd(g, abs(int(c * m)))
    r = d.scale(Fr(m, g or 1))
    if r.t and r.t[min(r.t)] < 0:
        r = -r
    return r


def _core(a):
    """SSA id behind an atom name (off:<id>, &<id>, <id>)"""
    if a.startswith("off:"):
        return a[4:]
    if a.startswith("&"):
        return a[1:]
    return a


def _plain(pred):
    return pred[1:] if pred[0] in "us" and pred not in ("eq", "ne") else pred


def _bits_of(i, k):
    o = i["ops"][k]
    if "bits" in o:
        return o["bits"]
    ty = o.get("ty") or i["ops"][1 - k].get("ty", "i64")
    if ty.endswith("*"):
        return 64
    try:
        return int(ty[1:])
    except ValueError:
        return 64


def _const_str(fn, o):
    from .ir import global_roots
    for n in global_roots(o):
        g = fn.mod["gmap"].get(n)
        if g and "str" in g:
            return g["str"].rstrip("\0")
    return None
