"""Plugins (finite flag sets) for the pathflags engine and the outcome records the checks consume."""
from .lin import Lin
from .pathflags import Plugin, HANDLER_DISPATCH

# internal primitives that are summarised instead of inlined: name -> [(kind, ptr arg, len arg, unit, value arg or None)]
PRIM_EFFECTS = {
    "mem_prim_set":    [("set", 0, 1, 1, 2)],
    "mem_prim_set16":  [("set", 0, 1, 2, 2)],
    "mem_prim_set32":  [("set", 0, 1, 4, 2)],
    "mem_prim_move":   [("copy", 0, 2, 1, 1)],
    "mem_prim_move8":  [("copy", 0, 2, 1, 1)],
    "mem_prim_move16": [("copy", 0, 2, 2, 1)],
    "mem_prim_move32": [("copy", 0, 2, 4, 1)],
}


class HFlags(Plugin):
    """constraint-handler typestate: how many invocations on the path, with which code / message"""
    inline_depth = 3

    def __init__(s, noinline=(), opaque_convention=None, assume_quiet=None, track_msgs=True):
        s.track_msgs = track_msgs
        s.noinline = set(noinline) | set(PRIM_EFFECTS)
        s.opaque_convention = opaque_convention or {}
        s.assume_quiet = dict(assume_quiet or {})   # nested callee -> message fragments of its constraints that cannot fire in this entry (stated assumptions)
        s.stack = []

    def init(s, eng):
        s.prog = eng.prog
        s.top = eng.top
        ep = eng.top.pnames.get("errp")
        s.errp_root = ep["id"] if ep else None
        if s.errp_root:
            return (0, None, (), None)
        return (0, None, ())          # count (0,1,2), first code (Lin or None), messages [, value stored through errp]

    def no_inline(s, fn):
        return fn.name in s.noinline or not s.may_report(fn)

    _reach = None

    def may_report(s, fn):
        """can fn (transitively) invoke a constraint handler?  Callees that cannot are opaque for this plugin."""
        if s._reach is None or s._reach[0] is not s.prog:
            prog = s.prog
            direct = {}
            for f in prog.allfuncs:
                cs = set()
                for c in f.calls():
                    n = c.get("callee")
                    if n is None:
                        continue
                    if n in HANDLER_DISPATCH:
                        cs.add("!")
                    else:
                        g = prog.resolve(f, n)
                        if g is not None:
                            cs.add(id(g))
                direct[id(f)] = cs
            rep = {k for k, v in direct.items() if "!" in v}
            changed = True
            while changed:
                changed = False
                for k, v in direct.items():
                    if k not in rep and v & rep:
                        rep.add(k); changed = True
            s._reach = (prog, rep)
        return id(fn) in s._reach[1]

    def on_event(s, pl, ev, eng, st):
        if ev[0] == "store" and s.errp_root and ev[1][0] == "p" and ev[1][1] == s.errp_root:
            return pl[:3] + (eng.as_lin(ev[2]),)
        if ev[0] == "handler":
            rest = pl[3:]
            r = s._handler(pl[:3], ev, eng, st)
            return r if r == "DROP" else r + rest
        return pl

    def _handler(s, pl, ev, eng, st):
        if True:
            cnt, code, msgs = pl
            fr = ev[6]
            if s.assume_quiet and fr.depth > 0:
                f = fr
                while f is not None and f.depth > 0:
                    if f.depth == 1 and f.fn.name in s.assume_quiet and any(x in (ev[3] or "") for x in s.assume_quiet[f.fn.name]):
                        return "DROP"        # this nested constraint cannot fire here (listed assumption, value-level reason)
                    f = f.parent
            if not s.track_msgs:
                return (min(cnt + 1, 2), ev[2] if cnt == 0 else code, ())
            return (min(cnt + 1, 2), ev[2] if cnt == 0 else code, (msgs + (ev[3] or "?",))[:3])
        return pl

    def on_call(s, pl, call, eng, st):
        if call[0] == "lib":
            callee = call[1]
            if callee.name in PRIM_EFFECTS:
                return [(pl, [])]
            conv = s.opaque_convention.get(callee.name)
            if conv is None:
                return [(pl, [])]
            # assume-guarantee for an exported callee that is too large to inline: it either succeeds quietly
            # or fails having reported exactly once with the code it returns (checked when it is analysed itself)
            cnt, code, msgs = pl[:3]
            quiet = (pl, [(lambda r, conv=conv: conv_success_term(conv, r), True)])
            noisy = ((min(cnt + 1, 2), ("nested", callee.name) if cnt == 0 else code, (msgs + ("<%s>" % callee.name,))[:3]) + pl[3:],
                     [(lambda r, conv=conv: conv_success_term(conv, r), False)])
            return [quiet, noisy]
        return [(pl, [])]


def conv_success_term(conv, r):
    """boolean term 'the call succeeded' for a result value r under a return convention"""
    if r[0] == "i":
        if conv == "errno":
            return ("cmp", "eq", r[1], Lin.const(0))
        if conv == "neg":
            return ("cmp", "sge", r[1], Lin.const(0))
    if r[0] == "p":
        return ("cmp", "ne", Lin.atom("&" + r[1]) + r[2], Lin.const(0))
    return ("o", "?success")
