"""Plugins (finite flag sets) for the pathflags engine and the outcome records the checks consume."""
from .lin import Lin
from .pathflags import Plugin, HANDLER_DISPATCH

# internal primitives that are summarised instead of inlined: name -> [(kind, ptr arg, len arg, unit, value arg or None)]
PRIM_EFFECTS = {
    "mem_prim_set":    [("set", 0, 1, 1, 2)],
    "mem_prim_set16":  [("set", 0, 1, 2, 2)],
    "mem_prim_set32":  [("set", 0, 1, 4, 2)],
    "mem_prim_move":   [("copy", 0, 2, 1, 1)],
    "mem_prim_move8":  [("copy", 0, 2, 1, 1)],
    "mem_prim_move16": [("copy", 0, 2, 2, 1)],
    "mem_prim_move32": [("copy", 0, 2, 4, 1)],
}


class HFlags(Plugin):
    """constraint-handler typestate: how many invocations on the path, with which code / message"""
    inline_depth = 3

    def __init__(s, noinline=(), opaque_convention=None, assume_quiet=None, track_msgs=True):
        s.track_msgs = track_msgs
        s.noinline = set(noinline) | set(PRIM_EFFECTS)
        s.opaque_convention = opaque_convention or {}
        s.assume_quiet = dict(assume_quiet or {})   # nested callee -> message fragments of its constraints that cannot fire in this entry (stated assumptions)
        s.stack = []

    def init(s, eng):
        s.prog = eng.prog
        s.top = eng.top
        ep = eng.top.pnames.get("errp")
        s.errp_root = ep["id"] if ep else None
        s.pinned = set()
        # ordering clause: the function's own size limits  (size parameter, scale, K)  and the operands that must not be touched while size > K is possible
        fn = eng.top
        s.limits = []
        for i in fn.insts():
            if i["op"] == "icmp" and i["pred"] in ("ugt", "uge") and i["ops"][1].get("k") == "c" and i["ops"][1]["v"] >= 64 and i["ops"][0].get("k") == "v":
                a = i["ops"][0]["id"]
                sc = 1
                d = fn.defs.get(a)
                if d is not None and d["op"] in ("mul", "shl") and d["ops"][0].get("k") == "v" and d["ops"][1].get("k") == "c":
                    sc = d["ops"][1]["v"] if d["op"] == "mul" else 2 ** d["ops"][1]["v"]
                    a = d["ops"][0]["id"]
                if a in fn.params and fn.params[a]["name"] in s.BOS_OF and s.is_limit_check(fn, i) \
                        and (a, sc, i["ops"][1]["v"]) not in s.limits:
                    s.limits.append((a, sc, i["ops"][1]["v"]))
        s.operand_roots = {p["id"]: p["name"] for p in fn.j["params"] if p["ty"].endswith("*") and p["name"] in ("dest", "src", "str")}
        dp = fn.pnames.get("dest")
        s.dest_param = dp["id"] if dp and dp["ty"].endswith("*") else None
        s.bos = [p["id"] for p in fn.j["params"] if p["name"] in ("destbos", "srcbos", "strbos")] if s.limits else []
        for (a, sc, K) in s.limits:
            s.pinned.add(a)
        s.pinned.update(s.bos)
        # (count (0,1,2), first code, messages, value stored through errp, measured lengths {(pointer, length atom)}, inlined frames whose copy provably fits,
        #  operands touched while the size limit was still open)
        return (0, None, (), None, frozenset(), frozenset(), frozenset())

    @staticmethod
    def is_limit_check(fn, cmp):
        """size > K is one of the function's RSIZE limit checks when satisfying it leads straight to a constraint report:
        the compare feeds a branch whose taken side reports (handler call), directly or through a short-circuit '||' phi, or it selects the ESLEMAX code"""
        def reports(bb, depth=4):
            """every path from bb reaches a constraint report within a few blocks"""
            if depth == 0:
                return False
            for i in fn.blocks[bb]["insts"]:
                if i["op"] == "call" and (i.get("callee") or "").startswith(("invoke_safe_", "handle_error", "handle_werror", "handle_mem_error", "handle_str_bos_overflow")):
                    return True
            succ = fn.succ.get(bb, [])
            return bool(succ) and all(reports(x, depth - 1) for x in succ)
        for u in fn.users().get(cmp["id"], []):
            if u["op"] == "br" and "f" in u and reports(u["t"]):
                return True
            if u["op"] == "select" and any(o.get("k") == "c" and o.get("v") == 403 for o in u["ops"][1:]):
                return True
            if u["op"] == "phi":
                for w in fn.users().get(u["id"], []):
                    if w["op"] == "br" and "f" in w and reports(w["t"]):
                        return True
        return False

    BOS_OF = SIZE_PARAMS = ("dmax", "dlen", "len", "smax", "slen")
    CLEARERS = ("handle_error", "handle_werror", "handle_mem_error", "handle_str_bos_overflow")

    def touch(s, pl, p, fr, eng, st, how):
        """ordering clause: dest/src must not be accessed while 'size above the limit' is still possible on this path"""
        if not s.limits or p is None or p[0] != "p" or p[1] not in s.operand_roots or any(t[0] == s.operand_roots[p[1]] for t in pl[6]):
            return pl
        f = fr
        while f is not None:
            if f.fn.name in s.CLEARERS:
                return pl            # clearing dest is part of rejecting
            f = f.parent
        env, facts, epoch = st
        if s.dest_param is not None and eng.decide(("cmp", "eq", Lin.atom("&" + s.dest_param), Lin.const(0)), facts) is True:
            return pl                # dest == NULL: length-query mode of the conversion functions, the size arguments describe no object
        for (a, sc, K) in s.limits:
            if s.top.params[a]["name"] in ("slen", "smax") and s.operand_roots[p[1]] == "dest":
                continue             # a source length describes src: once dest/dmax are validated, measuring and clearing dest is part of rejecting it (C04)
            size = Lin.atom(a).scale(sc)
            if eng.decide(("cmp", "ugt", size, Lin.const(K)), facts) is False:
                continue
            if any(eng.decide(("cmp", "eq", Lin.atom(b), Lin.const((1 << 64) - 1)), facts) is False
                   and eng.decide(("cmp", "ule", size, Lin.atom(b)), facts) is True for b in s.bos):
                continue             # bounded by a known object size: the library accepts size <= object size there (recorded root cause, not this clause)
            return pl[:6] + (pl[6] | {(s.operand_roots[p[1]], how, pl[2])},)
        return pl

    def no_inline(s, fn):
        return fn.name in s.noinline or not s.may_report(fn)

    _reach = None

    def may_report(s, fn):
        """can fn (transitively) invoke a constraint handler?  Callees that cannot are opaque for this plugin."""
        if s._reach is None or s._reach[0] is not s.prog:
            prog = s.prog
            direct = {}
            for f in prog.allfuncs:
                cs = set()
                for c in f.calls():
                    n = c.get("callee")
                    if n is None:
                        continue
                    if n in HANDLER_DISPATCH:
                        cs.add("!")
                    else:
                        g = prog.resolve(f, n)
                        if g is not None:
                            cs.add(id(g))
                direct[id(f)] = cs
            rep = {k for k, v in direct.items() if "!" in v}
            changed = True
            while changed:
                changed = False
                for k, v in direct.items():
                    if k not in rep and v & rep:
                        rep.add(k); changed = True
            s._reach = (prog, rep)
        return id(fn) in s._reach[1]

    def on_event(s, pl, ev, eng, st):
        if ev[0] == "store" and s.errp_root and ev[1][0] == "p" and ev[1][1] == s.errp_root:
            return pl[:3] + (eng.as_lin(ev[2]),) + pl[4:]
        if ev[0] == "load":
            return s.touch(pl, ev[1], ev[3], eng, st, "read")
        if ev[0] == "store":
            return s.touch(pl, ev[1], ev[4], eng, st, "write")
        if ev[0] == "enter" and s.assume_quiet and ev[1].name in s.assume_quiet and "PROVE-FIT" in s.assume_quiet[ev[1].name]:
            # copy(dest, dmax, src): the nested 'not enough space' constraint cannot fire if a measured strlen(src) is known to be < dmax here
            args = ev[2]
            env, facts, epoch = st
            if len(args) >= 3 and args[1][0] == "i":
                for (pv, la) in pl[4]:
                    if pv == args[2] and eng.decide(("cmp", "ult", Lin.atom(la), args[1][1]), facts) is True:
                        site = "%s@%s:%s/" % (ev[1].name, ev[3]["_bb"], ev[3]["_k"])
                        return pl[:5] + (pl[5] | {ev[4].pre + site},) + pl[6:]
            return pl
        if ev[0] == "handler":
            rest = pl[3:]
            r = s._handler(pl, ev, eng, st)
            return r if r == "DROP" else r + rest
        return pl

    def _handler(s, pl6, ev, eng, st):
        pl = pl6[:3]
        if True:
            cnt, code, msgs = pl
            fr = ev[6]
            if s.assume_quiet and fr.depth > 0:
                f = fr
                while f is not None and f.depth > 0:
                    if f.depth == 1 and f.fn.name in s.assume_quiet:
                        frags = s.assume_quiet[f.fn.name]
                        msg_ = ev[3] or ""
                        if "not enough space" in msg_ and "PROVE-FIT" in frags:
                            if f.pre in pl6[5]:
                                return "DROP"    # proven on this path: measured length < dmax
                        elif any(x in msg_ for x in frags if x != "PROVE-FIT"):
                            return "DROP"        # this nested constraint cannot fire here (listed assumption, value-level reason)
                    f = f.parent
            if not s.track_msgs:
                return (min(cnt + 1, 2), ev[2] if cnt == 0 else code, ())
            return (min(cnt + 1, 2), ev[2] if cnt == 0 else code, (msgs + (ev[3] or "?",))[:3])
        return pl

    def on_call(s, pl, call, eng, st):
        if call[0] == "ext" and s.limits:
            eff = call[2]
            touched = {x[0] for x in eff.get("w", ())} | {x[0] for x in eff.get("r", ())}
            for k_, a in enumerate(call[3]):
                if k_ in touched:
                    pl = s.touch(pl, a, call[5], eng, st, "passed to %s" % call[1])
        if call[0] == "ext" and call[1] in ("strlen", "wcslen") and call[6] and call[3]:
            s.pinned.add(call[6])
            lens = frozenset(list(pl[4])[-3:]) | {(call[3][0], call[6])}
            return [(pl[:4] + (lens,) + pl[5:], [])]
        if call[0] == "lib":
            callee = call[1]
            if callee.name in PRIM_EFFECTS:
                return [(pl, [])]
            conv = s.opaque_convention.get(callee.name)
            if conv is None:
                if call[5] is not None and not s.may_report(callee):
                    eng.indirect_results.add(call[5])     # result of a helper that can never report: a status, not a violation code
                return [(pl, [])]
            # assume-guarantee for an exported callee that is too large to inline: it either succeeds quietly
            # or fails having reported exactly once with the code it returns (checked when it is analysed itself)
            cnt, code, msgs = pl[:3]
            quiet = (pl, [(lambda r, conv=conv: conv_success_term(conv, r), True)])
            noisy = ((min(cnt + 1, 2), ("nested", callee.name) if cnt == 0 else code, (msgs + ("<%s>" % callee.name,))[:3]) + pl[3:],
                     [(lambda r, conv=conv: conv_success_term(conv, r), False)])
            return [quiet, noisy]
        return [(pl, [])]


def conv_success_term(conv, r):
    """boolean term 'the call succeeded' for a result value r under a return convention"""
    if r[0] == "i":
        if conv == "errno":
            return ("cmp", "eq", r[1], Lin.const(0))
        if conv == "neg":
            return ("cmp", "sge", r[1], Lin.const(0))
    if r[0] == "p":
        return ("cmp", "ne", Lin.atom("&" + r[1]) + r[2], Lin.const(0))
    return ("o", "?success")


_SUMM = {}
_ZLOOPS = {}


def _certified_zero_loops(prog, top):
    """{(function name, source line)} of the zeroing memsets and zero-only loops that capcheck proves to end exactly at the declared end of the buffer
    (computed for the entry point and the library functions it can inline)"""
    out = set()
    from . import capcheck
    todo, seen = [top], set()
    while todo:
        f = todo.pop()
        if f.name in seen or len(seen) > 12:
            continue
        seen.add(f.name)
        key = (id(prog), f.name)
        if key not in _ZLOOPS:
            try:
                res, _ = capcheck.analyse(f, capcheck.default_roles(f), prog, None, want_kinds=("W", "S"))
                _ZLOOPS[key] = {(f.name, x["line"]) for x in res if x.get("zero_fill") and x.get("ends_at_cap")}
            except Exception:
                _ZLOOPS[key] = set()
        out |= _ZLOOPS[key]
        for c in f.calls():
            g = prog.resolve(f, c.get("callee")) if c.get("callee") else None
            if g is not None and g.name not in seen:
                todo.append(g)
    return out


def _written_params(prog, callee):
    """parameter indices the callee may write through (inter-procedural write summaries, computed once per program)"""
    sm = _SUMM.get(id(prog))
    if sm is None:
        from .derive import Summaries
        sm = _SUMM[id(prog)] = Summaries(prog)
    return sm.w.get((callee.mod["tu"], callee.name), ())


class DFlags(Plugin):
    """destination typestate: has this call written into dest, was dest cleared at its start / completely since, is a NUL known in dest"""
    inline_depth = 3

    def __init__(s, dest="dest", dmax="dmax", noinline=(), assume_quiet=None, opaque_convention=None):
        s.opaque_convention = opaque_convention or {}
        s.dest_name = dest
        s.dmax_name = dmax
        s.noinline = set(noinline) | set(PRIM_EFFECTS)
        s.assume_quiet = dict(assume_quiet or {})

    def init(s, eng):
        fn = eng.top
        s.prog = eng.prog
        d = fn.pnames.get(s.dest_name)
        m = fn.pnames.get(s.dmax_name)
        s.root = d["id"]
        s.unit = {"i8*": 1, "i16*": 2, "i32*": 4, "i64*": 8}.get(d["ty"], 1)
        if fn.name in ("_memcpy16_s_chk", "_memcpy32_s_chk", "_memmove16_s_chk", "_memmove32_s_chk", "_memset16_s_chk", "_memset32_s_chk"):
            s.unit = 1           # these take dmax in bytes and are memory (not string) functions: 'cleared' is counted in bytes
        s.dmax = Lin.atom(m["id"]) if m and m["ty"] == "i64" else None
        s.dmaxp = m["id"] if m and m["ty"].endswith("*") else None
        bos = fn.pnames.get("destbos")
        s.destbos = Lin.atom(bos["id"]) if bos else None
        s.pinned = {"&" + s.root}
        if s.dmax is not None:
            s.pinned.add(m["id"])
        if bos:
            s.pinned.add(bos["id"])
        for zn in ("slen", "n", "count", "len"):
            zp = fn.pnames.get(zn)
            if zp is not None and zp["ty"] == "i64":
                s.pinned.add(zp["id"])
        if "out" in fn.pnames:
            s.pinned.add("&" + fn.pnames["out"]["id"])
        s.zero_loop_lines = _certified_zero_loops(eng.prog, fn)
        # (dirty, clr_first, clr_full, nul, last stored value, last loaded value, length of the string currently in dest if measured,
        #  wrote: this call stored something (zero or not) into dest, slack: since the last non-zero write dest was zeroed up to its declared end)
        #  accp: offset of the last load/store through dest, term: offset of the terminator (first zero since the last non-zero store / the element proven zero by a test)
        return (False, False, False, False, None, None, None, False, False, None, None)

    def no_inline(s, fn):
        return fn.name in s.noinline

    def on_rename(s, pl, old, new):
        """a merge phi re-expressed a dest pointer: follow it in the remembered access / terminator positions"""
        if old[1] != s.root or new[1] != s.root or len(pl) < 11:
            return pl
        a, t = pl[9], pl[10]
        if a == old[2] or t == old[2]:
            return pl[:9] + (new[2] if a == old[2] else a, new[2] if t == old[2] else t) + pl[11:]
        return pl

    # -- helpers
    def is_dest(s, p):
        return p is not None and p[0] == "p" and p[1] == s.root

    def full_len(s, n, eng, facts):
        """does a clearing length n (bytes) cover the whole declared destination?"""
        if n is None:
            return False
        if s.dmax is not None:
            db = s.dmax.scale(s.unit)
            if n == db or eng.decide(("cmp", "uge", n, db), facts) is True:
                return True
        if s.destbos is not None:
            if n == s.destbos or eng.decide(("cmp", "uge", n, s.destbos - Lin.const(s.unit - 1)), facts) is True:
                return True
        return False

    @staticmethod
    def _fmt_key(args):
        """identity of the format argument of a v/swprintf call (the SSA pointer value), or None"""
        if len(args) > 2 and args[2][0] == "p":
            return "%s+%s" % (args[2][1], args[2][2])
        return None

    def write(s, pl, p, n, zero, eng, facts, inst=None):
        r = s._write(pl[:7], p, n, zero, eng, facts)
        slack = pl[8]
        if zero:
            if r[2] and not r[0]:
                slack = True                     # the whole declared destination was cleared
            elif n is not None and s.dmax is not None and eng.decide(("cmp", "eq", p[2] + n, s.dmax.scale(s.unit)), facts) is True:
                slack = True                     # zeroed from here to dest + dmax
            elif inst is not None and (inst.get("_fn"), inst.get("line")) in s.zero_loop_lines:
                slack = True                     # a zero-only loop that capcheck certified to run exactly to dest + dmax
        else:
            slack = False
        term = (pl[10] if pl[10] is not None else p[2]) if zero else None
        return r + (True, slack, p[2], term)

    def _write(s, pl, p, n, zero, eng, facts):
        dirty, c1, cf, nul, lst, lld, slen = pl
        at0 = p[2].is_const() and p[2].c == 0
        if zero:
            ge1 = n is not None and (eng.decide(("cmp", "uge", n, Lin.const(s.unit)), facts) is True)      # at least one whole element
            if at0 and not ge1 and s.full_len(n, eng, facts):
                ge1 = True         # the whole declared destination is cleared: if that is nothing, dmax is 0 and the exit is exempt
            if at0 and ge1:
                c1 = True
                if s.full_len(n, eng, facts):
                    cf = True
                    dirty = False
                nul = True
            elif at0 and n is not None and slen is not None and n == slen.scale(s.unit):
                # memset(dest, 0, strnlen(dest)): either at least one element was cleared or dest[0] already was the terminator
                c1 = True
                nul = True
                if not dirty:
                    cf = True
            elif ge1:
                nul = True         # slack clearing / terminator somewhere in dest
            return (dirty, c1, cf, nul, None, lld, slen)
        return (True, False, False, False, None, lld, None)

    def on_event(s, pl, ev, eng, st):
        k = ev[0]
        env, facts, epoch = st
        if k == "store":
            p, v = ev[1], ev[2]
            if s.is_dest(p):
                l = eng.as_lin(v) if v[0] in ("i", "p") else None
                size = Lin.const(ev[3].get("size", 1))
                if l is not None and l.is_const() and l.c == 0:
                    return s.write(pl, p, size, True, eng, facts, inst=dict(ev[3], _fn=ev[4].fn.name))
                npl = s.write(pl, p, size, False, eng, facts)
                return npl[:4] + (l,) + npl[5:]
            return pl
        if k == "load":
            p = ev[1]
            if s.is_dest(p) and "id" in ev[2]:
                return pl[:5] + (Lin.atom(ev[3].pre + ev[2]["id"]),) + pl[6:9] + (p[2], pl[10])
            return pl
        if k == "edge":
            ct, val = ev[1], ev[2]
            lst, lld = pl[4], pl[5]
            if (lst is not None or lld is not None) and not pl[3]:
                z = s.zero_test(ct, val)
                if z is not None and (z == lst or z == lld):
                    return pl[:3] + (True,) + pl[4:10] + (pl[10] if pl[10] is not None else pl[9],)     # the element just stored / loaded is the terminator
            return pl
        if k == "indirect":
            # the formatter's output callback out(character, buffer, idx, maxlen): a store of `character` into buffer (contract of out_fct_type)
            args = ev[1]
            if len(args) == 4 and s.is_dest(args[1]):
                c = eng.as_lin(args[0]) if args[0][0] == "i" else None
                if c is not None and c.is_const() and c.c == 0:
                    return pl[:3] + (True,) + pl[4:]
                return (True, False, False, False) + pl[4:7] + (True, False, None, None)
            return pl
        if k == "handler":
            f_ = ev[6]
            while f_ is not None and f_.depth > 0:
                if f_.fn.name in ("_strnlen_s_chk", "_wcsnlen_s_chk"):
                    # the measuring call itself failed (it reports and returns 0): its result is not the length of the string in dest
                    pl = pl[:6] + (("failed-measure",),) + pl[7:]
                    break
                f_ = f_.parent
        if k == "leave" and ev[1].name in ("_strnlen_s_chk", "_wcsnlen_s_chk") and ev[2] is not None:
            if pl[6] == ("failed-measure",):
                return pl[:6] + (None,) + pl[7:]
            i, fr = ev[3], ev[4]
            a0 = eng.val(fr, i["args"][0], env)
            if s.is_dest(a0) and a0[2].is_const() and a0[2].c == 0 and ev[2][0] == "i":
                return pl[:6] + (ev[2][1],) + pl[7:]
            return pl
        if k == "handler" and s.assume_quiet:
            fr = ev[6]
            f = fr
            while f is not None and f.depth > 0:
                if f.depth == 1 and f.fn.name in s.assume_quiet and any(x in (ev[3] or "") for x in s.assume_quiet[f.fn.name]):
                    return "DROP"
                f = f.parent
        return pl

    @staticmethod
    def zero_test(ct, val):
        """Lin x such that the edge establishes x == 0, if the condition has that shape"""
        if ct[0] == "not":
            return DFlags.zero_test(ct[1], not val)
        if ct[0] == "cmp" and ct[1] in ("eq", "ne"):
            d = ct[2] - ct[3]
            iseq = (ct[1] == "eq") == val
            if iseq and len(d.t) == 1 and d.c == 0:
                (a, c), = d.t.items()
                return Lin.atom(a)
        if ct[0] == "and" and val:
            return DFlags.zero_test(ct[1], True) or DFlags.zero_test(ct[2], True)
        if ct[0] == "or" and not val:
            return DFlags.zero_test(ct[1], False) or DFlags.zero_test(ct[2], False)
        return None

    def on_call(s, pl, call, eng, st):
        env, facts, epoch = st
        if call[0] == "lib":
            callee, args = call[1], call[2]
            effs = PRIM_EFFECTS.get(callee.name)
            if effs:
                for (kind, pa, la, unit, va) in effs:
                    if pa < len(args) and s.is_dest(args[pa]):
                        n = eng.as_lin(args[la])
                        n = n.scale(unit) if n is not None else None
                        if kind == "set":
                            v = eng.as_lin(args[va])
                            pl = s.write(pl, args[pa], n, v is not None and v.is_const() and v.c == 0, eng, facts)
                        else:
                            pl = s.write(pl, args[pa], n, False, eng, facts)
                return [(pl, [])]
            # opaque library callee receiving dest: assume it honours its own contract (string in dest or cleared on error) --
            # but only where dest is the callee's own destination; handed over as a source (never written by the callee) it is left as it is
            dk = [k for k, a in enumerate(args) if s.is_dest(a)]
            if dk and all(k not in _written_params(s.prog, callee) for k in dk):
                return [(pl, [])]
            if dk:
                a0 = args[dk[0]]
                w = s.write(pl, a0, None, False, eng, facts)
                ok = w[:3] + (True,) + w[4:8] + (a0[2].is_const() and a0[2].c == 0, None, None)      # its own success leaves the slack behind its result cleared (its own C08)
                conv = s.opaque_convention.get(callee.name)
                if conv is None or not (a0[2].is_const() and a0[2].c == 0):
                    return [(ok, [])]
                # assume-guarantee: on success the callee left a string in dest; on failure it reset dest itself (its own C04/C03)
                failed = (False, True, True, True) + pl[4:7] + (True, True, None, None)
                return [(ok, [(lambda r, conv=conv: conv_success_term(conv, r), True)]),
                        (failed, [(lambda r, conv=conv: conv_success_term(conv, r), False)])]
            return [(pl, [])]
        if call[0] == "ext":
            name, eff, args = call[1], call[2], call[3]
            if name in ("strlen", "wcslen", "strnlen", "wcsnlen") and args and s.is_dest(args[0]) and args[0][2].is_const() and args[0][2].c == 0 and call[6]:
                return [(pl[:6] + (Lin.atom(call[6]),) + pl[7:], [])]
            if name in ("vswprintf", "swprintf") and args and not s.is_dest(args[0]):
                # a probe into a scratch buffer after the same format failed on dest for lack of room: the formatter is a function of its
                # format and arguments, so the probe either fails as well or needs at least the capacity that was not enough
                fk = s._fmt_key(args)
                if fk is not None and eng.decide(("cmp", "sge", Lin.atom("wfmtfail:" + fk), Lin.const(1)), facts) is True:
                    capa = Lin.atom("wfmtcap:" + fk)
                    return [(pl, [(lambda r: ("cmp", "slt", r[1], Lin.const(0)) if r[0] == "i" else ("o", "?"), True)]),
                            (pl, [(lambda r, capa=capa: ("cmp", "sge", r[1], capa) if r[0] == "i" else ("o", "?"), True)])]
            for (pa, ln) in eff.get("w", ()):
                if pa < len(args) and s.is_dest(args[pa]):
                    n = None
                    if ln[0] == "arg" and ln[1] < len(args):
                        n = eng.as_lin(args[ln[1]])
                        n = n.scale(ln[2]) if n is not None else None
                    elif ln[0] == "const":
                        n = Lin.const(ln[1])
                    zero = False
                    if name.startswith("llvm.memset") or name in ("memset", "__memset_chk", "wmemset"):
                        v = eng.as_lin(args[1])
                        zero = v is not None and v.is_const() and v.c == 0
                    if name in ("explicit_bzero", "bzero"):
                        zero = True
                    pl = s.write(pl, args[pa], n, zero, eng, facts, inst=dict(call[4], _fn=call[5].fn.name))
                    if name in ("vswprintf", "swprintf"):
                        # C11 7.29.2.3/7: a negative value is returned when n or more wide characters were requested -- nothing is promised
                        # about the array then (glibc leaves it without a terminator); only a non-negative result means a terminated string
                        done = pl[:3] + (True,) + pl[4:]
                        failed = [(lambda r: conv_success_term("neg", r), False)]
                        cap = eng.as_lin(args[1]) if len(args) > 1 else None
                        fk = s._fmt_key(args)
                        if cap is not None and fk is not None:
                            s.pinned.update(("wfmtfail:" + fk, "wfmtcap:" + fk))
                            # remembered for a later probe call with the same format (see below)
                            failed += [(("cmp", "sge", Lin.atom("wfmtfail:" + fk), Lin.const(1)), True), (("cmp", "eq", Lin.atom("wfmtcap:" + fk), cap), True)]
                        return [(done, [(lambda r: conv_success_term("neg", r), True)]), (pl, failed)]
                    if name in ("fgets", "asctime_r", "ctime_r"):
                        # these return NULL when they fail (end of file without data, read error, unrepresentable time): the array is then
                        # unchanged or indeterminate (C11 7.21.7.2/3) -- only a non-null result means a terminated string
                        done = pl[:3] + (True,) + pl[4:]
                        return [(done, [(lambda r: conv_success_term("ptr", r), True)]), (pl, [(lambda r: conv_success_term("ptr", r), False)])]
                    if name in ("strerror_r", "snprintf", "vsnprintf", "strcpy", "strncat", "strcat"):
                        pl = pl[:3] + (True,) + pl[4:]      # libc routines that terminate what they write
            return [(pl, [])]
        return [(pl, [])]


class AFlags(Plugin):
    """allocation typestate: every malloc/calloc/realloc result is null-checked before it is dereferenced and freed on every path"""
    inline_depth = 1          # small file-local helpers (a `release(a, b)` extracted from several exits) are followed, nothing else

    def init(s, eng):
        s.prog = eng.prog
        s.pinned = set()                         # facts about the nullness of allocation results are kept to the returns
        s.undecided = set()                      # observations that the current precision level cannot turn into a verdict
        return (frozenset(), frozenset())        # ({(alloc root, status)}, {violation tokens})

    def no_inline(s, fn):
        # file-local, small, loop-free helpers that allocate or release (a `release(a, b)` extracted from several exits) are followed
        return not (fn.internal and len(fn.j["blocks"]) <= 12 and not fn.loops and any(c.get("callee") in ("free", "malloc", "calloc", "realloc") for c in fn.calls()))

    @staticmethod
    def _set(allocs, root, status):
        return frozenset((r, st) for (r, st) in allocs if r != root) | {(root, status)}

    def deref(s, pl, p, what, inst, fr, eng, facts):
        allocs, viol = pl
        if p is None or p[0] != "p":
            return pl
        for (r, stt) in allocs:
            if r == p[1]:
                nn = eng.decide(("cmp", "ne", Lin.atom("&" + r), Lin.const(0)), facts)
                if nn is not True and stt != "checked":
                    viol = viol | {("unchecked-use", r, what, inst.get("line"))}
                if stt == "freed":
                    viol = viol | {("use-after-free", r, what, inst.get("line"))}
                return (allocs, viol)
        return pl

    def on_event(s, pl, ev, eng, st):
        env, facts, epoch = st
        k = ev[0]
        if k == "load":
            return s.deref(pl, ev[1], "load", ev[2], ev[3], eng, facts)
        if k == "store":
            pl = s.deref(pl, ev[1], "store", ev[3], ev[4], eng, facts)
            v = ev[2]
            if v[0] == "p":
                allocs, viol = pl
                if any(r == v[1] for (r, _) in allocs) and not (ev[1][0] == "p" and ev[1][1] in eng.positive_roots):
                    allocs = s._set(allocs, v[1], "escaped")       # ownership handed to memory the caller can see
                    return (allocs, viol)
            return pl
        return pl

    def on_call(s, pl, call, eng, st):
        env, facts, epoch = st
        allocs, viol = pl
        if call[0] == "ext":
            name, eff, args, inst, fr, vid = call[1], call[2], call[3], call[4], call[5], call[6]
            if name in ("malloc", "calloc") and vid:
                if any(r == vid and stt == "live" for (r, stt) in allocs):
                    # "this allocation executes again while its previous block is still owned" needs the numeric relation that guards the site
                    # (first-time allocation: capacity == initial size); the coarse precision level carries no such facts across iterations,
                    # so there the observation is not a verdict (it was a false alarm for wcsnorm_reorder_s / wcsnorm_compose_s)
                    if getattr(eng, "precision", "high") == "high":
                        viol = viol | {("leak-overwritten", vid, name, inst.get("line"))}
                    else:
                        s.undecided.add(("leak-overwritten", vid, inst.get("line")))
                s.pinned.add("&" + vid)
                if getattr(s, "split_alloc", False):
                    # the allocation succeeds or fails: two outcomes, so that 'failed and still returns success' is a visible path
                    nz = lambda r: ("cmp", "ne", Lin.atom("&" + r[1]) + r[2], Lin.const(0))
                    return [((s._set(allocs, vid, "live"), viol), [(nz, True)]), ((s._set(allocs, vid, "failed"), viol), [(nz, False)])]
                return [((s._set(allocs, vid, "live"), viol), [])]
            if name == "realloc" and vid:
                s.pinned.add("&" + vid)
                old = args[0]
                outs = []
                a_ok = allocs
                a_fail = allocs
                if old[0] == "p":
                    for (r, stt) in allocs:
                        if r == old[1]:
                            a_ok = s._set(a_ok, r, "freed")
                # success: old block released, new one live; failure: NULL returned, old block still owned
                outs.append(((s._set(a_ok, vid, "live"), viol), [(lambda r: ("cmp", "ne", Lin.atom("&" + r[1]) + r[2], Lin.const(0)), True)]))
                outs.append(((a_fail, viol), [(lambda r: ("cmp", "ne", Lin.atom("&" + r[1]) + r[2], Lin.const(0)), False)]))
                return outs
            if name == "free":
                p = args[0]
                if p[0] == "p":
                    for (r, stt) in allocs:
                        if r == p[1]:
                            if stt == "freed":
                                viol = viol | {("double-free", r, name, inst.get("line"))}
                            allocs = s._set(allocs, r, "freed")
                return [((allocs, viol), [])]
            # any other external routine that reads or writes through an argument dereferences it
            touched = {x[0] for x in eff.get("w", ())} | {x[0] for x in eff.get("r", ())}
            pl2 = (allocs, viol)
            for k_, a in enumerate(args):
                if a[0] == "p" and (k_ in touched or not eff):
                    pl2 = s.deref(pl2, a, "passed to %s" % name, inst, fr, eng, facts)
            return [(pl2, [])]
        if call[0] == "lib":
            callee, args, inst, fr = call[1], call[2], call[3], call[4]
            pl2 = (allocs, viol)
            chk = getattr(s, "null_dest_fails", None)
            k = callee.param_index("dest")
            for ka, a in enumerate(args):
                if a[0] == "p":
                    if ka == k and chk is not None and chk(callee):
                        continue         # the callee rejects a NULL dest itself: handing it an unchecked allocation is a checked use
                    pl2 = s.deref(pl2, a, "passed to %s" % callee.name, inst, fr, eng, facts)
            # a library function handed a NULL destination fails (its own dest-null check; confirmed per callee by null_dest_fails)
            if chk is not None and k is not None and k < len(args) and args[k][0] == "p" and callee.j["ret_ty"] == "i32":
                isnull = args[k][1] == "null" or eng.decide(("cmp", "eq", eng.as_lin(args[k]), Lin.const(0)), facts) is True
                if isnull and chk(callee):
                    return [(pl2, [(lambda r: ("cmp", "ne", r[1], Lin.const(0)) if r[0] == "i" else ("c", True), True)])]
            return [(pl2, [])]
        return [(pl, [])]


class TFlags(DFlags):
    """DFlags plus: has the destination budget (the loop counter initialised from dmax) been seen exhausted on this path?"""

    def init(s, eng):
        base = DFlags.init(s, eng)
        s.budget_phis = set()
        fn = eng.top
        m = fn.pnames.get(s.dmax_name)
        if m is not None:
            # integer loop-header phis whose value entering the loop derives from the dmax parameter (possibly through other such phis / a merge with destbos)
            seeds = {m["id"]}
            changed = True
            while changed:
                changed = False
                for i in fn.insts():
                    if i["op"] == "phi" and i["ty"] == "i64" and i["id"] not in seeds:
                        if any(x["v"].get("k") == "v" and x["v"]["id"] in seeds for x in i["incoming"]):
                            seeds.add(i["id"]); changed = True
                    elif i["op"] in ("add", "sub") and i.get("id") not in seeds and i["ops"][0].get("k") == "v" and i["ops"][0]["id"] in seeds and i["ops"][1].get("k") == "c":
                        seeds.add(i["id"]); changed = True
            s.budget_phis = {v for v in seeds if v != m["id"]}
        return base + (False,)

    def on_event(s, pl, ev, eng, st):
        if ev[0] == "edge" and not pl[-1]:
            ct, val = ev[1], ev[2]
            z = DFlags.zero_test(ct, val)
            if z is None and ct[0] == "cmp" and ct[1] in ("ugt", "ult", "uge", "ule"):
                # x > 0 false  /  x < 1 true ...
                d = ct[2] - ct[3]
                pred = ct[1] if val else {"ugt": "ule", "ule": "ugt", "ult": "uge", "uge": "ult"}[ct[1]]
                if len(d.t) == 1:
                    (a, c), = d.t.items()
                    if (pred == "ule" and c == 1 and d.c == 0) or (pred == "ult" and c == 1 and d.c == -1) or (pred == "uge" and c == -1 and d.c == 0) or (pred == "ugt" and c == -1 and d.c == 1):
                        z = Lin.atom(a)
            if z is not None and len(z.t) == 1:
                a = list(z.t)[0]
                if a.split("/")[-1] in s.budget_phis and "/" not in a and not pl[3] and pl[0]:
                    # the budget ran out while the call had written data but no terminator yet (a slack-clearing loop runs with a terminator in place)
                    r = DFlags.on_event(s, pl[:-1], ev, eng, st)
                    return r if r == "DROP" else r + (True,)
        r = DFlags.on_event(s, pl[:-1], ev, eng, st)
        return r if r == "DROP" else r + (pl[-1],)

    def on_call(s, pl, call, eng, st):
        return [(p + (pl[-1],), a) for (p, a) in DFlags.on_call(s, pl[:-1], call, eng, st)]
