"""Relational value-set abstract interpretation of a byte-comparison loop (C19 result clause).

The two byte streams are abstracted to the *relation* of the current byte pair -- LT, EQ or GT (unsigned) -- which is all a
comparison function may depend on.  Integer SSA values are abstract elements
    ("set", frozenset of ints)        at most 48 values,
    ("rng", lo, hi)                   a contiguous range (used when a set would be larger),
    ("byte", 1|2)                     the current byte of the first / second operand (only sub and xor consume it),
    None                              unknown.
The loop body is evaluated once per relation from every reachable abstract state of the loop-carried values that can flow into
the returned value (other header phis -- counters, cursors -- are unknown from the start), to a fixpoint; each state carries
a ghost: the sign of the first differing pair seen so far (0 = none).  At the loop exit the returned expression is evaluated on
the state and compared with what the ghost demands.  Nothing is executed; a loop body that branches on data is not handled
(reported to the caller as undecidable -- C19's other clause forbids such a branch anyway)."""
from itertools import product

MAXSET = 48
CASES = ("LT", "EQ", "GT")


def mk(vals):
    vals = frozenset(vals)
    if len(vals) <= MAXSET:
        return ("set", vals)
    return ("rng", min(vals), max(vals))


def _vals(a):
    if a is None:
        return None
    if a[0] == "set":
        return a[1]
    if a[0] == "rng" and a[2] - a[1] < 4096:
        return frozenset(range(a[1], a[2] + 1))
    return None


def _wrap(v, bits):
    m = 1 << bits
    v &= m - 1
    return v - m if v >= m >> 1 else v


def binop(op, a, b, bits, case):
    if a is None or b is None:
        return None
    if a[0] == "byte" or b[0] == "byte":
        if a[0] == "byte" and b[0] == "byte" and a[1] != b[1]:
            rel = case if a[1] == 1 else {"LT": "GT", "GT": "LT", "EQ": "EQ"}[case]      # relation of a to b
            if op == "sub":
                return {"LT": ("rng", -255, -1), "EQ": ("set", frozenset([0])), "GT": ("rng", 1, 255)}[rel]
            if op == "xor":
                return ("set", frozenset([0])) if rel == "EQ" else ("rng", 1, 255)
        return None
    if op in ("or", "and", "xor") and (a[0] == "rng" or b[0] == "rng"):
        # only what the accumulators need: or-ing non-negative values keeps (at least) the larger lower bound
        la, ha = (a[1], a[2]) if a[0] == "rng" else (min(a[1]), max(a[1]))
        lb, hb = (b[1], b[2]) if b[0] == "rng" else (min(b[1]), max(b[1]))
        if op == "or" and la >= 0 and lb >= 0:
            hi = (1 << max(ha, hb, 1).bit_length()) - 1
            return ("rng", max(la, lb), hi)
        return None
    va, vb = _vals(a), _vals(b)
    if va is None or vb is None or len(va) * len(vb) > 8192:
        if op in ("add", "sub") and a[0] in ("rng", "set") and b[0] in ("rng", "set"):
            la, ha = (a[1], a[2]) if a[0] == "rng" else (min(a[1]), max(a[1]))
            lb, hb = (b[1], b[2]) if b[0] == "rng" else (min(b[1]), max(b[1]))
            return ("rng", la + lb, ha + hb) if op == "add" else ("rng", la - hb, ha - lb)
        return None
    f = {"add": lambda x, y: x + y, "sub": lambda x, y: x - y, "and": lambda x, y: x & y, "or": lambda x, y: x | y, "xor": lambda x, y: x ^ y,
         "mul": lambda x, y: x * y, "ashr": lambda x, y: x >> y if 0 <= y < bits else 0,
         "lshr": lambda x, y: (x & ((1 << bits) - 1)) >> y if 0 <= y < bits else 0, "shl": lambda x, y: x << y if 0 <= y < bits else 0}.get(op)
    if f is None:
        return None
    return mk(_wrap(f(x, y), bits) for x in va for y in vb)


def icmp(pred, a, b, bits):
    if a is None or b is None or a[0] == "byte" or b[0] == "byte":
        return None
    if a[0] == "rng" and b[0] == "set" and b[1] == frozenset([0]) and pred in ("ne", "eq") and (a[1] > 0 or a[2] < 0):
        return ("set", frozenset([1 if pred == "ne" else 0]))
    va, vb = _vals(a), _vals(b)
    if va is None or vb is None:
        return None
    u = lambda x: x & ((1 << bits) - 1)
    f = {"eq": lambda x, y: x == y, "ne": lambda x, y: x != y, "slt": lambda x, y: x < y, "sle": lambda x, y: x <= y, "sgt": lambda x, y: x > y, "sge": lambda x, y: x >= y,
         "ult": lambda x, y: u(x) < u(y), "ule": lambda x, y: u(x) <= u(y), "ugt": lambda x, y: u(x) > u(y), "uge": lambda x, y: u(x) >= u(y)}[pred]
    return mk(int(f(x, y)) for x in va for y in vb)


class Undecidable(Exception):
    pass


def _bits(ty):
    return int(ty[1:]) if ty.startswith("i") and ty[1:].isdigit() else 64


def analyse_loop(fn, roots):
    """roots: {param id: 1|2} for the two operands.  Returns dict(states, exits=[(ghost, abstract return value)], relevant=[phi ids])."""
    if len(fn.loops) != 1:
        raise Undecidable("expected exactly one loop, found %d" % len(fn.loops))
    (h, L), = fn.loops.items()
    inside = L["_set"]
    # pointer -> operand (1|2) through geps and header phis
    which = dict(roots)
    changed = True
    while changed:
        changed = False
        for i in fn.insts():
            if "id" not in i or i["id"] in which or not i.get("ty", "").endswith("*"):
                continue
            src = None
            if i["op"] == "getelementptr":
                src = i["base"].get("id")
            elif i["op"] in ("bitcast",):
                src = i["ops"][0].get("id")
            elif i["op"] == "phi":
                ws = {which.get(x["v"].get("id")) for x in i["incoming"]} - {None}
                if len(ws) == 1:
                    which[i["id"]] = ws.pop(); changed = True
                continue
            if src in which:
                which[i["id"]] = which[src]; changed = True
    # the value returned over the loop-exit path
    from .ir import return_sites
    exits = [sc for b in L["blocks"] for sc in fn.succ[b] if sc not in inside]
    if len(set(exits)) != 1:
        raise Undecidable("loop with %d exits" % len(set(exits)))
    xb = exits[0]
    leaf = None
    for r in fn.rets():
        o = r["ops"][0] if r.get("ops") else None
        while o is not None and o.get("k") == "v":
            d = fn.defs.get(o["id"])
            if d is not None and d["op"] == "phi" and d["_bb"] not in inside:
                nxt = [inc["v"] for inc in d["incoming"] if inc["bb"] == xb or fn.dominates(xb, inc["bb"])]
                if len(nxt) != 1:
                    o = None
                    break
                o = nxt[0]
                continue
            break
        if o is not None and o.get("k") == "v":
            leaf = o
    if leaf is None:
        raise Undecidable("no returned value computed behind the loop")
    hphis = [i for i in fn.blocks[h]["insts"] if i["op"] == "phi" and not i["ty"].endswith("*")]
    # relevance: header phis in the backward slice of the returned value
    rel = set()
    todo = [leaf["id"]]
    while todo:
        v = todo.pop()
        if v in rel:
            continue
        rel.add(v)
        d = fn.defs.get(v)
        if d is None:
            continue
        for o in list(d.get("ops", ())) + [x["v"] for x in d.get("incoming", ())]:
            if o.get("k") == "v":
                todo.append(o["id"])
    rel_phis = [p for p in hphis if p["id"] in rel]
    if not rel_phis:
        raise Undecidable("the returned value does not depend on any loop-carried value")
    order = [b for b in fn.order if b in inside]
    for b in order:
        t = fn.term(b)
        if t["op"] == "br" and "cond" in t and b != h:
            raise Undecidable("conditional branch inside the loop body (%s)" % b)
        if t["op"] == "switch":
            raise Undecidable("switch inside the loop body")

    def evaluate(env, blocks, case):
        for b in blocks:
            for i in fn.blocks[b]["insts"]:
                if "id" not in i or i["op"] == "phi":
                    continue
                op = i["op"]
                bits = _bits(i.get("ty", "i64"))

                def val(o):
                    if o.get("k") == "c":
                        return ("set", frozenset([_wrap(o["v"], _bits("i%d" % o.get("bits", 64)))]))
                    if o.get("k") == "v":
                        return env.get(o["id"])
                    return None
                r = None
                if op == "load":
                    w = which.get(i["ops"][0].get("id"))
                    r = ("byte", w) if w in (1, 2) and i.get("ty") == "i8" else None
                elif op in ("zext", "sext", "trunc"):
                    a = val(i["ops"][0])
                    if a is not None and a[0] == "byte":
                        r = a if op == "zext" else None
                    elif a is not None and op == "zext":
                        sb = _bits(i["ops"][0].get("ty", "i1"))
                        va = _vals(a)
                        r = mk(x & ((1 << sb) - 1) for x in va) if va is not None else None
                    elif a is not None and op == "sext":
                        r = a
                    elif a is not None:
                        va = _vals(a)
                        r = mk(_wrap(x, bits) for x in va) if va is not None else None
                elif op == "icmp":
                    r = icmp(i["pred"], val(i["ops"][0]), val(i["ops"][1]), _bits(i["ops"][0].get("ty", "i64")))
                elif op == "select":
                    c, a, b2 = val(i["ops"][0]), val(i["ops"][1]), val(i["ops"][2])
                    if c is not None and c[0] == "set" and len(c[1]) == 1:
                        r = a if 1 in c[1] or -1 in c[1] else b2
                elif op in ("add", "sub", "and", "or", "xor", "mul", "ashr", "lshr", "shl"):
                    r = binop(op, val(i["ops"][0]), val(i["ops"][1]), bits, case)
                env[i["id"]] = r
        return env

    init = {}
    for p in rel_phis:
        for inc in p["incoming"]:
            if inc["bb"] not in inside:
                init[p["id"]] = ("set", frozenset([inc["v"]["v"]])) if inc["v"].get("k") == "c" else None
    start = (tuple(init[p["id"]] for p in rel_phis), 0)
    seen = {start}
    work = [start]
    body = [b for b in order]
    while work:
        (vals, ghost) = work.pop()
        if len(seen) > 4000:
            raise Undecidable("more than 4000 abstract states")
        for case in CASES:
            env = {p["id"]: v for p, v in zip(rel_phis, vals)}
            evaluate(env, body, case)
            nxt = []
            for p in rel_phis:
                v = None
                for inc in p["incoming"]:
                    if inc["bb"] in inside:
                        v = env.get(inc["v"]["id"]) if inc["v"].get("k") == "v" else ("set", frozenset([inc["v"]["v"]]))
                nxt.append(v)
            g = ghost if ghost != 0 else {"LT": -1, "EQ": 0, "GT": 1}[case]
            # split small sets into concrete successor states (keeps the accumulators exact)
            choices = [[("set", frozenset([x])) for x in sorted(v[1])] if v is not None and v[0] == "set" and len(v[1]) <= 4 else [v] for v in nxt]
            for combo in product(*choices):
                st = (tuple(combo), g)
                if st not in seen:
                    seen.add(st)
                    work.append(st)
    # value returned from each reachable state: the blocks between the loop exit and the return, evaluated on the header phis
    tail = [b for b in fn.order if b not in inside and (b == xb or fn.dominates(xb, b))]
    out = []
    for (vals, ghost) in seen:
        env = {p["id"]: v for p, v in zip(rel_phis, vals)}
        evaluate(env, tail, "EQ")
        out.append((ghost, env.get(leaf["id"])))
    return dict(states=len(seen), exits=out, relevant=[p["id"] for p in rel_phis])
