"""Sibling copy loops must keep the same books (cross-check of symmetric implementations, Engler-style contradiction rule).

Several copy/concatenation functions hold the same element loop twice -- one copy for `dest < src`, one for `dest > src`, differing only in
which cursor is compared with the overlap bumper.  Both copies start from the same state (the values live at the branch that selects
them), so a loop-carried variable is identified by the value it starts from, not by a name.  Rule: two loops of one function that lie on
alternative branches (neither reaches the other), both copy an element loaded through one cursor to a store through another, and start at
least two of their stepped variables from the same values, must step the same set of start values by the same constants.  A variable one
of them steps and the other leaves alone is a dropped line in one of two symmetric paths: every test that variable feeds (the source-size
limit, the slen budget, the dmax budget) is dead in that branch.  Nothing is executed."""


def _strip(fn, o):
    while o.get("k") == "v":
        d = fn.defs.get(o["id"])
        if d is None or d["op"] not in ("bitcast", "zext", "sext", "trunc"):
            break
        o = d["ops"][0]
    return o


def _key(fn, o, depth=0):
    o = _strip(fn, o)
    if o.get("k") == "v":
        d = fn.defs.get(o["id"])
        if d is not None and d["op"] == "phi" and d.get("_bb") in fn.loops and depth < 3:
            # the value an earlier loop leaves behind (the "find the end of dest" scan each branch runs first): named by where that loop
            # started and how it steps, so that the two branches' copies of it are the same start value
            inside = fn.loops[d["_bb"]]["_set"]
            outs = [x["v"] for x in d["incoming"] if x["bb"] not in inside]
            dl = _delta(fn, d, inside)
            if len(outs) == 1 and dl not in (None, 0):
                return ("after-loop", _key(fn, outs[0], depth + 1), dl)
        return ("v", o["id"])
    if o.get("k") == "c":
        return ("c", o.get("v"))
    return (o.get("k"),)


def _delta(fn, phi, inside):
    """the constant every in-loop incoming value adds to the phi (element/byte units as in the IR), 'varies', or None if some incoming
    is not phi + constant"""
    ds = set()

    def walk(o, acc, seen):
        o = _strip(fn, o)
        if o.get("k") != "v":
            return False
        if o["id"] == phi["id"]:
            ds.add(acc)
            return True
        if o["id"] in seen:
            return True
        d = fn.defs.get(o["id"])
        if d is None or d.get("_bb") not in inside:
            return False
        seen = seen | {o["id"]}
        if d["op"] == "getelementptr" and not d.get("terms"):
            return walk(d["base"], acc + d.get("coff", 0), seen)
        if d["op"] in ("add", "sub") and d["ops"][1].get("k") == "c":
            c = d["ops"][1]["v"]
            bits = d.get("bits", 64)
            c = c - (1 << bits) if c >= (1 << (bits - 1)) else c
            return walk(d["ops"][0], acc + (c if d["op"] == "add" else -c), seen)
        if d["op"] == "phi":
            return all(walk(x["v"], acc, seen) for x in d["incoming"])
        if d["op"] == "select":
            return walk(d["ops"][1], acc, seen) and walk(d["ops"][2], acc, seen)
        return False
    ok = all(walk(x["v"], 0, frozenset()) for x in phi["incoming"] if x["bb"] in inside)
    if not ok:
        return None
    ds.discard(0)
    if not ds:
        return 0
    return next(iter(ds)) if len(ds) == 1 else "varies"


def stepped(fn, h):
    """{start key: (delta, phi id)} of the header phis of loop h that the loop changes by a constant"""
    inside = fn.loops[h]["_set"]
    out = {}
    for i in fn.blocks[h]["insts"]:
        if i["op"] != "phi":
            continue
        outs = [x["v"] for x in i["incoming"] if x["bb"] not in inside]
        if len(outs) != 1:
            continue
        d = _delta(fn, i, inside)
        if d is None or d == 0:
            continue
        out.setdefault(_key(fn, outs[0]), []).append((d, i["id"]))
    return out


def is_copy_loop(fn, h):
    inside = fn.loops[h]["_set"]
    hp = {i["id"] for i in fn.blocks[h]["insts"] if i["op"] == "phi"}

    def cursor(o):
        o = _strip(fn, o)
        for _ in range(4):
            if o.get("k") != "v":
                return None
            if o["id"] in hp:
                return o["id"]
            d = fn.defs.get(o["id"])
            if d is None or d["op"] != "getelementptr":
                return None
            o = _strip(fn, d["base"])
        return None
    for bb in inside:
        for i in fn.blocks[bb]["insts"]:
            if i["op"] == "store":
                v = _strip(fn, i["ops"][0])
                d = fn.defs.get(v.get("id")) if v.get("k") == "v" else None
                if d is not None and d["op"] == "load" and d.get("_bb") in inside:
                    a, b = cursor(i["ops"][1]), cursor(d["ops"][0])
                    if a and b and a != b:
                        return True
    return False


def _reach(fn, start, avoid=()):
    seen, todo = set(), [start]
    while todo:
        b = todo.pop()
        if b in seen or b in avoid:
            continue
        seen.add(b)
        t = fn.term(b)
        for k in ("t", "f"):
            if k in t:
                todo.append(t[k])
        for c in t.get("cases", ()):
            todo.append(c["bb"] if isinstance(c, dict) else c)
        if "default" in t:
            todo.append(t["default"])
    return seen


def sibling_pairs(fn):
    """[(h1, h2, stepped1, stepped2)] for copy loops on alternative branches that share at least two start values"""
    heads = [h for h in fn.loops if is_copy_loop(fn, h)]
    out = []
    reach = {h: _reach(fn, h) for h in heads}
    for a in range(len(heads)):
        for b in range(a + 1, len(heads)):
            h1, h2 = heads[a], heads[b]
            if h2 in reach[h1] or h1 in reach[h2]:
                continue
            s1, s2 = stepped(fn, h1), stepped(fn, h2)
            if len(set(s1) & set(s2)) >= 2:
                out.append((h1, h2, s1, s2))
    return out


def _tests(fn, h, phi_id):
    """keys of what the variable (or its stepped value) is compared with inside loop h"""
    inside = fn.loops[h]["_set"]
    vals = {phi_id}
    for _ in range(3):
        for bb in inside:
            for i in fn.blocks[bb]["insts"]:
                if "id" in i and i["op"] in ("add", "sub", "zext", "sext", "trunc") and i["ops"][0].get("id") in vals:
                    vals.add(i["id"])
    out = set()
    for bb in inside:
        for i in fn.blocks[bb]["insts"]:
            if i["op"] == "icmp":
                a, b = (_strip(fn, o) for o in i["ops"])
                if a.get("id") in vals:
                    out.add(_key(fn, b))
                elif b.get("id") in vals:
                    out.add(_key(fn, a))
    return out


def _tests_frozen(fn, h, k, others):
    """does loop h compare the *start value* k itself (a loop-invariant there) with one of `others`?  -> the instruction"""
    inside = fn.loops[h]["_set"]
    for bb in inside:
        for i in fn.blocks[bb]["insts"]:
            if i["op"] == "icmp":
                ka, kb = _key(fn, i["ops"][0]), _key(fn, i["ops"][1])
                if (ka == k and kb in others) or (kb == k and ka in others):
                    return i
    return None


def _mentions(fn, h, k):
    inside = fn.loops[h]["_set"]
    for bb in inside:
        for i in fn.blocks[bb]["insts"]:
            if i["op"] == "icmp" and any(_key(fn, o) == k for o in i["ops"]):
                return True
            if i["op"] == "phi" and bb == h and any(_key(fn, x["v"]) == k for x in i["incoming"] if x["bb"] not in inside):
                return True
    return False


def disagreements(fn):
    """[(stepping loop, silent loop, start key, delta, phi id, the dead test)]: one loop steps a variable and tests it against X, its
    sibling tests the variable's start value against the same X but never steps it.  (A variable only one of them *has* -- an index
    introduced by rewriting one copy -- is not a contradiction and is not reported.)"""
    out = []
    for (h1, h2, s1, s2) in sibling_pairs(fn):
        for (ha, sa, hb, sb) in ((h1, s1, h2, s2), (h2, s2, h1, s1)):
            for k, lst in sa.items():
                if len(lst) <= len(sb.get(k, [])):
                    continue
                for (d, pid) in lst:
                    others = _tests(fn, ha, pid)
                    t = _tests_frozen(fn, hb, k, others) if others else None
                    if t is not None:
                        out.append((ha, hb, k, d, pid, t))
                        break
                    # second form: the dead test is gone altogether (a test of an unchanged value that an earlier check of the function
                    # already decided is folded away when the IR is built): an integer budget taken from the function's state that one
                    # loop steps and tests and the other never even looks at.  Pointers and constant-started counters are left to the
                    # first form -- a copy rewritten with an index legitimately has other cursors and counters.
                    ty = fn.defs.get(pid, {}).get("ty", "")
                    if others and k[0] != "c" and ty.startswith("i") and not _mentions(fn, hb, k):
                        out.append((ha, hb, k, d, pid, fn.blocks[hb]["insts"][-1]))
                        break
    return out


MIN_PAIRS = 8


def _feeds_size_limit(fn, h, phi_id):
    """is the variable (or its stepped value) compared with an object-size parameter (srcbos, destbos ..) in loop h?"""
    inside = fn.loops[h]["_set"]
    bos = {p["id"] for p in fn.j["params"] if p["name"].endswith("bos")}
    vals = {phi_id}
    for _ in range(3):
        for bb in inside:
            for i in fn.blocks[bb]["insts"]:
                if "id" in i and i["op"] in ("add", "sub", "zext", "sext", "trunc", "phi") and any(
                        (o.get("id") in vals) for o in (i.get("ops") or [x["v"] for x in i.get("incoming", ())])):
                    vals.add(i["id"])
    for bb in inside:
        for i in fn.blocks[bb]["insts"]:
            if i["op"] == "icmp":
                ids = [_strip(fn, o).get("id") for o in i["ops"]]
                if any(x in vals for x in ids) and any(x in bos for x in ids):
                    return True
    return False


def rule(prog, report, prop, funcs=None, floor=MIN_PAIRS, broken=None):
    """prop 'C02': disagreements on a variable that is compared with an object-size limit (the source scan limit); prop 'C06': all others
    (the slen / dmax budgets and the cursors: the result is not the standard function's)"""
    pairs = 0
    for fn in (funcs if funcs is not None else prog.allfuncs):
        if not fn.loops:
            continue
        ps = sibling_pairs(fn)
        pairs += len(ps)
        if not ps:
            continue
        for (ha, hb, k, d, pid, dead) in disagreements(fn):
            limit = _feeds_size_limit(fn, ha, pid)
            if (prop == "C02") != limit:
                continue
            la = fn.blocks[ha]["insts"][-1].get("line") or fn.line
            lb = dead.get("line") or fn.blocks[hb]["insts"][-1].get("line") or fn.line
            name = fn.name[1:-4] if fn.name.startswith("_") and fn.name.endswith("_chk") else fn.name
            what = ("the loop's source-size limit test is dead in that branch: an unterminated source is read past its object" if limit else
                    "the budget or position it keeps is wrong in that branch: the result differs from the standard function's")
            report("%s:sibling-loops-disagree:%s:%s" % (prop, name, pid.lstrip("%").split(".")[0]), "X-symmetric-loops-keep-the-same-books", "%s:%s" % (fn.file, lb),
                   "%s: the copy loop at line %s steps %s by %s every element and tests it; its sibling for the other placement of dest and src (line %s) makes that test on a value it never steps, or not at all -- %s"
                   % (name, la, pid, d, lb, what))
    if broken is not None and pairs < floor:
        broken("sibling rule: only %d pairs of symmetric copy loops found (< %d)" % (pairs, floor))
    return pairs
