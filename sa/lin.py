"""Linear forms over atoms and a small Fourier-Motzkin entailment test (the only arithmetic decision procedure used)."""
from fractions import Fraction as Fr
from collections import defaultdict


class Lin:
    __slots__ = ("t", "c", "_k")

    def __init__(s, t=None, c=0):
        s.t = {k: Fr(v) for k, v in (t or {}).items() if v != 0}
        s.c = Fr(c)
        s._k = None

    @staticmethod
    def atom(a):
        return Lin({a: 1}, 0)

    @staticmethod
    def const(c):
        return Lin({}, c)

    def __add__(s, o):
        t = dict(s.t)
        for k, v in o.t.items():
            t[k] = t.get(k, 0) + v
        return Lin(t, s.c + o.c)

    def __neg__(s):
        return Lin({k: -v for k, v in s.t.items()}, -s.c)

    def __sub__(s, o):
        return s + (-o)

    def scale(s, k):
        return Lin({a: v * k for a, v in s.t.items()}, s.c * k)

    def is_const(s):
        return not s.t

    def atoms(s):
        return set(s.t)

    def subst(s, a, l):
        if a not in s.t:
            return s
        k = s.t[a]
        r = Lin({x: v for x, v in s.t.items() if x != a}, s.c)
        return r + l.scale(k)

    def key(s):
        if s._k is None:
            s._k = (tuple(sorted(s.t.items())), s.c)
        return s._k

    def __eq__(s, o):
        return isinstance(o, Lin) and s.key() == o.key()

    def __hash__(s):
        return hash(s.key())

    def __repr__(s):
        parts = []
        for a, v in sorted(s.t.items()):
            parts.append(("%s" % a) if v == 1 else ("-%s" % a) if v == -1 else "%s*%s" % (v, a))
        if s.c != 0 or not parts:
            parts.append(str(s.c))
        return " + ".join(parts).replace("+ -", "- ")


def fm_unsat(cons, limit=3000):
    """True if {l >= 0 for l in cons} has no rational solution (Fourier-Motzkin elimination)."""
    cons = list({c.key(): c for c in cons}.values())
    while True:
        nc = []
        for c in cons:
            if c.is_const():
                if c.c < 0:
                    return True
            else:
                nc.append(c)
        cons = nc
        if not cons:
            return False
        occ = defaultdict(lambda: [0, 0])
        for c in cons:
            for a, v in c.t.items():
                occ[a][0 if v > 0 else 1] += 1
        var = min(occ, key=lambda a: occ[a][0] * occ[a][1] - occ[a][0] - occ[a][1])
        pos = [c for c in cons if c.t.get(var, 0) > 0]
        neg = [c for c in cons if c.t.get(var, 0) < 0]
        rest = [c for c in cons if var not in c.t]
        new = []
        for p in pos:
            for n in neg:
                a = p.t[var]
                b = -n.t[var]
                new.append(p.scale(b) + n.scale(a))
        cons = list({c.key(): c for c in rest + new}.values())
        if len(cons) > limit:
            return False      # give up = not proven


_ENT_MEMO = {}


def tighten(g):
    """integer tightening of g >= 0: divide by the gcd of the (integer) coefficients and round the constant down"""
    from math import gcd, floor
    cs = list(g.t.values())
    if not cs or any(c.denominator != 1 for c in cs):
        return g
    d = 0
    for c in cs:
        d = gcd(d, abs(int(c)))
    if d <= 1:
        return g
    return Lin({a: c / d for a, c in g.t.items()}, floor(g.c / d))


def entails(facts, goal):
    """facts |= goal >= 0 over the integers (goal's negation is goal <= -1).
    Only the facts connected to the goal through shared atoms are handed to the elimination; results are memoised."""
    if goal.is_const():
        return goal.c >= 0
    goal = tighten(goal)
    facts = list(facts)
    atoms = set(goal.t)
    rel = []
    rest = facts
    changed = True
    while changed and rest:
        changed = False
        nr = []
        for f in rest:
            if any(a in atoms for a in f.t):
                rel.append(f)
                atoms.update(f.t)
                changed = True
            else:
                nr.append(f)
        rest = nr
    key = (frozenset(f.key() for f in rel), goal.key())
    r = _ENT_MEMO.get(key)
    if r is None:
        r = fm_unsat(rel + [(-goal) + Lin.const(-1)])
        if len(_ENT_MEMO) > 400000:
            _ENT_MEMO.clear()
        _ENT_MEMO[key] = r
    return r


def satisfiable(facts):
    return not fm_unsat(list(facts))


def nullspace(M, n):
    """basis of {x : M x = 0}"""
    M = [list(r) for r in M]
    piv = []
    r = 0
    for c in range(n):
        p = None
        for i in range(r, len(M)):
            if M[i][c] != 0:
                p = i
                break
        if p is None:
            continue
        M[r], M[p] = M[p], M[r]
        k = M[r][c]
        M[r] = [x / k for x in M[r]]
        for i in range(len(M)):
            if i != r and M[i][c] != 0:
                f = M[i][c]
                M[i] = [x - f * y for x, y in zip(M[i], M[r])]
        piv.append(c)
        r += 1
        if r == len(M):
            break
    free = [c for c in range(n) if c not in piv]
    out = []
    for fcol in free:
        v = [Fr(0)] * n
        v[fcol] = Fr(1)
        for i, pc in enumerate(piv):
            v[pc] = -M[i][fcol]
        out.append(v)
    return out
