"""Effect signatures of external (libc / compiler) routines the library calls.

Length specs:  ("arg", i, unit)   bytes = arg_i * unit
               ("const", n)       at most n bytes
               ("nul",)           up to and including the terminator of that same argument (not bounded by an argument)
               ("argnul", i, u)   min(arg_i*u, up to and including the terminator)
               ("unb",)           not bounded by anything the callee is told
 w = writes through argument, r = reads through argument.
 ret_le = index of the argument that bounds the (unsigned) result, 0 <= ret <= arg.
 ret_count = (buffer argument, element size): the result is the number of elements stored into that buffer (terminator not counted).
Everything not listed here and not defined in the library is *unmodelled*.
"""

A = "arg"
EXTERNAL = {
    # ---- memory
    "memset":        dict(ret_arg=0, w=[(0, (A, 2, 1))]),
    "memcpy":        dict(ret_arg=0, w=[(0, (A, 2, 1))], r=[(1, (A, 2, 1))]),
    "memmove":       dict(ret_arg=0, w=[(0, (A, 2, 1))], r=[(1, (A, 2, 1))]),
    "__memset_chk":  dict(ret_arg=0, w=[(0, (A, 2, 1))]),
    "__memcpy_chk":  dict(ret_arg=0, w=[(0, (A, 2, 1))], r=[(1, (A, 2, 1))]),
    "__memmove_chk": dict(ret_arg=0, w=[(0, (A, 2, 1))], r=[(1, (A, 2, 1))]),
    "wmemset":       dict(ret_arg=0, w=[(0, (A, 2, 4))]),
    "wmemcpy":       dict(ret_arg=0, w=[(0, (A, 2, 4))], r=[(1, (A, 2, 4))]),
    "wmemmove":      dict(ret_arg=0, w=[(0, (A, 2, 4))], r=[(1, (A, 2, 4))]),
    "explicit_bzero": dict(w=[(0, (A, 1, 1))], barrier=True),
    "memset_explicit": dict(w=[(0, (A, 2, 1))], barrier=True),
    "bzero":         dict(w=[(0, (A, 1, 1))]),
    "memchr":        dict(ret_arg=0, r=[(0, (A, 2, 1))]),
    "memrchr":       dict(ret_arg=0, r=[(0, (A, 2, 1))]),
    "memcmp":        dict(r=[(0, (A, 2, 1)), (1, (A, 2, 1))]),
    "malloc":        dict(alloc=True),
    "calloc":        dict(alloc=True),
    "realloc":       dict(alloc=True, frees=0, ret_arg=0),
    "free":          dict(frees=0),
    # ---- strings (readers)
    "strlen":        dict(r=[(0, ("nul",))]),
    "strnlen":       dict(r=[(0, ("argnul", 1, 1))], ret_le=1),
    "wcslen":        dict(r=[(0, ("nul",))]),
    "wcsnlen":       dict(r=[(0, ("argnul", 1, 4))], ret_le=1),
    "strchr":        dict(ret_arg=0, r=[(0, ("nul",))]),
    "strrchr":       dict(ret_arg=0, r=[(0, ("nul",))]),
    "strstr":        dict(ret_arg=0, r=[(0, ("nul",)), (1, ("nul",))]),
    "strcmp":        dict(r=[(0, ("nul",)), (1, ("nul",))]),
    "strncmp":       dict(r=[(0, ("argnul", 2, 1)), (1, ("argnul", 2, 1))]),
    "strcoll":       dict(r=[(0, ("nul",)), (1, ("nul",))]),
    "wcscoll":       dict(r=[(0, ("nul",)), (1, ("nul",))]),
    "wcscmp":        dict(r=[(0, ("nul",)), (1, ("nul",))]),
    "wcschr":        dict(ret_arg=0, r=[(0, ("nul",))]),
    "strspn":        dict(r=[(0, ("nul",)), (1, ("nul",))]),
    "strcspn":       dict(r=[(0, ("nul",)), (1, ("nul",))]),
    "strpbrk":       dict(ret_arg=0, r=[(0, ("nul",)), (1, ("nul",))]),
    "atoi":          dict(r=[(0, ("nul",))]),
    "strtol":        dict(r=[(0, ("nul",))], w=[(1, ("const", 8))]),
    "strtoul":       dict(r=[(0, ("nul",))], w=[(1, ("const", 8))]),
    # ---- strings (writers)
    "strcpy":        dict(ret_arg=0, w=[(0, ("unb",))], r=[(1, ("nul",))]),
    "strncpy":       dict(ret_arg=0, w=[(0, (A, 2, 1))], r=[(1, ("argnul", 2, 1))]),
    "strcat":        dict(ret_arg=0, w=[(0, ("unb",))], r=[(0, ("nul",)), (1, ("nul",))]),
    "strncat":       dict(ret_arg=0, w=[(0, ("unb",))], r=[(0, ("nul",)), (1, ("argnul", 2, 1))]),
    "wcscpy":        dict(ret_arg=0, w=[(0, ("unb",))], r=[(1, ("nul",))]),
    "wcsncpy":       dict(ret_arg=0, w=[(0, (A, 2, 4))], r=[(1, ("argnul", 2, 4))]),
    "wcscat":        dict(ret_arg=0, w=[(0, ("unb",))], r=[(0, ("nul",)), (1, ("nul",))]),
    "sprintf":       dict(gram="printf", w=[(0, ("unb",))], r=[(1, ("nul",))], fmt=1),
    "snprintf":      dict(gram="printf", w=[(0, (A, 1, 1))], r=[(2, ("nul",))], fmt=2),
    "vsprintf":      dict(gram="printf", w=[(0, ("unb",))], r=[(1, ("nul",))], fmt=1, va=2),
    "vsnprintf":     dict(ret_count=(0, 1), gram="printf", w=[(0, (A, 1, 1))], r=[(2, ("nul",))], fmt=2, va=3),
    "__snprintf_chk": dict(gram="printf", w=[(0, (A, 1, 1))], fmt=4),
    "swprintf":      dict(gram="wprintf", w=[(0, (A, 1, 4))], r=[(2, ("nul",))], fmt=2),
    "vswprintf":     dict(ret_count=(0, 4), gram="wprintf", w=[(0, (A, 1, 4))], r=[(2, ("nul",))], fmt=2, va=3),
    # ---- multibyte
    "mbstowcs":      dict(ret_count=(0, 4), w=[(0, (A, 2, 4))], r=[(1, ("nul",))]),
    "wcstombs":      dict(ret_count=(0, 1), w=[(0, (A, 2, 1))], r=[(1, ("argnul", 2, 4))]),    # stops after arg2 bytes: at most arg2 wide characters are read
    "mbsrtowcs":     dict(ret_count=(0, 4), w=[(0, (A, 2, 4)), (1, ("const", 8)), (3, ("const", 8))], r=[(1, ("const", 8))]),
    "wcsrtombs":     dict(ret_count=(0, 1), w=[(0, (A, 2, 1)), (1, ("const", 8)), (3, ("const", 8))], r=[(1, ("const", 8))]),
    "wcrtomb":       dict(w=[(0, ("const", 16)), (2, ("const", 8))]),      # MB_LEN_MAX = 16 on glibc
    "wctomb":        dict(w=[(0, ("const", 16))]),
    "mbrtowc":       dict(w=[(0, ("const", 4)), (3, ("const", 8))], r=[(1, (A, 2, 1))]),
    "mbtowc":        dict(w=[(0, ("const", 4))], r=[(1, (A, 2, 1))]),
    "mbsinit":       dict(r=[(0, ("const", 8))]),
    "towlower": {}, "towupper": {}, "iswspace": {}, "iswdigit": {}, "iswalpha": {}, "iswupper": {}, "iswlower": {},
    "tolower": {}, "toupper": {}, "isspace": {}, "isdigit": {}, "isalpha": {}, "isupper": {}, "islower": {},
    "__ctype_b_loc": {}, "__ctype_tolower_loc": {}, "__ctype_toupper_loc": {}, "__ctype_get_mb_cur_max": {},
    "__errno_location": {},
    "abs": {}, "labs": {},
    # ---- stdio / time / env
    "fgets":         dict(ret_arg=0, w=[(0, (A, 1, 1))]),
    "fputs":         dict(r=[(0, ("nul",))]),
    "fputc": {}, "putc": {}, "putchar": {}, "fflush": {}, "ferror": {}, "feof": {}, "fileno": {},
    "fwrite":        dict(r=[(0, (A, 2, 1))]),
    "fopen":         dict(r=[(0, ("nul",)), (1, ("nul",))]),
    "freopen":       dict(r=[(0, ("nul",)), (1, ("nul",))]),
    "fclose": {},
    "tmpfile": {},
    "tmpnam":        dict(w=[(0, ("const", 20))]),
    "getenv":        dict(r=[(0, ("nul",))]),
    "secure_getenv": dict(r=[(0, ("nul",))]),
    "asctime_r":     dict(ret_arg=1, w=[(1, ("const", 26))], r=[(0, ("const", 56))]),
    "ctime_r":       dict(ret_arg=1, w=[(1, ("const", 26))], r=[(0, ("const", 8))]),
    "gmtime_r":      dict(ret_arg=1, w=[(1, ("const", 56))], r=[(0, ("const", 8))]),
    "localtime_r":   dict(ret_arg=1, w=[(1, ("const", 56))], r=[(0, ("const", 8))]),
    "strerror_r":    dict(w=[(1, (A, 2, 1))]),
    "vprintf":       dict(r=[(0, ("nul",))], fmt=0, va=1, gram="printf"),
    "vfprintf":      dict(r=[(1, ("nul",))], fmt=1, va=2, gram="printf"),
    "vwprintf":      dict(r=[(0, ("nul",))], fmt=0, va=1, gram="wprintf"),
    "vfwprintf":     dict(r=[(1, ("nul",))], fmt=1, va=2, gram="wprintf"),
    "vsscanf":       dict(r=[(0, ("nul",)), (1, ("nul",))], fmt=1, va=2, gram="scanf"),
    "vfscanf":       dict(r=[(1, ("nul",))], fmt=1, va=2, gram="scanf"),
    "vscanf":        dict(r=[(0, ("nul",))], fmt=0, va=1, gram="scanf"),
    "vswscanf":      dict(r=[(0, ("nul",)), (1, ("nul",))], fmt=1, va=2, gram="wscanf"),
    "vfwscanf":      dict(r=[(1, ("nul",))], fmt=1, va=2, gram="wscanf"),
    "vwscanf":       dict(r=[(0, ("nul",))], fmt=0, va=1, gram="wscanf"),
    "__isoc99_vsscanf":  dict(r=[(0, ("nul",)), (1, ("nul",))], fmt=1, va=2, gram="scanf"),
    "__isoc99_vfscanf":  dict(r=[(1, ("nul",))], fmt=1, va=2, gram="scanf"),
    "__isoc99_vscanf":   dict(r=[(0, ("nul",))], fmt=0, va=1, gram="scanf"),
    "__isoc99_vswscanf": dict(r=[(0, ("nul",)), (1, ("nul",))], fmt=1, va=2, gram="wscanf"),
    "__isoc99_vfwscanf": dict(r=[(1, ("nul",))], fmt=1, va=2, gram="wscanf"),
    "__isoc99_vwscanf":  dict(r=[(0, ("nul",))], fmt=0, va=1, gram="wscanf"),
    # ---- misc
    "abort":         dict(noreturn=True),
    "exit":          dict(noreturn=True),
    "__assert_fail": dict(noreturn=True),
    "__stack_chk_fail": dict(noreturn=True),
    "pow": {}, "frexp": dict(w=[(1, ("const", 4))]), "frexpl": dict(w=[(1, ("const", 4))]), "floor": {}, "floorl": {}, "fabs": {}, "fabsl": {},
    "log10": {}, "log10l": {}, "powl": {}, "modf": dict(w=[(1, ("const", 8))]), "modfl": dict(w=[(1, ("const", 16))]),
    "ldexp": {}, "ldexpl": {}, "isnan": {}, "isinf": {}, "isinfl": {}, "isnanl": {}, "__isinfl": {}, "__isnanl": {},
    "fprintf":       dict(gram="printf", r=[(1, ("nul",))], fmt=1),
    "printf":        dict(gram="printf", r=[(0, ("nul",))], fmt=0),
    "qsort":         dict(w=[(0, ("mul", 1, 2))], r=[(0, ("mul", 1, 2))], callback=3),
    "setlocale":     dict(r=[(1, ("nul",))]),
    "strerror": {},
    "wcsstr":        dict(ret_arg=0, r=[(0, ("nul",)), (1, ("nul",))]),
}

# libc routines that use hidden static state (not reentrant)
# (glibc >= 2.32 strerror uses a thread-local buffer and setlocale(cat, NULL) only reads: both are left out)
MT_UNSAFE = {"asctime", "ctime", "gmtime", "localtime", "strtok", "rand", "srand", "getlogin", "ttyname", "readdir",
             "ecvt", "fcvt", "gcvt", "l64a", "drand48", "lrand48", "mrand48", "getpwnam", "getpwuid", "gethostbyname",
             "inet_ntoa", "crypt"}

BARRIER_INTRINSICS = {"llvm.x86.sse2.mfence", "llvm.x86.sse.sfence", "llvm.x86.sse2.lfence", "__sync_synchronize"}


def is_pure_intrinsic(name):
    return name.startswith(("llvm.dbg.", "llvm.lifetime.", "llvm.expect", "llvm.objectsize", "llvm.is.constant",
                            "llvm.fabs", "llvm.floor", "llvm.ceil", "llvm.pow", "llvm.sqrt", "llvm.fmuladd", "llvm.abs",
                            "llvm.umin", "llvm.umax", "llvm.smin", "llvm.smax", "llvm.bswap", "llvm.ctlz", "llvm.cttz", "llvm.ctpop",
                            "llvm.stacksave", "llvm.stackrestore", "llvm.assume", "llvm.experimental.noalias", "llvm.prefetch",
                            "llvm.trap", "llvm.copysign", "llvm.rint", "llvm.round", "llvm.trunc", "llvm.vector.reduce",
                            "llvm.fshl", "llvm.fshr", "llvm.usub", "llvm.uadd", "llvm.ssub", "llvm.sadd", "llvm.umul", "llvm.smul"))


def external_effect(name):
    """effect row of an external callee or None if unmodelled"""
    if name.startswith("llvm.memset"):
        return dict(w=[(0, (A, 2, 1))])
    if name.startswith(("llvm.memcpy", "llvm.memmove")):
        return dict(w=[(0, (A, 2, 1))], r=[(1, (A, 2, 1))])
    if name.startswith("llvm.va_"):
        return dict(va_intrinsic=True)
    if name in BARRIER_INTRINSICS:
        return dict(barrier=True)
    if is_pure_intrinsic(name):
        return {}
    return EXTERNAL.get(name)
