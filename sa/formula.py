"""formula: decision trees of loop-free functions over a finite abstract value space.

Values are abstract terms -- NULL, distinct non-null symbols, function addresses, small integers, opaque data --
and the only operations the interpreted code may apply to symbols are copies and null tests.  Anything else makes the
function 'not modelled' (the caller turns that into analysis-broken, never into a verdict)."""


class NotModelled(Exception):
    pass


NULL = ("null",)


def sym(n):
    return ("sym", n)


def fnaddr(n):
    return ("fn", n)


class Outcome:
    def __init__(s):
        s.ret = None
        s.mem = {}
        s.calls = []       # (callee term or name, [arg terms])
        s.path = []


def run_tree(fn, params, mem, tls_names=(), max_steps=400):
    """Interpret loop-free fn with params {id: term} and global memory {name: term}. Deterministic: returns Outcome."""
    if fn.loops:
        raise NotModelled("%s has a loop" % fn.name)
    env = dict(params)
    out = Outcome()
    out.mem = dict(mem)
    local = {}      # alloca id -> term

    def val(o):
        k = o.get("k")
        if k == "null":
            return NULL
        if k == "c":
            return ("int", o["v"])
        if k == "f":
            return fnaddr(o["name"])
        if k == "v":
            if o["id"] in env:
                return env[o["id"]]
            raise NotModelled("use of undefined value %s" % o["id"])
        if k == "g":
            return ("addr", o["name"])
        if k == "undef":
            return ("opaque", "undef")
        if k == "ce" and o.get("op") == "bitcast":
            return val(o["ops"][0])
        raise NotModelled("operand kind %s" % k)

    bb = fn.entry
    prev = None
    steps = 0
    while True:
        blk = fn.blocks[bb]
        out.path.append(bb)
        # phis first, simultaneously
        newvals = {}
        for i in blk["insts"]:
            if i["op"] != "phi":
                break
            inc = [x for x in i["incoming"] if x["bb"] == prev]
            if not inc:
                raise NotModelled("phi without edge")
            newvals[i["id"]] = val(inc[0]["v"])
        env.update(newvals)
        for i in blk["insts"]:
            steps += 1
            if steps > max_steps:
                raise NotModelled("too many steps")
            op = i["op"]
            if op == "phi":
                continue
            if op == "load":
                a = val(i["ops"][0])
                if a[0] == "addr":
                    if a[1] not in out.mem:
                        raise NotModelled("load of unmodelled global %s" % a[1])
                    env[i["id"]] = out.mem[a[1]]
                elif a[0] == "local":
                    env[i["id"]] = local.get(a[1], ("opaque", "uninit"))
                else:
                    env[i["id"]] = ("opaque", "load:" + i["id"])
            elif op == "store":
                v = val(i["ops"][0]); a = val(i["ops"][1])
                if a[0] == "addr":
                    out.mem[a[1]] = v
                elif a[0] == "local":
                    local[a[1]] = v
                else:
                    raise NotModelled("store through %s" % (a,))
            elif op == "alloca":
                env[i["id"]] = ("local", i["id"])
            elif op in ("bitcast", "addrspacecast"):
                env[i["id"]] = val(i["ops"][0])
            elif op in ("zext", "sext", "trunc"):
                env[i["id"]] = val(i["ops"][0])
            elif op == "icmp":
                a, b = val(i["ops"][0]), val(i["ops"][1])
                p = i["pred"]
                if p not in ("eq", "ne"):
                    raise NotModelled("ordered comparison")
                if a[0] in ("opaque",) or b[0] in ("opaque",):
                    raise NotModelled("comparison of opaque data")
                if a != b and {a[0], b[0]} == {"fn", "sym"}:
                    pass      # a symbolic handler compared with a concrete function: unequal here -- the case 'the registered handler IS that function' is a row of its own
                elif a != b and NULL not in (a, b) and not (a[0] == "int" and b[0] == "int"):
                    # two different non-null symbols: the code distinguishes handler values other than by a null test
                    raise NotModelled("comparison of two non-null symbols %s %s" % (a, b))
                r = (a == b)
                env[i["id"]] = ("int", int(r if p == "eq" else not r))
            elif op == "select":
                c = val(i["ops"][0])
                if c[0] != "int":
                    raise NotModelled("select on non-boolean")
                env[i["id"]] = val(i["ops"][1]) if c[1] else val(i["ops"][2])
            elif op in ("xor", "and", "or") and i.get("ty") == "i1":
                a, b = val(i["ops"][0]), val(i["ops"][1])
                if a[0] != "int" or b[0] != "int":
                    raise NotModelled("boolean op on non-boolean")
                env[i["id"]] = ("int", {"xor": a[1] ^ b[1], "and": a[1] & b[1], "or": a[1] | b[1]}[op] & 1)
            elif op == "call":
                name = i.get("callee")
                if name and name.startswith("llvm.dbg"):
                    continue
                if name and name.startswith("llvm.threadlocal"):
                    env[i["id"]] = val(i["args"][0]); continue
                tgt = fnaddr(name) if name else val(i["callee_v"])
                out.calls.append((tgt, [val(a) for a in i.get("args", ())]))
                if "id" in i:
                    env[i["id"]] = ("opaque", "ret:" + i["id"])
            elif op == "br":
                if "cond" in i:
                    c = val(i["cond"])
                    if c[0] != "int":
                        raise NotModelled("branch on non-boolean %s" % (c,))
                    prev, bb = bb, (i["t"] if c[1] else i["f"])
                else:
                    prev, bb = bb, i["t"]
                break
            elif op == "ret":
                out.ret = val(i["ops"][0]) if i.get("ops") else None
                return out
            elif op == "unreachable":
                out.ret = ("unreachable",)
                return out
            else:
                raise NotModelled("instruction %s" % op)
