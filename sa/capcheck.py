"""capcheck: bounded-access analysis of the cursor/budget idiom (C01, C02, C08, C14, C17).

Abstract domain: linear forms over SSA atoms; per natural loop the linear equalities among header phis (null space of the
back-edge increment matrix), lock-step pair equalities and range candidates proved by induction (Houdini); branch guards on
dominating edges; entailment by Fourier-Motzkin.  Every memory access through a pointer whose root has a known capacity
(caller buffer with its declared size, local array, constant table) yields the obligation 0 <= off and off + size <= cap.

Soundness rules (each was a trap of the prototype): (1) the induction base uses only facts that exist before the loop;
(2) facts about loop phis are used only at points dominated by that loop's header; (3) a merge phi is split into its incoming
edges only if its block dominates the point, all phis of the block together.  A discharge whose assumption set is itself
unsatisfiable is reported as 'dead' (unreachable point), not as proven.
"""
from fractions import Fraction as Fr
from .lin import Lin, entails, fm_unsat, nullspace
from .effects import external_effect

UNSIGNED_PARAMS = ("dmax", "slen", "smax", "n", "len", "dlen", "count", "destbos", "srcbos", "strbos", "nmemb", "size", "maxlen", "idx",
                   "bufsize", "maxsize", "basebos")
RET_INTERIOR = ("strstr", "strchr", "strrchr", "strcasestr", "strpbrk", "memchr", "memrchr", "wcsstr", "wcschr", "wcsrchr", "wcspbrk", "wmemchr")
RETBOUND = {"_strnlen_s_chk": 1, "_wcsnlen_s_chk": 1, "strnlen": 1, "wcsnlen": 1, "safec_strnlen_s": 1}

# internal routines summarised by effect: name -> [(kind, pointer arg, length arg, unit)]
LIB_EFFECTS = {
    "mem_prim_set": [("W", 0, 1, 1)], "mem_prim_set16": [("W", 0, 1, 2)], "mem_prim_set32": [("W", 0, 1, 4)],
    "mem_prim_move": [("W", 0, 2, 1), ("R", 1, 2, 1)], "mem_prim_move8": [("W", 0, 2, 1), ("R", 1, 2, 1)],
    "mem_prim_move16": [("W", 0, 2, 2), ("R", 1, 2, 2)], "mem_prim_move32": [("W", 0, 2, 4), ("R", 1, 2, 4)],
    "handle_error": [("W", 0, 1, 1)], "handle_werror": [("W", 0, 1, 4)], "handle_mem_error": [("W", 0, 1, 1)],
}


class Analysis:
    def __init__(s, fn):
        s.fn = fn
        s.lincache = {}
        s.ptrcache = {}
        s.offphi = {}
        s.extra = []          # definitional inequalities (udiv, bounded call results)
        s.retb_done = set()

    def lin(s, o):
        k = o.get("k")
        if k == "c":
            return Lin.const(o["v"])
        if k != "v":
            return Lin.atom("?" + str(sorted(o.items()))[:40])
        v = o["id"]
        if v in s.lincache:
            return s.lincache[v]
        s.lincache[v] = Lin.atom(v)
        r = s._lin(v)
        s.lincache[v] = r
        return r

    def _lin(s, v):
        d = s.fn.defs.get(v)
        if d is None:
            return Lin.atom(v)
        op = d["op"]
        if op in ("add", "sub"):
            a, b = s.lin(d["ops"][0]), s.lin(d["ops"][1])
            return a + b if op == "add" else a - b
        if op == "mul":
            a, b = s.lin(d["ops"][0]), s.lin(d["ops"][1])
            if a.is_const():
                return b.scale(a.c)
            if b.is_const():
                return a.scale(b.c)
            return Lin.atom(v)
        if op == "shl":
            a, b = s.lin(d["ops"][0]), s.lin(d["ops"][1])
            if b.is_const() and 0 <= b.c < 32:
                return a.scale(2 ** int(b.c))
            return Lin.atom(v)
        if op == "ptrtoint":
            r, off = s.ptr(d["ops"][0])
            if r is not None and not r.startswith("?"):
                return Lin.atom("&" + r) + off
            return Lin.atom(v)
        if op == "sdiv" and d.get("exact") and d["ops"][1].get("k") == "c" and d["ops"][1]["v"] > 0:
            return s.lin(d["ops"][0]).scale(Fr(1, d["ops"][1]["v"]))       # pointer difference in elements: exact by the IR's own flag
        if op in ("zext", "sext", "trunc", "bitcast") and d["ty"].startswith("i"):
            if d["ops"][0].get("ty") == "i1":
                return Lin.atom(v)
            return s.lin(d["ops"][0])
        if op in ("udiv", "lshr"):
            a, b = s.lin(d["ops"][0]), s.lin(d["ops"][1])
            if b.is_const() and b.c > 0:
                k = b.c if op == "udiv" else 2 ** int(b.c)
                s.extra.append(a - Lin.atom(v).scale(k))
                s.extra.append(Lin.atom(v).scale(k) + Lin.const(k - 1) - a)
                s.extra.append(Lin.atom(v))
            return Lin.atom(v)
        if op in ("and", "urem") and d["ops"][1].get("k") == "c" and d["ops"][1]["v"] >= 0:
            m = d["ops"][1]["v"] if op == "and" else d["ops"][1]["v"] - 1
            s.extra.append(Lin.atom(v))
            s.extra.append(Lin.const(m) - Lin.atom(v))
            return Lin.atom(v)
        if op == "call" and d["ty"] == "i64" and d.get("callee") not in RETBOUND:
            s.extra.append(Lin.atom(v))          # size_t results are unsigned
            return Lin.atom(v)
        if op == "call" and d.get("callee") in RETBOUND:
            bi = RETBOUND[d["callee"]]
            if v not in s.retb_done:
                s.retb_done.add(v)
                s.extra.append(s.lin(d["args"][bi]) - Lin.atom(v))
                s.extra.append(Lin.atom(v))
            return Lin.atom(v)
        return Lin.atom(v)

    def ptr(s, o):
        k = o.get("k")
        if k == "null":
            return ("null", Lin.const(0))
        if k == "g":
            return ("@" + o["name"], Lin.const(0))
        if k == "ce":
            if o.get("op") == "getelementptr":
                r, off = s.ptr(o["base"])
                off = off + Lin.const(o.get("coff", 0))
                for t in o.get("terms", ()):
                    off = off + s.lin(t["v"]).scale(t["stride"])
                return (r, off)
            if o.get("op") == "bitcast" and o.get("ops"):
                return s.ptr(o["ops"][0])
            return ("?ce", Lin.const(0))
        if k != "v":
            return ("?", Lin.const(0))
        v = o["id"]
        if v in s.ptrcache:
            return s.ptrcache[v]
        s.ptrcache[v] = (v, Lin.const(0))
        r = s._ptr(v)
        s.ptrcache[v] = r
        return r

    def _ptr(s, v):
        d = s.fn.defs.get(v)
        if d is None:
            return (v, Lin.const(0))
        op = d["op"]
        if op == "getelementptr":
            r, off = s.ptr(d["base"])
            off = off + Lin.const(d.get("coff", 0))
            for t in d.get("terms", ()):
                off = off + s.lin(t["v"]).scale(t["stride"])
            return (r, off)
        if op == "bitcast":
            return s.ptr(d["ops"][0])
        if op == "phi":
            incs = []
            for inc in d["incoming"]:
                r, off = s.ptr(inc["v"])
                incs.append((r, off, inc["bb"]))
            roots = {r for r, _, _ in incs if r != v}
            if len(roots) == 1:
                root = roots.pop()
                a = "off(" + v + ")"
                s.offphi[v] = (root, a, [((off if r == root else (Lin.atom(a) + off) if r == v else None), bb) for r, off, bb in incs])
                return (root, Lin.atom(a))
            return (v, Lin.const(0))
        if op in ("call", "invoke") and d.get("callee") in RET_INTERIOR and d.get("args"):
            # strstr/strchr/...: NULL or a pointer at/behind the first argument (a NULL result is not dereferenced: that is the callers' null test)
            r, off = s.ptr(d["args"][0])
            a = "ret(" + v + ")"
            if a not in s.retb_done:
                s.retb_done.add(a)
                s.extra.append(Lin.atom(a))
            return (r, off + Lin.atom(a))
        return (v, Lin.const(0))


NEGP = {"eq": "ne", "ne": "eq", "ugt": "ule", "uge": "ult", "ult": "uge", "ule": "ugt", "sgt": "sle", "sge": "slt", "slt": "sge", "sle": "sgt"}


def cond_facts(fn, A, cond, val, depth=0):
    if cond.get("k") != "v" or depth > 6:
        return []
    d = fn.defs.get(cond["id"])
    if d is None:
        return []
    if d["op"] in ("zext", "sext"):
        return cond_facts(fn, A, d["ops"][0], val, depth + 1)
    if d["op"] == "phi" and d["ty"] == "i1":
        live = [inc for inc in d["incoming"] if not (inc["v"].get("k") == "c" and bool(inc["v"]["v"]) != val)]
        if len(live) == 1:
            inc = live[0]
            f = block_guards(fn, A, inc["bb"])
            if inc["v"].get("k") == "v":
                f = f + cond_facts(fn, A, inc["v"], val, depth + 1)
            return f
        return []
    if d["op"] == "icmp":
        a, b = d["ops"]
        if b.get("k") == "c" and b["v"] == 0 and a.get("k") == "v" and d["pred"] in ("ne", "eq"):
            da = fn.defs.get(a["id"])
            if da is not None and (da["ty"] == "i1" or (da["op"] in ("zext", "sext") and da["ops"][0].get("ty") == "i1")):
                return cond_facts(fn, A, a, val if d["pred"] == "ne" else not val, depth + 1)
        if "*" in a.get("ty", "") or "*" in b.get("ty", "") or a.get("k") == "null" or b.get("k") == "null":
            # pointer comparison: same root -> compare offsets
            if a.get("k") in ("v", "ce") and b.get("k") in ("v", "ce"):
                ra, oa = A.ptr(a)
                rb, ob = A.ptr(b)
                if ra == rb and not ra.startswith("?"):
                    x, y = oa, ob
                else:
                    return []
            else:
                return []
        else:
            x, y = A.lin(a), A.lin(b)
        p = d["pred"]
        if not val:
            p = NEGP[p]
        if p not in ("eq", "ne"):
            # unsigned comparison against a negative constant: the constant is huge
            if p.startswith("u"):
                if y.is_const() and y.c < 0:
                    y = Lin.const(y.c + (1 << 64))
                if x.is_const() and x.c < 0:
                    x = Lin.const(x.c + (1 << 64))
            p = p[1:]
        else:
            if y.is_const() and y.c < 0:
                y = Lin.const(y.c + (1 << 64))
        if p == "gt":
            return [x - y - Lin.const(1)]
        if p == "ge":
            return [x - y]
        if p == "lt":
            return [y - x - Lin.const(1)]
        if p == "le":
            return [y - x]
        if p == "eq":
            return [x - y, y - x]
        if p == "ne":
            return [("ne", x, y)]
        return []
    if d["op"] in ("and", "or") and d["ty"] == "i1":
        if (d["op"] == "and" and val) or (d["op"] == "or" and not val):
            return cond_facts(fn, A, d["ops"][0], val, depth + 1) + cond_facts(fn, A, d["ops"][1], val, depth + 1)
    if d["op"] == "xor" and d["ty"] == "i1" and d["ops"][1].get("k") == "c":
        return cond_facts(fn, A, d["ops"][0], not val, depth + 1)
    return []


def block_guards(fn, A, blk):
    """conditions known at entry of blk from dominating single-predecessor conditional edges"""
    facts = []
    b = blk
    seen = set()
    while b is not None and b not in seen:
        seen.add(b)
        preds = fn.preds.get(b, [])
        if len(preds) == 1:
            p = preds[0]
            t = fn.term(p)
            if t["op"] == "br" and "cond" in t and t["t"] != t.get("f"):
                facts += cond_facts(fn, A, t["cond"], t["t"] == b)
            elif t["op"] == "switch":
                cases = [c for c in t["cases"] if c["bb"] == b]
                x = A.lin(t["cond"])
                if b != t["default"] and len(cases) == 1:
                    k = Lin.const(cases[0]["v"])
                    facts += [x - k, k - x]
                elif b == t["default"] and not cases:
                    facts.append(("notin", x, sorted(c["v"] for c in t["cases"])))
        b = fn.idom.get(b)
    return facts


def block_exit_facts(fn, A, bb, succ):
    f = block_guards(fn, A, bb)
    t = fn.term(bb)
    if t["op"] == "br" and "cond" in t and t["t"] != t.get("f"):
        f = f + cond_facts(fn, A, t["cond"], t["t"] == succ)
    return f


def normalize_facts(facts, base):
    pure = [f for f in facts if isinstance(f, Lin)]
    b0 = pure + base
    out = list(pure)
    for f in facts:
        if isinstance(f, tuple) and f[0] == "ne":
            _, x, y = f
            if entails(b0, x - y):
                out.append(x - y - Lin.const(1))
            elif entails(b0, y - x):
                out.append(y - x - Lin.const(1))
        elif isinstance(f, tuple) and f[0] == "notin":
            _, x, vals = f
            lo = None
            for start in (0, 1):
                if entails(b0 + out, x - Lin.const(start)):
                    lo = start
            if lo is not None:
                vs = set(vals)
                while lo in vs:
                    lo += 1
                out.append(x - Lin.const(lo))
    return out


class Caps:
    """capacity (bytes) of pointer roots of one function"""

    def __init__(s, fn, roles, prog):
        s.fn = fn
        s.caps = {}
        s.names = {}
        pn = fn.pnames
        for (buf, ln, unit) in roles:
            if buf in pn and ln in pn and pn[buf]["ty"].endswith("*"):
                u = unit or {"i8*": 1, "i16*": 2, "i32*": 4, "i64*": 8}.get(pn[buf]["ty"], 1)
                s.caps[pn[buf]["id"]] = Lin.atom(pn[ln]["id"]).scale(u)
                s.names[pn[buf]["id"]] = buf
        s.prog = prog

    def cap(s, root):
        c = s.caps.get(root)
        if c is not None:
            return c, s.names.get(root, root)
        d = s.fn.defs.get(root)
        if d is not None and d["op"] == "alloca" and "alloc_size" in d:
            return Lin.const(d["alloc_size"]), "local:" + root.lstrip("%")
        if root.startswith("@"):
            g = s.fn.mod["gmap"].get(root[1:])
            if g and "size" in g and not g.get("decl"):
                return Lin.const(g["size"]), "global:" + root[1:]
        return None, None


def analyse(fn, roles, prog, lib_roles=None, want_kinds=("W", "R"), callsite_goals=None, ssa_caps=None, probe=None, extra_facts=None):
    """returns (obligations, info).  obligation: dict(kind, what, line, root, role, off, size, cap, lo, hi, dead, ordinal)"""
    A = Analysis(fn)
    caps = Caps(fn, roles, prog)
    A.extra.extend(extra_facts or [])
    for (pid_, cap_, name_) in (ssa_caps or ()):
        caps.caps[pid_] = cap_
        caps.names[pid_] = name_
    nonneg = []
    for p in fn.j["params"]:
        if p["ty"] in ("i64", "i32") and p["name"] in UNSIGNED_PARAMS:
            nonneg.append(Lin.atom(p["id"]))
    for b in fn.j["blocks"]:
        for i in b["insts"]:
            if "id" in i:
                if i["ty"].endswith("*"):
                    A.ptr({"k": "v", "id": i["id"]})
                elif i["ty"].startswith("i") and i["ty"] != "i1":
                    A.lin({"k": "v", "id": i["id"]})
    # ---- loop equalities
    eqs = []
    eq_loop = []
    loopinfo = {}
    for h, L in fn.loops.items():
        inside = L["_set"]
        phis = []
        for i in fn.blocks[h]["insts"]:
            if i["op"] != "phi":
                continue
            v = i["id"]
            if i["ty"].endswith("*"):
                if v not in A.offphi:
                    continue
                root, a, incs = A.offphi[v]
                if any(off is None for off, _ in incs):
                    continue
                init = [off for off, bb in incs if bb not in inside]
                nxt = [(off, bb) for off, bb in incs if bb in inside]
                phis.append((a, init, nxt))
            elif i["ty"].startswith("i") and i["ty"] != "i1":
                init = [A.lin(inc["v"]) for inc in i["incoming"] if inc["bb"] not in inside]
                nxt = [(A.lin(inc["v"]), inc["bb"]) for inc in i["incoming"] if inc["bb"] in inside]
                phis.append((v, init, nxt))
        phis = [p for p in phis if len(p[1]) == 1 and p[2]]
        if not phis:
            continue
        latches = sorted({bb for _, _, nx in phis for _, bb in nx})
        inc = {}
        basis = set()
        for (a, init, nxt) in phis:
            for off, bb in nxt:
                d = off - Lin.atom(a)
                inc[(a, bb)] = d
                basis |= d.atoms()
        basis = sorted(basis) + ["#1"]
        names = [p[0] for p in phis]
        M = []
        for bb in latches:
            for bt in basis:
                row = []
                for a in names:
                    d = inc.get((a, bb))
                    if d is None:
                        row.append(Fr(0))
                        continue
                    row.append(d.c if bt == "#1" else d.t.get(bt, Fr(0)))
                if any(row):
                    M.append(row)
        inits = {p[0]: p[1][0] for p in phis}
        for vec in nullspace(M, len(names)):
            l = Lin.const(0)
            for a, k in zip(names, vec):
                if k:
                    l = l + (Lin.atom(a) - inits[a]).scale(k)
            eqs.append(l)
            eq_loop.append(h)
        loopinfo[h] = (names, inits, inc, latches)
    # ---- candidates (ranges + lock-step pairs)
    cands = []
    for h, (names, inits, inc, latches) in loopinfo.items():
        for a in names:
            cands.append((h, a, "le", inits[a] - Lin.atom(a)))
            cands.append((h, a, "ge", Lin.atom(a) - inits[a]))
            cands.append((h, a, "ge0", Lin.atom(a)))
            cands.append((h, a, "ge1", Lin.atom(a) - Lin.const(1)))
        consts = set()
        for bid in fn.loops[h]["blocks"]:
            for i in fn.blocks[bid]["insts"]:
                if i["op"] == "icmp":
                    for o in i["ops"]:
                        if o.get("k") == "c" and 0 < o["v"] <= 4096:
                            consts.add(o["v"])
        for a in names:
            for K in sorted(consts)[:6]:
                cands.append((h, a, "leK", Lin.const(K) - Lin.atom(a)))
                cands.append((h, a, "leK", Lin.const(K - 1) - Lin.atom(a)))
        # an index compared with a loop-invariant bound inside the loop (`if (i == slen) ...`, `i < n`): candidate i <= bound
        for bid in fn.loops[h]["blocks"]:
            for i in fn.blocks[bid]["insts"]:
                if i["op"] != "icmp":
                    continue
                try:
                    la, lb = A.lin(i["ops"][0]), A.lin(i["ops"][1])
                except Exception:
                    continue
                for (x, y) in ((la, lb), (lb, la)):
                    if x is None or y is None:
                        continue
                    xs = [a for a in names if not a.startswith("off(") and x == Lin.atom(a)]
                    if xs and not (set(y.atoms()) & set(names)) and not y.is_const():
                        cands.append((h, xs[0], "leK", y - Lin.atom(xs[0])))
        offs = [a for a in names if a.startswith("off(")]
        ints = [a for a in names if not a.startswith("off(")]
        for a in offs:
            v = a[4:-1]
            unit = fn.defs[v].get("pointee_size", 1) or 1
            for n in ints:
                for sgn in (1, -1):
                    l = (Lin.atom(a) - inits[a]).scale(Fr(1, unit)) + (Lin.atom(n) - inits[n])
                    cands.append((h, (a, n), "pair", l.scale(sgn)))

    def live_facts(point, cands, exclude=None):
        out = []
        for e, eh in zip(eqs, eq_loop):
            if eh != exclude and fn.dominates(eh, point):
                out += [e, -e]
        for c in cands:
            if c[0] != exclude and fn.dominates(c[0], point):
                out.append(c[3])
        return out

    hdr_atoms = set()
    for h, (names, _, _, _) in loopinfo.items():
        hdr_atoms |= set(names)
    changed = True
    rounds = 0
    while changed and rounds < 12:
        changed = False
        rounds += 1
        for cand in list(cands):
            h, a, kind, l = cand
            names, inits, inc, latches = loopinfo[h]
            ok = True
            if kind == "pair":
                for bb in latches:
                    g = l
                    for a2 in names:
                        d2 = inc.get((a2, bb))
                        if d2 is not None and a2 in g.atoms():
                            g = g.subst(a2, Lin.atom(a2) + d2)
                    lf = live_facts(bb, cands)
                    gf = normalize_facts(block_exit_facts(fn, A, bb, h), nonneg + lf)
                    if not entails_split(fn, A, gf + nonneg + lf + A.extra, g, hdr_atoms, bb, 0, lambda b: live_facts(b, cands)):
                        ok = False
                        break
                if not ok:
                    cands.remove(cand)
                    changed = True
                continue
            if kind in ("ge0", "ge1", "leK"):
                pre = [bb for bb in fn.preds[h] if bb not in fn.loops[h]["_set"]]
                g0 = l.subst(a, inits[a])
                for bb in pre:
                    of = live_facts(bb, cands, exclude=h)
                    gfb = normalize_facts(block_exit_facts(fn, A, bb, h), nonneg + of)
                    if not entails(gfb + nonneg + of + A.extra, g0):
                        ok = False
            for bb in latches:
                if not ok:
                    break
                d = inc.get((a, bb))
                if d is None:
                    continue
                lf = live_facts(bb, cands)
                gf = normalize_facts(block_exit_facts(fn, A, bb, h), nonneg + lf)
                nxt = Lin.atom(a) + d
                goal = {"le": inits[a] - nxt, "ge": nxt - inits[a]}.get(kind)
                if goal is None:
                    goal = l.subst(a, nxt)
                if not entails(gf + nonneg + lf + A.extra, goal):
                    ok = False
            if not ok:
                cands.remove(cand)
                changed = True

    # ---- obligations
    def facts_at(blk):
        gf = block_guards(fn, A, blk)
        base = nonneg + live_facts(blk, cands) + A.extra
        return normalize_facts(gf, base) + base

    res = []
    counters = {}

    # ---- measured extents: a pointer without a declared capacity whose string was measured with a bounded length function
    #      (l = strnlen_s(p, n)) may afterwards be read for l elements and the terminator: capacity (l + 1) elements, valid where the measuring call dominates
    measured = {}
    for b in fn.j["blocks"]:
        for i in b["insts"]:
            if i["op"] in ("call", "invoke") and i.get("callee") in RETBOUND and "id" in i and i.get("args"):
                root, off = A.ptr(i["args"][0])
                if root is None or off is None or not (off.is_const() and off.c == 0) or caps.cap(root)[0] is not None or root in measured:
                    continue
                unit = {"i8*": 1, "i16*": 2, "i32*": 4}.get(i["args"][0].get("ty"), 1)
                measured[root] = ((A.lin({"k": "v", "id": i["id"]}) + Lin.const(1)).scale(unit), "measured:" + api_base(i["callee"]), i)

    # a length that is the merge of several measurements of the same pointer (one per branch: `l = given ? strnlen(p, n) : strnlen(p, MAX)`),
    # possibly with the constant 0 for a branch that measures nothing: the merged value is a lower bound of what may be read wherever the
    # merge dominates (without the terminator when a 0 is among the alternatives: on that path nothing is known about the pointer)
    meas_calls = {}
    first_meas = {r: v[2] for r, v in measured.items()}
    merged_width = {}
    for b in fn.j["blocks"]:
        for i in b["insts"]:
            if i["op"] in ("call", "invoke") and i.get("callee") in RETBOUND and "id" in i and i.get("args"):
                root, off = A.ptr(i["args"][0])
                if root is not None and off is not None and off.is_const() and off.c == 0 and caps.cap(root)[0] is None:
                    meas_calls[i["id"]] = (root, {"i8*": 1, "i16*": 2, "i32*": 4}.get(i["args"][0].get("ty"), 1), i)

    def _strip_int(o):
        while o.get("k") == "v" and fn.defs.get(o["id"], {}).get("op") in ("zext", "sext", "trunc"):
            o = fn.defs[o["id"]]["ops"][0]
        return o
    for b in fn.j["blocks"]:
        for i in b["insts"]:
            if i["op"] != "phi" or not i["ty"].startswith("i") or i["ty"] == "i1":
                continue
            def _leaves(o, depth=0):
                o = _strip_int(o)
                d_ = fn.defs.get(o.get("id")) if o.get("k") == "v" else None
                if d_ is not None and d_["op"] == "phi" and depth < 3 and d_["id"] != i["id"]:
                    out_ = []
                    for y in d_["incoming"]:
                        out_.extend(_leaves(y["v"], depth + 1))
                    return out_
                return [o]
            ins = []
            for x in i["incoming"]:
                ins.extend(_leaves(x["v"]))
            ms = [meas_calls[o["id"]] for o in ins if o.get("k") == "v" and o["id"] in meas_calls]
            zeros = [o for o in ins if o.get("k") == "c" and o.get("v") == 0]
            if len(ms) >= 1 and len(ms) + len(zeros) == len(ins) and len({m[0] for m in ms}) == 1 and (len(ms) > 1 or zeros):
                root, unit = ms[0][0], ms[0][1]
                if root in first_meas and any(first_meas[root] is m[2] for m in ms) and len(ins) > merged_width.get(root, 0):
                    # replace the single-measurement entry (which dominates nothing behind the merge) by the merged one; the widest merge wins
                    l = A.lin({"k": "v", "id": i["id"]})
                    merged_width[root] = len(ins)
                    measured[root] = ((l + (Lin.const(0) if zeros else Lin.const(1))).scale(unit), measured[root][1], i)

    def cap_of(root, inst):
        cap, role = caps.cap(root)
        if cap is None and inst is not None and root in measured and measured[root][2] is not inst and fn.inst_dominates(measured[root][2], inst):
            return measured[root][0], measured[root][1]
        return cap, role

    # ---- ends of what the function writes into each root (for the 'no gap in front of the slack clearing' rule):
    #      a store at off covers [off, off+size); a libc/library writer returning the count r of elements stored covers [off, off + r*unit)
    written_ends = {}
    if "S" in want_kinds:
        for b in fn.j["blocks"]:
            for i in b["insts"]:
                if i["op"] == "store":
                    root, off = A.ptr(i["ops"][1])
                    if root is not None and off is not None:
                        written_ends.setdefault(root, []).append(off + Lin.const(i["size"]))
                elif i["op"] in ("call", "invoke") and "id" in i:
                    cal = i.get("callee") or ""
                    rc = COUNT_RESULT.get(cal)
                    if rc is None and prog.resolve(fn, cal) is None:
                        e_ = external_effect(cal) if cal else None
                        rc = e_.get("ret_count") if e_ else None
                    if rc is not None and rc[0] < len(i.get("args", ())):
                        root, off = A.ptr(i["args"][rc[0]])
                        if root is not None and off is not None:
                            written_ends.setdefault(root, []).append(off + A.lin({"k": "v", "id": i["id"]}).scale(rc[1]))

    def gap_verdict(blk, root, off, F, lf):
        """True: the clearing starts at the buffer start or not behind the end of something this function wrote; False: it starts a constant
        distance behind every related write (elements in between keep their old contents); None: not decidable here"""
        if entails_split(fn, A, F, -off, hdr_atoms, blk, 0, lf):
            return True
        related = False
        for we in written_ends.get(root, ()):
            d = off - we
            if entails_split(fn, A, F, -d, hdr_atoms, blk, 0, lf):
                return True
            if d.is_const():
                related = True
        return False if related else None

    def check(blk, what, line, root, off, size, kind, zero_fill=False, inst=None):
        if kind not in want_kinds:
            return
        cap, role = cap_of(root, inst)
        if cap is None:
            # no declared size: still 'nothing before the start of any buffer' -- the lower bound alone, for accesses through a pointer parameter
            if root in fn.params and not off.is_const() and "L" in want_kinds:
                F = facts_at(blk)
                lo = entails_split(fn, A, F, off, hdr_atoms, blk, 0, lambda b: live_facts(b, cands))
                ckk = (kind, what, "param:" + fn.params[root]["name"])
                counters[ckk] = counters.get(ckk, 0) + 1
                res.append(dict(fn=fn.name, line=line, kind=kind, what=what, root=root, role="param:" + fn.params[root]["name"], off=repr(off), size=repr(size), cap="(no declared size)",
                                lo=bool(lo), hi=True, dead=False, ordinal=counters[ckk], const_index=False, lower_only=True))
            return
        F = facts_at(blk)
        lf = lambda b: live_facts(b, cands)
        lo = entails_split(fn, A, F, off, hdr_atoms, blk, 0, lf)
        hi = entails_split(fn, A, F, cap - off - size, hdr_atoms, blk, 0, lf)
        dead = False
        if lo and hi and fm_unsat([f for f in F if isinstance(f, Lin)]):
            dead = True
        ck = (kind, what, role)
        counters[ck] = counters.get(ck, 0) + 1
        rec = dict(fn=fn.name, line=line, kind=kind, what=what, root=root, role=role, off=repr(off), size=repr(size), cap=repr(cap),
                   lo=bool(lo), hi=bool(hi), dead=dead, ordinal=counters[ck], const_index=off.is_const())
        if zero_fill:
            # slack clearing must end exactly at the end of the declared destination: off + size == cap
            rec["zero_fill"] = True
            rec["ends_at_cap"] = bool(entails_split(fn, A, F, off + size - cap, hdr_atoms, blk, 0, lf))
            rec["starts_at_written_end"] = gap_verdict(blk, root, off, F, lf) if "S" in want_kinds else None
        res.append(rec)

    for b in fn.j["blocks"]:
        for i in b["insts"]:
            op = i["op"]
            if op in ("load", "store"):
                po = i["ops"][0] if op == "load" else i["ops"][1]
                root, off = A.ptr(po)
                check(b["id"], op, i.get("line"), root, off, Lin.const(i["size"]), "R" if op == "load" else "W", inst=i)
            elif op in ("call", "invoke"):
                cal = i.get("callee") or ""
                if callsite_goals and cal in callsite_goals and prog.resolve(fn, cal) is not None:
                    for (ai, bound) in callsite_goals[cal]:
                        if ai < len(i.get("args", ())):
                            v = A.lin(i["args"][ai])
                            F = facts_at(b["id"])
                            okb = entails_split(fn, A, F, Lin.const(bound) - v, hdr_atoms, b["id"], 0, lambda bb: live_facts(bb, cands))
                            srcp = None
                            if len(v.t) == 1 and v.c == 0 and list(v.t.values())[0] == 1 and list(v.t)[0] in fn.params:
                                srcp = fn.param_index(fn.params[list(v.t)[0]]["name"])
                            res.append(dict(fn=fn.name, line=i.get("line"), kind="U", what="call %s arg %d <= %d" % (cal, ai, bound), root="-", role="-", off=repr(v), size="-",
                                            cap=str(bound), lo=True, hi=bool(okb), dead=False, ordinal=0, const_index=False, callee=cal, arg=ai, from_param=srcp))
                effs = []
                if cal in LIB_EFFECTS:
                    effs = [(k, pa, ("arg", la, u)) for (k, pa, la, u) in LIB_EFFECTS[cal]]
                    if NOSLACK and cal in ("handle_error", "handle_werror"):
                        effs = [(k, pa, ("const", u)) for (k, pa, la, u) in LIB_EFFECTS[cal]]     # no-slack build: the helpers store one terminator, the length is unused
                elif prog.resolve(fn, cal) is not None:
                    callee = prog.resolve(fn, cal)
                    rl = (lib_roles or {}).get(callee.name, [])
                    cpn = [p["name"] for p in callee.j["params"]]
                    for (bn, ln, unit) in rl:
                        if bn in cpn and ln in cpn:
                            u = unit or {"i8*": 1, "i16*": 2, "i32*": 4}.get(callee.j["params"][cpn.index(bn)]["ty"], 1)
                            effs.append(("W" if bn == "dest" and callee.name not in READONLY_DEST else "R", cpn.index(bn), ("arg", cpn.index(ln), u)))
                else:
                    eff = external_effect(cal) if cal else None
                    if eff:
                        for (pa, ln) in eff.get("w", ()):
                            effs.append(("W", pa, ln))
                        for (pa, ln) in eff.get("r", ()):
                            effs.append(("R", pa, ln))
                for (k, pi, ln) in effs:
                    if pi >= len(i.get("args", ())):
                        continue
                    root, off = A.ptr(i["args"][pi])
                    if ln[0] == "arg" and ln[1] < len(i["args"]):
                        size = A.lin(i["args"][ln[1]]).scale(ln[2])
                    elif ln[0] == "const":
                        size = Lin.const(ln[1])
                    elif ln[0] == "mul" and ln[1] < len(i["args"]) and ln[2] < len(i["args"]):
                        a1, a2 = A.lin(i["args"][ln[1]]), A.lin(i["args"][ln[2]])
                        size = a2.scale(a1.c) if a1.is_const() else a1.scale(a2.c) if a2.is_const() else None
                        if size is None:
                            continue
                    elif ln[0] in ("nul", "unb", "argnul"):
                        cap, role = cap_of(root, i)
                        if cap is not None and k in want_kinds and ln[0] != "argnul":
                            ckk = (k, "call " + cal + " (not bounded by an argument)", role)
                            counters[ckk] = counters.get(ckk, 0) + 1
                            res.append(dict(fn=fn.name, line=i.get("line"), kind=k, what="call " + cal + " (not bounded by an argument)", root=root, role=role,
                                            off=repr(off), size="unbounded", cap=repr(cap), lo=True, hi=False, dead=False, ordinal=counters[ckk], const_index=False,
                                            unbounded=True))
                            continue
                        if ln[0] == "argnul" and ln[1] < len(i["args"]):
                            size = A.lin(i["args"][ln[1]]).scale(ln[2])
                        else:
                            continue
                    else:
                        continue
                    zf = False
                    if k == "W" and (cal.startswith("llvm.memset") or cal in ("memset", "wmemset")) and len(i["args"]) > 1:
                        v = i["args"][1]
                        zf = v.get("k") == "c" and v["v"] == 0
                    check(b["id"], "call " + cal, i.get("line"), root, off, size, k, zero_fill=zf, inst=i)
    if probe is not None:
        class Ctx:
            pass
        ctx = Ctx()
        ctx.A = A
        ctx.fn = fn
        ctx.facts_at = facts_at
        ctx.entail_at = lambda blk, goal: bool(entails_split(fn, A, facts_at(blk), goal, hdr_atoms, blk, 0, lambda b: live_facts(b, cands)))
        res.extend(probe(ctx) or [])
    # ---- zeroing loops: a loop whose only stores put the constant 0 through a cursor into a caller buffer must run to the end of that buffer
    for h, L in fn.loops.items():
        stores = [i for bid in L["blocks"] for i in fn.blocks[bid]["insts"] if i["op"] == "store"]
        if not stores or any(not (i["ops"][0].get("k") == "c" and i["ops"][0]["v"] == 0) for i in stores):
            continue
        if any(i["op"] in ("call", "invoke") and not (i.get("callee") or "").startswith("llvm.dbg") for bid in L["blocks"] for i in fn.blocks[bid]["insts"]):
            continue
        ptrs = set()
        for i in stores:
            root, off = A.ptr(i["ops"][1])
            ptrs.add((root, repr(off)))
        if len(ptrs) != 1:
            continue
        root, _ = A.ptr(stores[0]["ops"][1])
        cap, role = caps.cap(root)
        if cap is None or role.startswith(("local:", "global:")):
            continue
        off = A.ptr(stores[0]["ops"][1])[1]
        if not any(a in hdr_atoms for a in off.atoms()):
            continue
        t = fn.term(h)
        exits = [sc for sc in fn.succ[h] if sc not in L["_set"]]
        for sc in exits:
            F = normalize_facts(block_exit_facts(fn, A, h, sc), nonneg + live_facts(h, cands) + A.extra) + nonneg + live_facts(h, cands) + A.extra
            lf = lambda b: live_facts(b, cands)
            eq = entails_split(fn, A, F, off - cap, hdr_atoms, h, 0, lf) and entails_split(fn, A, F, cap - off, hdr_atoms, h, 0, lf)
            ck_ = ("S", "zeroing loop", role)
            counters[ck_] = counters.get(ck_, 0) + 1
            res.append(dict(fn=fn.name, line=stores[0].get("line"), kind="S", what="zeroing loop", root=root, role=role, off=repr(off), size="-", cap=repr(cap),
                            lo=True, hi=True, dead=False, ordinal=counters[ck_], const_index=False, zero_fill=True, ends_at_cap=bool(eq)))
    return res, dict(equalities=[repr(e) for e in eqs], ranges=[repr(c[3]) for c in cands], loops=len(fn.loops))


def merge_cases(fn, A, atom):
    if atom.startswith("off("):
        v = atom[4:-1]
        if v not in A.offphi:
            return None
        root, a, incs = A.offphi[v]
        if any(o is None for o, _ in incs):
            return None
        return [(o, bb, fn.where[v]) for o, bb in incs]
    d = fn.defs.get(atom)
    if d is None or d["op"] != "phi" or not d["ty"].startswith("i") or d["ty"] == "i1":
        return None
    return [(A.lin(inc["v"]), inc["bb"], fn.where[atom]) for inc in d["incoming"]]


def entails_split(fn, A, F, goal, hdr, blk, depth=0, lf=None):
    Fl = [f for f in F if isinstance(f, Lin)]
    if entails(Fl, goal):
        return True
    if depth >= 3:
        return False
    atoms = set(goal.atoms())
    for f in Fl:
        atoms |= f.atoms()

    def splittable(a):
        mc = merge_cases(fn, A, a)
        return a not in hdr and mc and fn.dominates(mc[0][2], blk)

    cand = [a for a in sorted(goal.atoms()) if splittable(a)]
    if not cand:
        cand = [a for a in sorted(atoms) if splittable(a)]
    for a in cand[:2]:
        cases = merge_cases(fn, A, a)
        pb = cases[0][2]
        group = {}
        for b2 in sorted(atoms | set(goal.atoms())):
            mc = merge_cases(fn, A, b2)
            if b2 not in hdr and mc and mc[0][2] == pb:
                group[b2] = {pred: val for (val, pred, _) in mc}
        preds = sorted({pred for (_, pred, _) in cases})
        ok = True
        for pred in preds:
            sub = {b2: m[pred] for b2, m in group.items() if pred in m}
            if any(b2 in v.atoms() for b2, v in sub.items()):
                ok = False
                break

            def S(l, sub=sub):
                for b2, v in sub.items():
                    l = l.subst(b2, v)
                return l
            extra = lf(pred) if lf else []
            gf = normalize_facts(block_exit_facts(fn, A, pred, pb), Fl + extra)
            F2 = [S(f) for f in Fl] + [S(g) for g in gf] + extra
            if not entails_split(fn, A, F2, S(goal), hdr, blk, depth + 1, lf):
                ok = False
                break
        if ok:
            return True
    return False


def default_roles(fn):
    """(buffer parameter, length parameter, unit or None) pairs from the regular parameter naming of the library"""
    pn = [p["name"] for p in fn.j["params"]]
    r = []
    for b, l in (("dest", "dmax"), ("dest", "dlen"), ("dest", "len"), ("src", "slen"), ("src", "smax"), ("str", "smax"), ("buffer", "maxlen"),
                 ("buffer", "bufsize"), ("b1", "n"), ("b2", "n"), ("b1", "len"), ("b2", "len"), ("src", "count"), ("src", "n"), ("base", "basebos")):
        if b in pn and l in pn and not any(x[0] == b for x in r):
            r.append((b, l, None))
    if not r and fn.internal:
        # a file-local helper `f(T *p, size n)` extracted from an entry point (clearing the slack, filling a field): whatever it is called
        # with, it may touch n elements from p -- an obligation inside the helper, and at every call site one on (pointer, n) like for the
        # library's own clearing helpers
        ptrs = [p for p in fn.j["params"] if p["ty"].endswith("*")]
        ints = [p for p in fn.j["params"] if p["ty"] in ("i64", "i32")]
        if len(ptrs) == 1 and len(ints) == 1 and len(fn.j["params"]) == 2 and not fn.j.get("vararg"):
            nid = ints[0]["id"]
            seeds = {nid}
            for _ in range(3):
                for i in fn.insts():
                    if "id" in i and i["op"] in ("zext", "trunc", "mul", "shl") and i["ops"][0].get("id") in seeds:
                        seeds.add(i["id"])
            is_len = any(i["op"] == "phi" and i["_bb"] in fn.loops and any(x["v"].get("id") in seeds for x in i["incoming"]) for i in fn.insts()) or \
                any(i["op"] == "call" and (i.get("callee") or "").startswith(("llvm.memset", "memset", "wmemset")) and len(i.get("args", ())) > 2 and i["args"][2].get("id") in seeds for i in fn.insts())
            if is_len:
                r.append((ptrs[0]["name"], ints[0]["name"], None))
    return r


BYTE_DMAX = ("_memcpy16_s_chk", "_memcpy32_s_chk", "_memmove16_s_chk", "_memmove32_s_chk", "_memset16_s_chk", "_memset32_s_chk")


# library-internal writers whose result is the number of elements stored: callee -> (buffer argument, element size)
COUNT_RESULT = {"safec_vsnprintf_s": (2, 1)}

def api_base(name):
    return name[1:-4] if name.startswith("_") and name.endswith("_chk") else name


NOSLACK = False           # set by the driver while the no-slack configuration is analysed

READONLY_DEST = set()     # library functions that never write through their 'dest' parameter (search / compare / test functions): set by all_roles()


def all_roles(prog):
    from .derive import Summaries
    summ = Summaries(prog)
    READONLY_DEST.clear()
    for fn in prog.allfuncs:
        k = fn.param_index("dest")
        if k is not None and k not in summ.w.get((fn.mod["tu"], fn.name), ()):
            READONLY_DEST.add(fn.name)
    roles = {}
    for fn in prog.allfuncs:
        roles[fn.name] = default_roles(fn)
    for n in BYTE_DMAX:
        if n in roles:
            roles[n] = [("dest", "dmax", 1)] + [x for x in roles[n] if x[0] != "dest"]
    if "_wcstombs_s_chk" in roles and not any(x[0] == "src" for x in roles["_wcstombs_s_chk"]):
        roles["_wcstombs_s_chk"].append(("src", "len", 4))      # at most len bytes are produced, each wide character yields at least one
    if "_bsearch_s_chk" in roles:
        roles["_bsearch_s_chk"] = [("base", "basebos", 1)]
    return roles
