"""In-memory model of the JSON IR: Program / Module / Fn with CFG, dominators, loops, def-use."""
from collections import defaultdict


def operands(i):
    """all value operands of an instruction (dict form)"""
    for k in ("ops", "args"):
        for o in i.get(k, ()):
            yield o
    if "base" in i:
        yield i["base"]
    for t in i.get("terms", ()):
        yield t["v"]
    for inc in i.get("incoming", ()):
        yield inc["v"]
    if "cond" in i:
        yield i["cond"]
    if "callee_v" in i:
        yield i["callee_v"]


def global_roots(o, acc=None):
    """names of globals / functions referenced by a (constant) operand"""
    if acc is None:
        acc = set()
    k = o.get("k")
    if k == "g":
        acc.add(o["name"])
    elif k == "ce":
        if "base" in o:
            global_roots(o["base"], acc)
        for t in o.get("terms", ()):
            global_roots(t["v"], acc)
        for x in o.get("ops", ()):
            global_roots(x, acc)
    return acc


def is_val(o):
    return o.get("k") == "v"


class Fn:
    def __init__(s, j, mod):
        s.j = j
        s.name = j["name"]
        s.mod = mod
        s.internal = j["internal"]
        s.file = j.get("file") or mod.get("tu")
        s.line = j.get("line")
        s.blocks = {b["id"]: b for b in j["blocks"]}
        s.order = [b["id"] for b in j["blocks"]]
        s.entry = s.order[0] if s.order else None
        s.defs = {}
        s.where = {}
        s.pos = {}
        for b in j["blocks"]:
            for k, i in enumerate(b["insts"]):
                i["_bb"] = b["id"]
                i["_k"] = k
                if "id" in i:
                    s.defs[i["id"]] = i
                    s.where[i["id"]] = b["id"]
        s.params = {p["id"]: p for p in j["params"]}
        s.pnames = {p["name"]: p for p in j["params"]}
        s.succ = defaultdict(list)
        for b in j["blocks"]:
            t = b["insts"][-1]
            if t["op"] == "br":
                s.succ[b["id"]].append(t["t"])
                if "f" in t and t["f"] != t["t"]:
                    s.succ[b["id"]].append(t["f"])
            elif t["op"] == "switch":
                for x in [t["default"]] + [c["bb"] for c in t["cases"]]:
                    if x not in s.succ[b["id"]]:
                        s.succ[b["id"]].append(x)
        s.preds = {b["id"]: list(dict.fromkeys(b["preds"])) for b in j["blocks"]}
        s.loops = {l["header"]: l for l in j["loops"]}
        for l in s.loops.values():
            l["_set"] = set(l["blocks"])
        s.idom = {b["id"]: b.get("idom") for b in j["blocks"]}
        s._domdepth = {}
        s._users = None

    # ------------------------------------------------------------------ basic queries
    def insts(s):
        for b in s.j["blocks"]:
            for i in b["insts"]:
                yield i

    def term(s, bb):
        return s.blocks[bb]["insts"][-1]

    def dominates(s, a, b):
        while b is not None:
            if a == b:
                return True
            b = s.idom.get(b)
        return False

    def inst_dominates(s, i, j):
        """instruction i dominates instruction j (strictly before in same block, or block dominance)"""
        if i["_bb"] == j["_bb"]:
            return i["_k"] < j["_k"]
        return s.dominates(i["_bb"], j["_bb"])

    def users(s):
        if s._users is None:
            u = defaultdict(list)
            for i in s.insts():
                for o in operands(i):
                    if o.get("k") == "v":
                        u[o["id"]].append(i)
            s._users = u
        return s._users

    def rets(s):
        return [i for i in s.insts() if i["op"] == "ret"]

    def calls(s, name=None):
        for i in s.insts():
            if i["op"] in ("call", "invoke") and (name is None or i.get("callee") == name):
                yield i

    def loc(s, i):
        return "%s:%s" % (s.file, i.get("line", "?"))

    def param_index(s, name):
        for k, p in enumerate(s.j["params"]):
            if p["name"] == name:
                return k
        return None

    def reachable_from(s, bb, avoid=()):
        seen = set()
        st = [bb]
        while st:
            b = st.pop()
            if b in seen or b in avoid:
                continue
            seen.add(b)
            st.extend(s.succ[b])
        return seen


class Program:
    def __init__(s, mods):
        s.mods = mods
        s.funcs = {}          # name -> Fn (definitions; externals win over internals of the same name)
        s.allfuncs = []       # every definition
        s.decls = set()
        s.globals = {}        # (tu, name) -> global json
        for m in mods:
            m["gmap"] = {g["name"]: g for g in m["globals"]}
            m["fmap"] = {}
            for g in m["globals"]:
                if not g["decl"]:
                    s.globals[(m["tu"], g["name"])] = g
            for F in m["functions"]:
                if F["decl"]:
                    s.decls.add(F["name"])
                    continue
                fn = Fn(F, m)
                m["fmap"][F["name"]] = fn
                s.allfuncs.append(fn)
                if F["name"] not in s.funcs or not F["internal"]:
                    s.funcs[F["name"]] = fn
        s.decls -= set(s.funcs)

    def exported(s):
        return sorted((f for f in s.allfuncs if not f.internal), key=lambda f: f.name)

    def resolve(s, fn, name):
        """callee resolution: same-module definition first (static functions), then global"""
        f = fn.mod["fmap"].get(name)
        if f is not None:
            return f
        f = s.funcs.get(name)
        if f is not None and not f.internal:
            return f
        return None

    def address_taken(s):
        """names of functions whose address is used other than as a direct callee"""
        out = set()
        for fn in s.allfuncs:
            for i in fn.insts():
                ops = list(i.get("ops", ())) + list(i.get("args", ())) + [inc["v"] for inc in i.get("incoming", ())]
                for o in ops:
                    if o.get("k") == "f":
                        out.add(o["name"])
        for m in s.mods:
            for g in m["globals"]:
                init = g.get("init")
                if init and init.get("k") == "f":
                    out.add(init["name"])
        return out


def return_sites(fn):
    """Leaves of the returned value: [(operand, block the value comes from)] following phi chains back from each ret."""
    out = []
    for r in fn.rets():
        ops = r.get("ops", ())
        if not ops:
            out.append((None, r["_bb"]))
            continue
        seen = set()
        st = [(ops[0], r["_bb"])]
        while st:
            o, bb = st.pop()
            if o.get("k") == "v":
                d = fn.defs.get(o["id"])
                if d is not None and d["op"] == "phi" and (o["id"], bb) not in seen:
                    seen.add((o["id"], bb))
                    for inc in d["incoming"]:
                        st.append((inc["v"], inc["bb"]))
                    continue
            out.append((o, bb))
    return out


def exit_line(fn, path):
    """source line that characterises the exit a path takes: the last call on it (handler / helper), else the last conditional branch"""
    if not path:
        return None
    for bb in reversed(path):
        for i in reversed(fn.blocks[bb]["insts"]):
            if i["op"] in ("call", "invoke") and not (i.get("callee") or "").startswith("llvm.") and i.get("line"):
                return i["line"]
    for bb in reversed(path):
        t = fn.term(bb)
        if t["op"] in ("br", "switch") and "cond" in t and t.get("line"):
            return t["line"]
    return fn.term(path[-1]).get("line")


def exit_message(fn, path):
    """constant message of the last constraint-handler / clearing-helper call on a path (identifies an exit semantically), or ''"""
    for bb in reversed(path or []):
        for i in reversed(fn.blocks[bb]["insts"]):
            if i["op"] == "call" and ("constraint_handler" in (i.get("callee") or "") or (i.get("callee") or "").startswith("handle_")):
                for a in i.get("args", ()):
                    for n in global_roots(a):
                        g = fn.mod["gmap"].get(n)
                        if g and "str" in g:
                            return g["str"].rstrip("\0")
                return "<computed message>"
    return ""
