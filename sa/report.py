"""Check harness: violations vs known findings, replay files, evidence, exit codes."""
import json, os, sys, time, shutil

VERIF = os.path.dirname(os.path.dirname(os.path.abspath(__file__)))
KNOWN = os.path.join(VERIF, "known_findings.json")


def load_known():
    if not os.path.exists(KNOWN):
        return {"findings": [], "fixed": []}
    with open(KNOWN) as fh:
        return json.load(fh)


class Check:
    """One run of one property's check."""

    def __init__(s, pid, tier, level="other"):
        s.pid = pid
        s.tier = tier
        s.level = level
        s.t0 = time.time()
        s.seed = int(os.environ.get("VERIF_SEED", "0") or 0)
        s.reports = []          # every rule firing: dict(key, rule, where, text, detail)
        s.broken = []           # analysis-broken messages (exit 2)
        s.notes = []
        s.assumptions = []
        s.coverage = {}
        s.samples = []
        kf = load_known()
        s.known = {f["key"]: f for f in kf.get("findings", []) if f.get("property") == pid}
        s.known_hit = set()

    # ------------------------------------------------------------------
    def report(s, key, rule, where, text, detail=None):
        """A rule fired.  key identifies the instance semantically (no line numbers)."""
        s.reports.append(dict(key=key, rule=rule, where=where, text=text, detail=detail or {}))

    def fail_broken(s, msg):
        s.broken.append(msg)

    def sample(s, x, limit=12):
        if len(s.samples) < limit:
            s.samples.append(x)

    # ------------------------------------------------------------------
    def finish(s, coverage, assumptions=()):
        cov = dict(coverage)
        cov.setdefault("samples", s.samples or ["(no obligations sampled)"])
        rdir = os.path.join(VERIF, "reports", s.pid)
        shutil.rmtree(rdir, ignore_errors=True)
        os.makedirs(rdir, exist_ok=True)
        viol = []
        known_lines = []
        seen_keys = set()
        for r in s.reports:
            if r["key"] in s.known:
                if r["key"] not in seen_keys:
                    known_lines.append("KNOWN-FINDING: property=%s %s [%s]" % (s.pid, s.known[r["key"]].get("what", r["text"]), r["key"]))
                seen_keys.add(r["key"])
                continue
            viol.append(r)
        stale = sorted(set(s.known) - seen_keys)
        for line in known_lines:
            print(line)
        n = 0
        vkeys = set()
        for r in viol:
            if r["key"] in vkeys:
                continue
            vkeys.add(r["key"])
            n += 1
            path = os.path.join(rdir, "%d.json" % n)
            with open(path, "w") as fh:
                json.dump(dict(property=s.pid, **r), fh, indent=1, default=str)
            print("%s: %s: %s" % (r["where"], r["rule"], r["text"]))
            print("VIOLATION property=%s replay=%s" % (s.pid, path))
        cov["rule_firings"] = len(s.reports)
        cov["known_findings_matched"] = sorted(seen_keys)
        cov["known_findings_not_seen_this_run"] = stale
        cov["violations_reported"] = sorted(vkeys)
        if s.notes:
            cov["notes"] = s.notes[:60]
        ev = dict(property_id=s.pid, tier=s.tier, seed=s.seed, level=s.level, coverage=cov,
                  assumptions=list(assumptions) + s.assumptions, wall_s=round(time.time() - s.t0, 2), violations=n)
        if s.broken:
            ev["coverage"]["analysis_broken"] = s.broken[:20]
        os.makedirs(os.path.join(VERIF, "evidence"), exist_ok=True)
        with open(os.path.join(VERIF, "evidence", s.pid + ".json"), "w") as fh:
            json.dump(ev, fh, indent=1, default=str)
        if s.broken:
            for b in s.broken[:20]:
                print("ANALYSIS-BROKEN property=%s %s" % (s.pid, b))
            return 2
        if n:
            return 1
        print("OK property=%s tier=%s %s wall=%.1fs" % (s.pid, s.tier, cov.get("summary", ""), time.time() - s.t0))
        return 0
