"""Byte accounting of the memory primitives (C06: "complete", C01: "inside dest").

Claim decided for one primitive  f(dest, [src,] n)  with element size u:  on every path from entry to return the stores through `dest`
tile the byte range [0, n*u) of dest exactly once, in one direction, without gap or overlap -- and, for the copying primitives, the
value stored at offset k is the value loaded from src at offset k.

Method (nothing is executed):
 * values are linear forms over atoms (sa/lin.py); x >> k and x & (2^k-1) of the *same* value are tied by x = 2^k q + r;
   pointers are (root, byte offset); (a|b)&m, (a^b)&m are atoms with the lemma  (a^b)&m == 0  =>  a&m == b&m == (a|b)&m;
 * every loop is summarised by a *progress rule* verified over all acyclic paths of its body: the counter c drops by d >= 1 and stays
   >= lo, every cursor moves by exactly s*d bytes, the stores of the iteration tile [p, p') exactly, each stored value is the load at
   the same relative source offset.  Unrolled switch bodies (Duff-style) are ordinary paths: `case k` carries the fact c == k;
 * the function is then walked path by path with each loop replaced by "c_in - c_L counts were processed" (c_L a fresh atom with
   lo <= c_L <= c_in), followed by the loop's last, exiting, partial iteration walked concretely;
 * at every return the written intervals, in program order, must chain from 0 to n*u (or from n*u down to 0).
Every subtraction must be entailed not to wrap (result >= 0).  Unsupported shapes raise Broken (exit 2), never a verdict."""
from .lin import Lin, entails, fm_unsat


class Broken(Exception):
    pass


def _eq(F, a, b):
    return entails(F, a - b) and entails(F, b - a)


class Acct:
    def __init__(self, fn, dest, count, unit, src=None, pre_lo=0, max_paths=4000):
        self.fn, self.unit, self.max_paths = fn, unit, max_paths
        P = fn.pnames
        self.dest = P[dest]["id"] if dest else None
        self.count = P[count]["id"] if count else None
        self.src = P[src]["id"] if src else None
        self.roots = {}
        if self.dest:
            self.roots[self.dest] = "D"
        if self.src:
            self.roots[self.src] = "S"
        self.rootnames = set(self.roots.values())
        self.calls_opaque = False
        self._reads = None          # when a list: every load through a rooted pointer is appended as (root, offset, size, instruction)
        self.N = Lin.atom("N")
        self.T = self.N.scale(unit)
        self.base_facts = [self.N - Lin.const(pre_lo)]
        self.problems = []          # (key, where, text)
        self.paths = 0
        self.summaries = {}
        self._summarising = set()
        self.bitatoms = {}          # atom -> ("xorm"|"orm", a, b, k)
        self.nfresh = 0
        self.stats = dict(loops=0, iteration_paths=0, stores=0, obligations=0)

    # ---- problems ----------------------------------------------------------------------------------------------------------------
    def problem(self, kind, where, text):
        key = "%s:%s:%s" % (self.fn.name, kind, where)
        if not any(k == key for k, _, _ in self.problems):
            self.problems.append((key, where, text))

    # ---- evaluation --------------------------------------------------------------------------------------------------------------
    def split(self, x, k, facts):
        """atoms q, r with x = 2^k q + r, 0 <= r < 2^k, q >= 0 (facts appended once per (x, k))"""
        q, r = Lin.atom("((%r)>>%d)" % (x, k)), Lin.atom("((%r)&%d)" % (x, (1 << k) - 1))
        new = [q, r, Lin.const((1 << k) - 1) - r, x - q.scale(1 << k) - r, q.scale(1 << k) + r - x]
        have = {f.key() for f in facts}
        for f in new:
            if f.key() not in have:
                facts.append(f)
        return q, r

    def val(self, o, env, facts):
        if o.get("k") == "c":
            return Lin.const(o["v"])
        if o.get("k") == "null":
            return None
        if o.get("k") != "v":
            return None
        v = o["id"]
        if v in env:
            return env[v]
        if v == self.count:
            return self.N
        if v in self.roots:
            return (self.roots[v], Lin.const(0))
        if v in self.fn.params:
            r = Lin.atom("param:" + v)
            env[v] = r
            return r
        d = self.fn.defs.get(v)
        if d is None:
            return None
        if d.get("ty", "").startswith("i") and not d["ty"].endswith("*"):
            r = Lin.atom("ext:" + v)          # defined outside the region being evaluated (loop-invariant value)
            env[v] = r
            return r
        if d.get("ty", "").endswith("*") and self.families().get(v):
            r = (self.families()[v], Lin.atom("ext:" + v))          # a pointer of known origin defined outside the region (loop-invariant)
            env[v] = r
            return r
        raise Broken("%s used before it was evaluated on this path (%s)" % (v, d["op"]))

    def exec_inst(self, i, env, facts, writes, where_ok=True):
        op = i["op"]
        fn = self.fn
        if op == "phi":
            return
        if op == "store":
            p = self.val(i["ops"][1], env, facts)
            if isinstance(p, tuple) and p[0] in self.rootnames:
                if p[0] == "S":
                    self.problem("store-into-source", fn.loc(i), "%s stores through a pointer derived from its source operand" % fn.name)
                    return
                val = self.val(i["ops"][0], env, facts)
                writes.append((p[1], p[1] + Lin.const(i["size"]), val, i))
                self.stats["stores"] += 1
            elif p is not None and not isinstance(p, tuple):
                raise Broken("store through a computed integer in %s" % fn.name)
            return
        if op in ("call", "invoke"):
            cal = i.get("callee") or ""
            if i.get("asm") or cal.startswith("llvm.") or cal == "":
                if cal.startswith("llvm.mem"):
                    raise Broken("library memory intrinsic inside a primitive (%s)" % cal)
                return
            if not self.calls_opaque:
                raise Broken("call to %s inside a primitive" % cal)
            if "id" in i and i.get("ty", "").startswith("i"):
                env[i["id"]] = Lin.atom("call:%s" % i["id"])
            elif "id" in i:
                env[i["id"]] = None
            return
        if "id" not in i:
            return
        r = None
        if op in ("zext", "sext", "trunc", "bitcast", "freeze"):
            r = self.val(i["ops"][0], env, facts)
        elif op == "ptrtoint":
            p = self.val(i["ops"][0], env, facts)
            r = Lin.atom("addr:" + p[0]) + p[1] if isinstance(p, tuple) and p[0] in self.rootnames else None
        elif op == "inttoptr":
            raise Broken("inttoptr in %s" % fn.name)
        elif op == "getelementptr":
            p = self.val(i["base"], env, facts)
            if isinstance(p, tuple) and p[0] in self.rootnames:
                off = p[1] + Lin.const(i.get("coff", 0))
                for t in i.get("terms", ()):
                    x = self.val(t["v"], env, facts)
                    if not isinstance(x, Lin):
                        raise Broken("pointer step by a non-linear value in %s (%s)" % (fn.name, fn.loc(i)))
                    off = off + x.scale(t["stride"])
                r = (p[0], off)
        elif op == "load":
            p = self.val(i["ops"][0], env, facts)
            if isinstance(p, tuple) and p[0] in self.rootnames:
                r = ("ld", p[0], p[1], i["size"])
                if self._reads is not None:
                    self._reads.append((p[0], p[1], i["size"], i))
            else:
                r = None
        elif op in ("add", "sub"):
            a, b = self.val(i["ops"][0], env, facts), self.val(i["ops"][1], env, facts)
            if isinstance(a, Lin) and isinstance(b, Lin):
                r = a + b if op == "add" else a - b
                neg = op == "sub" or (b.is_const() and b.c < 0) or (a.is_const() and a.c < 0)
                if neg:
                    self.stats["obligations"] += 1
                    if not entails(facts, r):
                        self.problem("count-may-wrap", fn.loc(i), "%s: %s = %s may be negative (unsigned wrap-around of a count) under the conditions of this path" % (fn.name, i["id"], r))
                        facts.append(r)          # report once, continue as if it held
        elif op == "mul":
            a, b = self.val(i["ops"][0], env, facts), self.val(i["ops"][1], env, facts)
            if isinstance(a, Lin) and isinstance(b, Lin) and (a.is_const() or b.is_const()):
                r = b.scale(a.c) if a.is_const() else a.scale(b.c)
        elif op in ("udiv", "lshr") and i["ops"][1].get("k") == "c":
            a = self.val(i["ops"][0], env, facts)
            c = i["ops"][1]["v"]
            k = c if op == "lshr" else (c.bit_length() - 1 if c > 0 and c & (c - 1) == 0 else None)
            if isinstance(a, Lin) and k is not None:
                r = self.split(a, k, facts)[0]
        elif op == "shl" and i["ops"][1].get("k") == "c":
            a = self.val(i["ops"][0], env, facts)
            if isinstance(a, Lin):
                r = a.scale(1 << i["ops"][1]["v"])
        elif op in ("and", "urem") and i["ops"][1].get("k") == "c":
            a = self.val(i["ops"][0], env, facts)
            m = i["ops"][1]["v"] + (0 if op == "and" else -1) if op == "urem" else i["ops"][1]["v"]
            k = (m + 1).bit_length() - 1 if m >= 0 and (m + 1) & m == 0 else None
            if k is not None:
                if isinstance(a, Lin):
                    r = self.split(a, k, facts)[1]
                elif isinstance(a, tuple) and a[0] in ("or", "xor"):
                    name = "((%r)%s(%r))&%d" % (a[1], "|" if a[0] == "or" else "^", a[2], m)
                    self.bitatoms[name] = (a[0], a[1], a[2], k)
                    r = Lin.atom(name)
                    for f in (r, Lin.const(m) - r):
                        facts.append(f)
        elif op in ("or", "xor"):
            a, b = self.val(i["ops"][0], env, facts), self.val(i["ops"][1], env, facts)
            if isinstance(a, Lin) and isinstance(b, Lin):
                a, b = sorted((a, b), key=lambda x: str(x.key()))
                r = (op, a, b)
        elif op == "icmp":
            a, b = self.val(i["ops"][0], env, facts), self.val(i["ops"][1], env, facts)
            if isinstance(a, Lin) and isinstance(b, Lin):
                r = ("cmp", i["pred"], a, b)
        elif op == "select":
            if not self.calls_opaque:
                raise Broken("select in %s" % fn.name)
        if r is None and i.get("ty", "").startswith("i") and i["ty"] != "i1" and op not in ("load",):
            self.nfresh += 1
            r = Lin.atom("opaque:%s" % i["id"])
        env[i["id"]] = r

    def assume(self, cond, truth, facts):
        """facts of taking the branch; None when the side is infeasible"""
        new = []
        if isinstance(cond, Lin) and cond.is_const():
            return [] if (cond.c != 0) == truth else None
        if isinstance(cond, tuple) and cond[0] == "cmp":
            _, pred, a, b = cond
            if not truth:
                pred = {"eq": "ne", "ne": "eq", "ugt": "ule", "uge": "ult", "ult": "uge", "ule": "ugt", "sgt": "sle", "sge": "slt", "slt": "sge", "sle": "sgt"}[pred]
            if pred in ("ugt", "sgt"):
                new = [a - b - Lin.const(1)]
            elif pred in ("uge", "sge"):
                new = [a - b]
            elif pred in ("ult", "slt"):
                new = [b - a - Lin.const(1)]
            elif pred in ("ule", "sle"):
                new = [b - a]
            elif pred == "eq":
                new = [a - b, b - a]
                d = a - b
                for atom, (kind, x, y, k) in self.bitatoms.items():
                    if kind == "xor" and d == Lin.atom(atom):          # (x^y)&m == 0  =>  x&m == y&m == (x|y)&m
                        rx, ry = self.split(x, k, facts)[1], self.split(y, k, facts)[1]
                        new += [rx - ry, ry - rx]
                        on = "((%r)|(%r))&%d" % (x, y, (1 << k) - 1)
                        if on in self.bitatoms:
                            new += [Lin.atom(on) - rx, rx - Lin.atom(on)]
            elif pred == "ne":
                d = a - b
                if entails(facts, d):
                    new = [d - Lin.const(1)]
                elif entails(facts, -d):
                    new = [-d - Lin.const(1)]
        if new and fm_unsat(facts + new):
            return None
        return new

    # ---- loop progress rule ------------------------------------------------------------------------------------------------------
    def loop_summary(self, h):
        """progress rule of the loop headed by h, verified over all acyclic paths of one iteration (inner loops are summarised in turn).
        Modes: the counter decreases (and stays >= lo: 0 for guarded loops, 1 for do-while loops) or increases towards a bound.
        The destination position is a pointer header phi, or -- for `for (i = ..) dp[i] = ..` -- the linear expression of the first store."""
        if h in self.summaries:
            return self.summaries[h]
        if h in self._summarising:
            raise Broken("irreducible nesting at loop %s" % h)
        self._summarising.add(h)
        fn = self.fn
        L = fn.loops[h]["_set"]
        phis = [i for i in fn.blocks[h]["insts"] if i["op"] == "phi"]
        iphis = [p for p in phis if not p["ty"].endswith("*")]
        pphis = [p for p in phis if p["ty"].endswith("*")]
        if len(iphis) != 1:
            raise Broken("loop %s of %s has %d integer header phis (one counter expected)" % (h, fn.name, len(iphis)))
        cphi = iphis[0]
        fam = self.families()
        roots = {p["id"]: fam.get(p["id"]) for p in pphis}
        if any(r is None for r in roots.values()):
            raise Broken("loop %s of %s carries a pointer of unknown origin" % (h, fn.name))
        result = None
        last_notes = []
        catom = "c@" + h
        for (mode, lo) in (("dec", 0), ("dec", 1), ("inc", 0)):
            saved = list(self.problems)
            c = Lin.atom(catom)
            env0 = {cphi["id"]: c}
            for p in pphis:
                env0[p["id"]] = (roots[p["id"]], Lin.atom("p@" + p["id"]))
            paths = []          # (facts, env, writes, from block)
            facts0 = [c - Lin.const(lo)]
            dd_ = [p for p in pphis if roots[p["id"]] == "D"]
            ss_ = [p for p in pphis if roots[p["id"]] == "S"]
            if dd_ and ss_:
                # the summary is used only where the two cursors are in step at the loop head (checked by _enter_loop at every application)
                e_ = env0[dd_[0]["id"]][1] - env0[ss_[0]["id"]][1]
                facts0 += [e_, -e_]
            self._walk(h, None, dict(env0), facts0, [], None, 0, stop=(h, L, paths))
            ok = True
            strides = {}
            notes = []
            sgn = 1 if mode == "dec" else -1
            # strides from paths with constant progress
            for (facts, env, writes, bb) in paths:
                c2 = self._incoming(cphi, bb, env, facts)
                d = (c - c2).scale(sgn)
                if d.is_const() and d.c != 0:
                    for p in pphis:
                        p2 = self._incoming(p, bb, env, facts)
                        dp = p2[1] - env0[p["id"]][1]
                        if not dp.is_const():
                            ok = False; notes.append("cursor %s moves by a non-constant amount" % p["id"]); continue
                        s_ = dp.c / d.c
                        if strides.setdefault(p["id"], s_) != s_:
                            ok = False; notes.append("cursor %s moves by different amounts per count on different paths" % p["id"])
            dph = [p for p in pphis if roots[p["id"]] == "D"]
            sph = [p for p in pphis if roots[p["id"]] == "S"]
            if len(dph) > 1:
                raise Broken("loop %s of %s carries %d destination cursors" % (h, fn.name, len(dph)))
            pos_tpl = spos_tpl = None          # index mode: position of the first store (and of its source element) as a function of the counter
            step_bytes = None
            for (facts, env, writes, bb) in paths:
                self.stats["iteration_paths"] += 1
                c2 = self._incoming(cphi, bb, env, facts)
                d = (c - c2).scale(sgn)
                if not entails(facts, d - Lin.const(1)):
                    ok = False; notes.append("no progress: the counter does not %s on the path through %s" % ("decrease" if mode == "dec" else "increase", bb))
                if mode == "dec" and not entails(facts, c2 - Lin.const(lo)):
                    ok = False; notes.append("counter may drop below %d on the path through %s" % (lo, bb))
                for p in pphis:
                    s_ = strides.get(p["id"])
                    p2 = self._incoming(p, bb, env, facts)
                    if s_ is None:
                        ok = False; notes.append("no stride for cursor %s" % p["id"]); continue
                    if not _eq(facts, p2[1] - env0[p["id"]][1], d.scale(s_)):
                        ok = False
                        notes.append("on the path through %s cursor %s moves by %s for a counter change of %s (expected %s per count)" % (bb, p["id"], p2[1] - env0[p["id"]][1], d, s_))
                # tiling of the iteration's stores
                if dph:
                    P0 = env0[dph[0]["id"]][1]
                    P1 = self._incoming(dph[0], bb, env, facts)[1]
                    fwd = strides.get(dph[0]["id"], 1) > 0
                else:
                    if not writes:
                        ok = False; notes.append("an iteration (path through %s) stores nothing into dest" % bb); continue
                    first = min(writes, key=lambda w: (w[0] - writes[0][0]).c if (w[0] - writes[0][0]).is_const() else 0)
                    P0 = first[0]
                    if catom not in P0.t:
                        ok = False; notes.append("the stores do not move with the loop counter (path through %s)" % bb); continue
                    P1 = P0.subst(catom, c2)
                    fwd = (P0.t[catom] > 0) == (mode == "inc")
                    if pos_tpl is None:
                        pos_tpl = P0
                        step_bytes = P0.t[catom]
                    elif pos_tpl != P0:
                        ok = False; notes.append("different iterations store at differently computed positions"); continue
                    if not fwd:
                        # a descending index: the iteration's stores lie below P0's successor; normalise to [lo, hi)
                        pass
                lo_, hi_ = (P0, P1) if fwd else (P1, P0)
                if not dph and not fwd:
                    # index running downwards: the element at index c is [P0, P0 + size): shift the tile by one element
                    size0 = (first[1] - first[0])
                    lo_, hi_ = P1 + size0, P0 + size0
                ws = sorted(writes, key=lambda w: (w[0] - P0).c if (w[0] - P0).is_const() else 0)
                cur = lo_
                src0 = None
                for (a, b, val, inst) in ws:
                    if not (a - P0).is_const():
                        ok = False; notes.append("store at a non-constant distance from the cursor (%s)" % fn.loc(inst)); break
                    if not _eq(facts, a, cur):
                        ok = False; notes.append("stores of one iteration leave a gap or overlap at %s (path through %s)" % (fn.loc(inst), bb)); break
                    cur = b
                    if self.src is not None and val != "loop":
                        good = isinstance(val, tuple) and val[0] == "ld" and val[1] == "S" and val[3] == inst["size"]
                        if good and sph:
                            good = (val[2] - env0[sph[0]["id"]][1]) == (a - P0)
                        elif good:
                            if src0 is None:
                                src0 = val[2] - (a - P0)
                            good = (val[2] - (a - P0)) == src0
                        if not good:
                            ok = False; notes.append("the value stored at %s is not the source element at the same offset" % fn.loc(inst)); break
                else:
                    if not _eq(facts, cur, hi_):
                        ok = False; notes.append("the stores of one iteration cover %s bytes but the position moves by %s (path through %s)" % (cur - lo_, hi_ - lo_, bb))
                if not dph and self.src is not None and src0 is not None:
                    if spos_tpl is None:
                        spos_tpl = src0
                    elif spos_tpl != src0:
                        ok = False; notes.append("different iterations read differently computed source positions")
            wrapped = [t for (k, w, t) in self.problems[len(saved):]]
            if ok and paths and not wrapped:
                result = dict(counter=cphi["id"], mode=mode, lo=lo, strides=strides, roots=roots, paths=len(paths), catom=catom,
                              pos=pos_tpl, spos=spos_tpl, step=step_bytes)
                break
            self.problems = saved          # problems of a failed attempt are folded into the loop's own report
            last_notes = last_notes + ["[counter %s, >= %d at the loop head] " % ("decreasing" if mode == "dec" else "increasing", lo) + x for x in notes + wrapped]
        if result is None:
            self.problem("loop-progress", h, "%s, loop %s: %s" % (fn.name, h, "; ".join(dict.fromkeys(last_notes)) or "no iteration path"))
            result = dict(counter=cphi["id"], mode="dec", lo=0, strides={p["id"]: 0 for p in pphis}, roots=roots, paths=0, failed=True, catom=catom, pos=None, spos=None, step=None)
        self.stats["loops"] += 1
        self._summarising.discard(h)
        self.summaries[h] = result
        return result

    def _incoming(self, phi, bb, env, facts):
        o = next(x["v"] for x in phi["incoming"] if x["bb"] == bb)
        return self.val(o, env, facts)

    def _instantiate(self, tpl, catom, cval, env, facts):
        """a position template of a loop summary in the context of the walk: the counter atom becomes cval, atoms of values defined outside
        the loop become their values here"""
        out = Lin.const(tpl.c)
        for a, k in tpl.t.items():
            if a == catom:
                out = out + cval.scale(k)
            elif a.startswith("ext:"):
                v = self.val({"k": "v", "id": a[4:]}, env, facts)
                if isinstance(v, tuple) and v[0] in self.rootnames:
                    v = v[1]
                if not isinstance(v, Lin):
                    raise Broken("value %s used by a summarised loop is not linear here" % a[4:])
                out = out + v.scale(k)
            else:
                out = out + Lin.atom(a).scale(k)
        return out

    def _succs(self, bb, env, facts):
        fn = self.fn
        t = fn.term(bb)
        if t["op"] in ("ret", "unreachable"):
            return []
        if t["op"] == "br" and "cond" not in t:
            return [(t["t"], [])]
        if t["op"] == "br":
            c = self.val(t["cond"], env, facts)
            return [(t["t"], self.assume(c, True, facts)), (t["f"], self.assume(c, False, facts))]
        if t["op"] == "switch":
            v = self.val(t["cond"], env, facts)
            out = []
            cases = t["cases"]
            vals = sorted(c["v"] for c in cases)
            for c in cases:
                new = [v - Lin.const(c["v"]), Lin.const(c["v"]) - v] if isinstance(v, Lin) else []
                out.append((c["bb"], None if new and fm_unsat(facts + new) else new))
            new = []
            if isinstance(v, Lin) and vals:
                lowb = None
                for cand in (vals[0], 0):
                    if entails(facts, v - Lin.const(cand)):
                        lowb = cand; break
                if lowb is not None:
                    while lowb in vals:
                        lowb += 1
                    new = [v - Lin.const(lowb)]
            out.append((t["default"], None if new and fm_unsat(facts + new) else new))
            return out
        raise Broken("terminator %s in %s" % (t["op"], fn.name))

    def families(self):
        if hasattr(self, "_fam"):
            return self._fam
        fn = self.fn
        fam = dict(self.roots)
        changed = True
        while changed:
            changed = False
            for i in fn.insts():
                if "id" not in i or i["id"] in fam or not i.get("ty", "").endswith("*"):
                    continue
                srcs = []
                if i["op"] == "getelementptr":
                    srcs = [i["base"]]
                elif i["op"] == "bitcast":
                    srcs = [i["ops"][0]]
                elif i["op"] == "phi":
                    srcs = [x["v"] for x in i["incoming"]]
                fs = {fam.get(o.get("id")) for o in srcs if o.get("k") == "v"} - {None}
                if len(fs) == 1:
                    fam[i["id"]] = fs.pop(); changed = True
        self._fam = fam
        return fam

    # ---- the function walk -------------------------------------------------------------------------------------------------------
    def run(self):
        fn = self.fn
        self._walk(fn.entry, None, {}, list(self.base_facts) + [self.N], [], None, 0)
        return dict(function=fn.name, paths=self.paths, loops=self.stats["loops"], iteration_paths=self.stats["iteration_paths"],
                    store_sites_walked=self.stats["stores"], wrap_obligations=self.stats["obligations"],
                    loop_rules={h: dict(counter=s["counter"], counter_direction=s["mode"], min_count_at_header=s["lo"], bytes_per_count={k: str(v) for k, v in s["strides"].items()},
                                        indexed_position=repr(s["pos"]) if s.get("pos") is not None else None, iteration_paths=s["paths"]) for h, s in self.summaries.items()},
                    problems=[dict(key=k, where=w, text=t) for k, w, t in self.problems])

    def _enter_loop(self, bb, pred, env, facts, writes):
        """apply the summary of the loop headed by bb: returns the variants (env, facts, writes) of 'an unknown number of iterations has
        been executed and the loop head is reached once more'"""
        fn = self.fn
        S = self.loop_summary(bb)
        blk = fn.blocks[bb]
        phis = [i for i in blk["insts"] if i["op"] == "phi"]
        cphi = next(p for p in phis if p["id"] == S["counter"])
        c_in = self._incoming(cphi, pred, env, facts)
        if not isinstance(c_in, Lin):
            raise Broken("loop %s entered with a non-linear count" % bb)
        ins = {}
        for p in phis:
            if p["id"] == S["counter"]:
                continue
            pv = self._incoming(p, pred, env, facts)
            if not (isinstance(pv, tuple) and pv[0] in self.rootnames):
                raise Broken("loop %s entered with a cursor of unknown origin" % bb)
            ins[p["id"]] = pv
        dcur = [k for k, v in ins.items() if v[0] == "D"]
        scur = [k for k, v in ins.items() if v[0] == "S"]
        if self.src is not None and dcur and scur and not _eq(facts, ins[dcur[0]][1], ins[scur[0]][1]):
            self.problem("cursors-out-of-step", bb, "%s: at the loop %s the destination cursor is at offset %s but the source cursor at %s" % (fn.name, bb, ins[dcur[0]][1], ins[scur[0]][1]))
        line = {"line": blk["insts"][0].get("line")}
        variants = []
        if S["mode"] == "dec":
            if not entails(facts, c_in - Lin.const(S["lo"])):
                self.problem("loop-entered-with-zero-count", bb, "%s: the loop at %s is entered with count %s, which is not known to be >= %d here: its counter is decremented before it is tested and wraps around"
                             % (fn.name, bb, c_in, S["lo"]))
                facts = facts + [c_in - Lin.const(S["lo"])]
            self.nfresh += 1
            cL = Lin.atom("cL%d@%s" % (self.nfresh, bb))
            cases = [(cL, facts + [cL - Lin.const(S["lo"]), c_in - cL], c_in - cL)]
        else:
            # an increasing counter: either no iteration was executed, or the previous value of the counter satisfied the loop's own
            # continuation test (evaluated below with the counter one step back)
            self.nfresh += 1
            cL = Lin.atom("cL%d@%s" % (self.nfresh, bb))
            cases = [(c_in, list(facts), Lin.const(0)), (cL, facts + [cL - c_in - Lin.const(1)], cL - c_in)]
        for k_, (cv, f2, done) in enumerate(cases):
            e2 = dict(env); w2 = list(writes); f2 = list(f2)
            e2[S["counter"]] = cv
            for k, pv in ins.items():
                s_ = S["strides"].get(k, 0)
                adv = done.scale(s_)
                if pv[0] == "D":
                    a, b = (pv[1], pv[1] + adv) if s_ >= 0 else (pv[1] + adv, pv[1])
                    w2.append((a, b, "loop", line))
                e2[k] = (pv[0], pv[1] + adv)
            if not dcur and S.get("pos") is not None:
                p_in = self._instantiate(S["pos"], S["catom"], c_in, e2, f2)
                p_L = self._instantiate(S["pos"], S["catom"], cv, e2, f2)
                up = (S["step"] > 0) == (S["mode"] == "inc")
                w2.append(((p_in, p_L) if up else (p_L, p_in)) + ("loop", line))
                if self.src is not None and S.get("spos") is not None:
                    s_in = self._instantiate(S["spos"], S["catom"], c_in, e2, f2)
                    if not _eq(f2, s_in, p_in):
                        self.problem("cursors-out-of-step", bb, "%s: at the loop %s the stores start at destination offset %s but the loads at source offset %s" % (fn.name, bb, p_in, s_in))
            if S["mode"] == "inc" and k_ == 1:
                # previous iteration: header evaluated with the counter one step back must have stayed in the loop
                prev = dict(e2); prev[S["counter"]] = cv - Lin.const(1)
                pf = list(f2); dummy = []
                for i in blk["insts"]:
                    if i["op"] != "phi":
                        self.exec_inst(i, prev, pf, dummy)
                t = fn.term(bb)
                if t["op"] == "br" and "cond" in t:
                    Lset = fn.loops[bb]["_set"]
                    side = True if (t["t"] in Lset and t["f"] not in Lset) else (False if (t["f"] in Lset and t["t"] not in Lset) else None)
                    if side is not None:
                        new = self.assume(self.val(t["cond"], prev, pf), side, pf)
                        if new is None:
                            continue
                        f2 = pf + new
            variants.append((e2, f2, w2))
        return variants

    def _walk(self, bb, pred, env, facts, writes, final_of, depth, stop=None):
        """walk the function (stop is None) or the body of the loop being summarised (stop = (header, blocks, sink): paths that come back to
        the header are recorded, paths that leave the loop are dropped)"""
        fn = self.fn
        if self.paths > self.max_paths or depth > 400 or (stop is not None and len(stop[2]) > 400):
            raise Broken("more than %d paths in %s" % (self.max_paths, fn.name))
        blk = fn.blocks[bb]
        own_header = stop is not None and bb == stop[0] and pred is None
        is_header = bb in fn.loops and not own_header and (pred is None or pred not in fn.loops[bb]["_set"])
        if is_header:
            for (e2, f2, w2) in self._enter_loop(bb, pred, env, facts, writes):
                self._block(bb, pred, e2, f2, w2, (final_of or ()) + (bb,), depth, stop, skip_phis=True)
            return
        self._block(bb, pred, dict(env), list(facts), list(writes), final_of, depth, stop, skip_phis=own_header)

    def _block(self, bb, pred, env, facts, writes, final_of, depth, stop, skip_phis):
        fn = self.fn
        blk = fn.blocks[bb]
        for i in blk["insts"]:
            if i["op"] == "phi":
                if not skip_phis:
                    inc = next((x["v"] for x in i["incoming"] if x["bb"] == pred), None)
                    env[i["id"]] = self.val(inc, env, facts) if inc is not None else None
                continue
            n0 = len(writes)
            self.exec_inst(i, env, facts, writes)
            if stop is None and len(writes) > n0 and self.src is not None:
                a, b, val, inst = writes[-1]
                if not (isinstance(val, tuple) and val[0] == "ld" and val[1] == "S" and val[3] == inst["size"] and _eq(facts, val[2], a)):
                    self.problem("wrong-source-element", fn.loc(inst), "%s: the value stored at destination offset %s is not the source element at that offset" % (fn.name, a))
        t = fn.term(bb)
        if t["op"] == "ret":
            if stop is None:
                self.paths += 1
                self._check_chain(writes, facts, bb)
            return
        for (sc, new) in self._succs(bb, env, facts):
            if new is None:
                continue
            if final_of and sc in final_of:
                continue          # the last iteration of a summarised loop leaves it (final_of: the loops whose last iteration is being walked)
            if stop is not None:
                if sc == stop[0]:
                    stop[2].append((facts + new, env, writes, bb))
                    continue
                if sc not in stop[1]:
                    continue
            nf = tuple(h_ for h_ in (final_of or ()) if sc in fn.loops[h_]["_set"]) or None
            self._walk(sc, bb, env, facts + new, writes, nf, depth + 1, stop)

    def _check_chain(self, writes, facts, bb):
        fn = self.fn
        T = self.T
        zero = Lin.const(0)
        ws = [w for w in writes]
        if fm_unsat(facts):
            return          # the conditions collected along this path contradict each other: not a path
        for direction in ("forward", "backward"):
            cur = zero if direction == "forward" else T
            ok = True
            for (a, b, val, inst) in ws:
                if direction == "forward":
                    if not _eq(facts, a, cur):
                        ok = False; break
                    cur = b
                else:
                    if not _eq(facts, b, cur):
                        ok = False; break
                    cur = a
            if ok and _eq(facts, cur, T if direction == "forward" else zero):
                return
        # diagnose in the more plausible direction
        fwd = not ws or _eq(facts, ws[0][0], zero) or not _eq(facts, ws[0][1], T)
        cur = zero if fwd else T
        for (a, b, val, inst) in ws:
            if not _eq(facts, a if fwd else b, cur):
                self.problem("gap-or-overlap", "%s" % (inst.get("line") if isinstance(inst, dict) else "?"),
                             "%s: on a path to the return at %s the bytes written so far end at offset %s but the next write %s at %s" % (fn.name, bb, cur, "starts" if fwd else "ends", a if fwd else b))
                return
            cur = b if fwd else a
        inside = entails(facts, T - cur) if fwd else entails(facts, cur)
        if inside:
            self.problem("incomplete", bb, "%s: on a path to the return at %s the writes cover the bytes %s %s of dest, not all %s: the remaining bytes are never written"
                         % (fn.name, bb, "up to offset" if fwd else "down to offset", cur, T))
        else:
            self.problem("overrun", bb, "%s: on a path to the return at %s the writes run %s %s, which is not known to stay %s: bytes outside dest[0 .. %s) may be written"
                         % (fn.name, bb, "up to offset" if fwd else "down to offset", cur, "within %s" % T if fwd else "at or above 0", T))


def account(fn, dest, count, unit, src=None, pre_lo=0):
    return Acct(fn, dest, count, unit, src, pre_lo).run()
