"""Scan completeness of budgeted search loops (C10: "... within the first dmax elements").

A query function walks an operand with a cursor and a budget counter initialised from a length argument.  The answer can equal the
standard function's answer on the first `budget` elements only if the loop gives up for lack of budget *after* it has examined all of
them.  For every loop, over all acyclic paths of one iteration (sa/accounting.py's evaluator: linear forms, guards as facts):
  * budget counters are the integer header phis that decrease by the same constant d on every back-edge path,
    cursors the pointer header phis that advance by the same constant stride;
  * an exit path is a *budget exit* for counter c when its guards bound the value c had at the loop head of the last iteration by a
    small constant; k, the largest value it can have there (0 for `while (c && ...)`, d for `do ... while (--c)`), is the budget still unspent;
  * the unspent budget must have been examined on the exit path itself: k <= d * (1 if the exit path loads through the cursor else 0).
A loop that leaves k counts unexamined (e.g. a pre-decrement `while (--c && *p)`) is reported.  Examining *more* than the budget is C02's
clause, not this one.  Loops without a (counter, cursor) pair of this shape are listed as not covered, never judged."""
from .lin import Lin, entails, fm_unsat
from .accounting import Acct, Broken


class Scan(Acct):
    def __init__(self, fn):
        Acct.__init__(self, fn, None, None, 1)
        self.calls_opaque = True
        for p in fn.j["params"]:
            if p["ty"].endswith("*"):
                self.roots[p["id"]] = "P:" + p["name"]
        self.rootnames = set(self.roots.values())

    def loop(self, h):
        """dict(kind=..., counters=[...], findings=[...]) for the loop headed by h"""
        fn = self.fn
        L = fn.loops[h]["_set"]
        phis = [i for i in fn.blocks[h]["insts"] if i["op"] == "phi"]
        iphis = [p for p in phis if not p["ty"].endswith("*") and p["ty"] != "i1"]
        pphis = [p for p in phis if p["ty"].endswith("*")]
        fam = self.families()
        cursors = [p for p in pphis if fam.get(p["id"])]
        if not iphis or not cursors:
            return dict(kind="no counter/cursor pair", covered=False)
        env0, facts0 = {}, []
        for p in iphis:
            a = Lin.atom("c@" + p["id"])
            env0[p["id"]] = a
            facts0.append(a)
        for p in pphis:
            env0[p["id"]] = (fam[p["id"]], Lin.atom("p@" + p["id"])) if fam.get(p["id"]) else None
        for p in phis:
            if p["ty"] == "i1":
                env0[p["id"]] = None
        paths, exits = [], []
        self._reads = []
        # reads are recorded per path: wrap _iter_paths so that each recorded path carries its own reads
        self._path_reads = {}
        try:
            self._collect(h, h, None, dict(env0), list(facts0), [], paths, exits, L)
        except Broken as e:
            return dict(kind="unsupported: %s" % e, covered=False)
        finally:
            self._reads = None
        if not paths:
            return dict(kind="no iteration path", covered=False)
        # counters and cursors with constant steps
        counters = {}
        for p in iphis:
            ds = set()
            for (facts, env, reads, bb) in paths:
                v2 = self._incoming(p, bb, env, facts)
                d = env0[p["id"]] - v2 if isinstance(v2, Lin) else None
                ds.add(d.c if d is not None and d.is_const() else None)
            if len(ds) == 1 and None not in ds and list(ds)[0] > 0:
                counters[p["id"]] = list(ds)[0]
        strides = {}
        for p in cursors:
            ss = set()
            for (facts, env, reads, bb) in paths:
                v2 = self._incoming(p, bb, env, facts)
                d = v2[1] - env0[p["id"]][1] if isinstance(v2, tuple) and v2[0] == fam[p["id"]] else None
                ss.add(d.c if d is not None and d.is_const() else None)
            if len(ss) == 1 and None not in ss and list(ss)[0] != 0:
                strides[p["id"]] = list(ss)[0]
        if not counters or not strides:
            return dict(kind="no constant-step counter/cursor pair", covered=False, counters=sorted(counters), cursors=sorted(strides))
        findings = []
        budget_exits = 0
        for cid, d in sorted(counters.items()):
            c = env0[cid]
            for (facts, env, reads, bb, sc) in exits:
                if fm_unsat(facts):
                    continue
                k = None
                top = int(d) * 2
                if entails(facts, Lin.const(top) - c):          # the guards of this exit bound the counter: a budget exit
                    for cand in range(top, -1, -1):
                        if not fm_unsat(facts + [c - Lin.const(cand), Lin.const(cand) - c]):
                            k = cand; break          # the largest value the counter can have here
                if k is None:
                    continue
                budget_exits += 1
                for pid, s in sorted(strides.items()):
                    P0 = env0[pid][1]
                    root = fam[pid]
                    examined = any(r[0] == root and (r[1] - P0).is_const() and 0 <= (r[1] - P0).c * (1 if s > 0 else -1) < abs(s) + (0 if s > 0 else 1) for r in reads) if s > 0 else \
                        any(r[0] == root and (r[1] - P0).is_const() and s <= (r[1] - P0).c < 0 for r in reads)
                    if k > d * (1 if examined else 0):
                        findings.append(dict(counter=cid, cursor=pid, exit_from=bb, exit_to=sc, unspent=k, step=d,
                                             text="the loop at %s leaves through %s -> %s for lack of budget while %s still holds %d: %s of the declared elements of %s %s never examined"
                                             % (h, bb, sc, cid, k, "the last %d" % (k // d) if k >= d else "part", root[2:], "are" if k // d != 1 else "is")))
        return dict(kind="budget scan", covered=True, counters={k: str(v) for k, v in counters.items()}, cursors={k: str(v) for k, v in strides.items()},
                    iteration_paths=len(paths), exit_paths=len(exits), budget_exits=budget_exits, findings=findings)

    def _collect(self, h, bb, pred, env, facts, reads, paths, exits, L, depth=0):
        fn = self.fn
        if len(paths) + len(exits) > 600 or depth > 200:
            raise Broken("too many paths in loop %s" % h)
        env = dict(env); facts = list(facts); reads = list(reads)
        self._reads = reads
        dummy = []
        for i in fn.blocks[bb]["insts"]:
            if i["op"] == "phi":
                if bb != h:
                    inc = next((x["v"] for x in i["incoming"] if x["bb"] == pred), None)
                    env[i["id"]] = self.val(inc, env, facts) if inc is not None else None
                continue
            self.exec_inst(i, env, facts, dummy)
        for (sc, new) in self._succs(bb, env, facts):
            if new is None:
                continue
            f2 = facts + new
            if sc == h:
                paths.append((f2, env, reads, bb))
            elif sc in L and sc in fn.loops and sc != h:
                # an inner loop is a black box: continue at each of its exits, values defined inside it are opaque
                inner = fn.loops[sc]["_set"]
                for b2 in sorted(inner):
                    for t2 in fn.succ[b2]:
                        if t2 not in inner:
                            if t2 == h:
                                paths.append((f2, env, reads, b2))
                            elif t2 in L:
                                self._collect(h, t2, b2, env, f2, reads, paths, exits, L, depth + 1)
                            else:
                                exits.append((f2, env, reads, b2, t2))
            elif sc in L:
                self._collect(h, sc, bb, env, f2, reads, paths, exits, L, depth + 1)
            else:
                exits.append((f2, env, reads, bb, sc))
            self._reads = reads
