"""fork-based parallel map over functions of an already loaded Program (copy-on-write, no pickling of the IR)."""
import multiprocessing as mp, os, traceback

_CTX = {}


def _call(args):
    fname, key = args
    try:
        return key, _CTX["worker"](_CTX["prog"], key), None
    except Exception:
        return key, None, traceback.format_exc()[-1500:]


def pmap(prog, worker, keys, procs=None):
    """worker(prog, key) -> picklable result; returns {key: result}, errors {key: traceback}"""
    _CTX["prog"] = prog
    _CTX["worker"] = worker
    procs = procs or min(16, os.cpu_count() or 4)
    res = {}
    err = {}
    if procs <= 1 or len(keys) <= 1:
        for k in keys:
            _, r, e = _call((None, k))
            if e:
                err[k] = e
            else:
                res[k] = r
        return res, err
    ctx = mp.get_context("fork")
    with ctx.Pool(procs) as pool:
        for k, r, e in pool.imap_unordered(_call, [(None, k) for k in keys], chunksize=1):
            if e:
                err[k] = e
            else:
                res[k] = r
    return res, err
