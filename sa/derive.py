"""derive: pointer derivation, write/escape summaries, taint -- cheap and exact over SSA."""
from collections import defaultdict
from .ir import operands, global_roots
from .effects import external_effect

HANDLER_DISPATCH = ("invoke_safe_str_constraint_handler", "invoke_safe_mem_constraint_handler")

PTR_OPS = ("getelementptr", "bitcast", "phi", "select", "addrspacecast")
INT_OPS = ("ptrtoint", "inttoptr", "add", "sub", "and", "or", "sdiv", "udiv", "ashr", "lshr", "shl", "mul", "zext", "sext", "trunc")


def labels_of(o, der, groots):
    """labels carried by operand o: SSA derivation + globals named inside constant expressions"""
    k = o.get("k")
    if k == "v":
        return der.get(o["id"], frozenset())
    if k in ("g", "ce") and groots:
        names = global_roots(o)
        out = set()
        for n in names:
            if n in groots:
                out.add(groots[n])
        return out
    return frozenset()


def derive(fn, seeds=None, groots=None, through_int=False, max_load_depth=0, retmap=None, through_slots=True):
    """Forward closure.  seeds: {value id: label}.  groots: {global name: label}.
    Returns {value id: frozenset(labels)}; with max_load_depth>0 labels are (label, depth) pairs where depth counts loads."""
    der = {}
    for v, l in (seeds or {}).items():
        der[v] = frozenset([l if not max_load_depth else (l, 0)])
    g2 = groots
    if groots and max_load_depth:
        g2 = {n: (l, 0) for n, l in groots.items()}
    ops_ok = PTR_OPS + (INT_OPS if through_int else ())
    slots = {}
    changed = True
    while changed:
        changed = False
        for i in fn.insts():
            op = i["op"]
            if "id" not in i and op != "store":
                continue
            new = set()
            if op == "getelementptr":
                new |= labels_of(i["base"], der, g2)
            elif op == "select":
                new |= labels_of(i["ops"][1], der, g2) | labels_of(i["ops"][2], der, g2)
            elif op == "phi":
                for inc in i["incoming"]:
                    new |= labels_of(inc["v"], der, g2)
            elif op in ops_ok:
                for o in i.get("ops", ()):
                    new |= labels_of(o, der, g2)
            elif op in ("call", "invoke") and retmap is not None:
                for k in retmap(i):
                    if k < len(i.get("args", ())):
                        new |= labels_of(i["args"][k], der, g2)
            elif op == "store" and through_slots:
                # a labelled value parked in a local variable (address-taken locals are not promoted to SSA)
                tgt = i["ops"][1]
                if tgt.get("k") == "v" and fn.defs.get(tgt["id"], {}).get("op") == "alloca":
                    ls = labels_of(i["ops"][0], der, g2)
                    if ls and not ls <= slots.get(tgt["id"], frozenset()):
                        slots[tgt["id"]] = frozenset(slots.get(tgt["id"], frozenset()) | ls)
                        changed = True
                continue
            elif op == "load" and through_slots and i["ops"][0].get("k") == "v" and i["ops"][0]["id"] in slots and not max_load_depth:
                new |= slots[i["ops"][0]["id"]]
            elif op == "load" and max_load_depth:
                for (l, d) in labels_of(i["ops"][0], der, g2):
                    if d + 1 <= max_load_depth:
                        new.add((l, d + 1))
            if new and not new <= der.get(i["id"], frozenset()):
                der[i["id"]] = frozenset(der.get(i["id"], frozenset()) | new)
                changed = True
    return der


class Summaries:
    """Per function and pointer parameter: may the callee write through it / let it escape / free it."""

    def __init__(s, prog):
        s.prog = prog
        s.w = defaultdict(set)        # fn name -> set of param indices written through
        s.esc = defaultdict(set)      # ... stored somewhere / passed to unknown code
        s.unmodelled = defaultdict(set)   # fn name -> {(callee, param idx)}
        s.ret_from = defaultdict(set) # fn key -> param indices whose derived pointers are returned
        s._der = {}
        s._compute()

    def retmap(s, fn):
        """for a call instruction in fn: argument indices whose pointer may come back as the result"""
        def rm(i):
            name = i.get("callee")
            if not name:
                return ()
            callee = s.prog.resolve(fn, name)
            if callee is not None:
                return tuple(s.ret_from.get((callee.mod["tu"], callee.name), ()))
            eff = external_effect(name)
            if eff and "ret_arg" in eff:
                return (eff["ret_arg"],)
            return ()
        return rm

    def der(s, fn, fresh=False):
        d = s._der.get(id(fn))
        if d is None or fresh:
            seeds = {p["id"]: k for k, p in enumerate(fn.j["params"]) if p["ty"].endswith("*")}
            d = derive(fn, seeds, through_int=True, retmap=s.retmap(fn))
            s._der[id(fn)] = d
        return d

    def _compute(s):
        prog = s.prog
        changed = True
        rounds = 0
        while changed and rounds < 20:
            changed = False
            rounds += 1
            for fn in prog.allfuncs:
                if fn.name in HANDLER_DISPATCH:
                    continue      # handing the offending pointer to the registered handler is the Annex K contract, not an effect of the library
                d = s.der(fn, fresh=True)
                key = (fn.mod["tu"], fn.name)
                for i in fn.insts():
                    op = i["op"]
                    if op == "ret":
                        for o in i.get("ops", ()):
                            for l in labels_of(o, d, None):
                                if l not in s.ret_from[key]:
                                    s.ret_from[key].add(l); changed = True
                    if op == "store":
                        for l in labels_of(i["ops"][1], d, None):
                            if l not in s.w[key]:
                                s.w[key].add(l); changed = True
                        for l in labels_of(i["ops"][0], d, None):
                            if l not in s.esc[key]:
                                s.esc[key].add(l); changed = True
                    elif op in ("call", "invoke"):
                        for (k, l, kind) in s.call_effects(fn, i, d, None):
                            tgt = s.w if kind == "w" else s.esc
                            if kind in ("w", "esc") and l not in tgt[key]:
                                tgt[key].add(l); changed = True
                    elif op in ("atomicrmw", "cmpxchg"):
                        for l in labels_of(i["ops"][0], d, None):
                            if l not in s.w[key]:
                                s.w[key].add(l); changed = True

    def call_effects(s, fn, i, der, groots):
        """yield (arg index, label, kind) with kind in w / esc / r / unmodelled for labelled args of call i"""
        name = i.get("callee")
        callee = s.prog.resolve(fn, name) if name else None
        for k, a in enumerate(i.get("args", ())):
            ls = labels_of(a, der, groots)
            if not ls:
                continue
            if name is None:
                for l in ls:
                    yield (k, l, "esc")        # indirect call: unknown code sees the pointer
                continue
            if callee is not None:
                ck = (callee.mod["tu"], callee.name)
                for l in ls:
                    if k in s.w.get(ck, ()):
                        yield (k, l, "w")
                    if k in s.esc.get(ck, ()):
                        yield (k, l, "esc")
                    if k >= len(callee.j["params"]):
                        yield (k, l, "esc")    # variadic tail: unknown use
                continue
            eff = external_effect(name)
            if eff is None:
                for l in ls:
                    yield (k, l, "unmodelled")
                    yield (k, l, "esc")
                continue
            wr = {x[0] for x in eff.get("w", ())}
            fr = eff.get("frees")
            for l in ls:
                if k in wr or fr == k:
                    yield (k, l, "w")
                else:
                    yield (k, l, "r")
                if "va" in eff and eff["va"] == k:
                    yield (k, l, "esc")
                if "fmt" in eff and k > eff["fmt"] and "va" not in eff and eff.get("gram", "").endswith("scanf"):
                    yield (k, l, "w")          # variadic receivers of a scanf-like callee


def taint(fn, source_loads):
    """values data-dependent on the given load instruction ids (not through memory)"""
    t = set(source_loads)
    changed = True
    while changed:
        changed = False
        for i in fn.insts():
            if "id" in i and i["id"] not in t and i["op"] not in ("alloca",):
                if i["op"] == "load":
                    # address tainted -> value tainted
                    o = i["ops"][0]
                    if o.get("k") == "v" and o["id"] in t:
                        t.add(i["id"]); changed = True
                    continue
                if any(o.get("k") == "v" and o["id"] in t for o in operands(i)):
                    t.add(i["id"]); changed = True
    return t
