"""Cursor/budget bookkeeping of a destination-writing loop, path by path (C01 and C08 for the functions the bound engine cannot analyse).

A loop that writes through a cursor D (a header phi started from the destination parameter) while counting the room left in M (a header
phi started from the size parameter) keeps two promises in every iteration:
  (L) lockstep -- when the iteration ends, D has advanced by exactly as many elements as M was decreased (otherwise the remaining count
      no longer describes the room behind the cursor: the final slack clearing ends early or late, and later guards are wrong);
  (G) room     -- a store at constant element offset k from the iteration's starting cursor happens only on a path that has seen
      `M >= k + 1` for the iteration's starting M (the loop's own `M > 0` test counts as M >= 1).
Every acyclic path through the loop body (inner loops are entered once and reported as not judged) is followed with the two sums kept
as linear forms over the SSA values that are added/subtracted (`dest += c; dmax -= c` cancels).  Nothing is executed."""
from .lin import Lin


class NotJudged(Exception):
    pass


def _strip(fn, o):
    while o.get("k") == "v":
        d = fn.defs.get(o["id"])
        if d is None or d["op"] not in ("bitcast", "zext", "sext", "trunc"):
            break
        o = d["ops"][0]
    return o


def find_pairs(fn, dest_names=("dest",), size_names=("dmax",)):
    """[(loop header, cursor phi, budget phi, element size)]"""
    P = {p["name"]: p["id"] for p in fn.j["params"]}
    dests = {P[n] for n in dest_names if n in P}
    sizes = {P[n] for n in size_names if n in P}
    out = []

    def origin(o, depth=0):
        o = _strip(fn, o)
        if o.get("k") != "v" or depth > 4:
            return None
        if o["id"] in dests or o["id"] in sizes:
            return o["id"]
        d = fn.defs.get(o["id"])
        if d is not None and d["op"] == "phi" and d.get("_bb") in fn.loops:
            ins = fn.loops[d["_bb"]]["_set"]
            outs = [x["v"] for x in d["incoming"] if x["bb"] not in ins]
            if len(outs) == 1:
                return origin(outs[0], depth + 1)
        return None
    for h, L in fn.loops.items():
        ins = L["_set"]
        D = M = None
        for i in fn.blocks[h]["insts"]:
            if i["op"] != "phi":
                continue
            outs = [x["v"] for x in i["incoming"] if x["bb"] not in ins]
            if len(outs) != 1:
                continue
            og = origin(outs[0])
            if og in dests and i["ty"].endswith("*"):
                D = i
            elif og in sizes and i["ty"].startswith("i"):
                M = i
        if D is not None and M is not None:
            esz = {"i8*": 1, "i16*": 2, "i32*": 4, "i64*": 8}.get(D["ty"])
            if esz:
                out.append((h, D, M, esz))
    # a pair of a loop nested inside another judged loop starts from that loop's running values: what the outer iteration has established
    # does not carry over in this domain -- such loops are reported as not judged by the outer walk
    heads = {x[0] for x in out}
    out = [x for x in out if not any(o != x[0] and x[0] in fn.loops[o]["_set"] for o in heads)]
    # only loops whose own condition tests the remaining count are judged: a loop that relies on a check *behind* each store keeps its
    # room by an invariant over iterations, which this per-iteration domain does not carry
    def header_tests(h, M):
        todo, seen = [h], set()
        while todo:
            b = todo.pop()
            if b in seen or len(seen) > 5:
                continue
            seen.add(b)
            stop = False
            for i in fn.blocks[b]["insts"]:
                if i["op"] == "icmp" and any(_strip(fn, o).get("id") == M["id"] for o in i["ops"]):
                    return True
                if i["op"] in ("store", "call") and not (i.get("callee") or "").startswith("llvm.dbg"):
                    stop = True
                    break
            if stop:
                continue
            t = fn.term(b)
            for k in ("t", "f"):
                if k in t and t[k] in fn.loops[h]["_set"]:
                    todo.append(t[k])
        return False
    return [x for x in out if header_tests(x[0], x[2])]


def entry_ge1(fn, h, M):
    """is the loop entered only with M's start value != 0?  (a block dominating the header ends in a test of that value against 0 whose
    zero side does not lead to the header)"""
    inside = fn.loops[h]["_set"]
    outs = [x["v"] for x in M["incoming"] if x["bb"] not in inside]
    if len(outs) != 1:
        return False
    v0 = _strip(fn, outs[0])
    if v0.get("k") != "v":
        return False
    d0 = fn.defs.get(v0["id"])
    if d0 is not None and d0["op"] == "phi" and d0.get("_bb") in fn.loops:
        return False
    for i in fn.insts():
        if i["op"] == "icmp" and i["pred"] in ("eq", "ne", "ugt", "ule"):
            a, b = _strip(fn, i["ops"][0]), _strip(fn, i["ops"][1])
            if a.get("id") == v0["id"] and b.get("k") == "c" and b.get("v") == 0:
                t = fn.term(i["_bb"])
                if t["op"] == "br" and t.get("cond", {}).get("id") == i["id"] and fn.dominates(i["_bb"], h) and i["_bb"] != h:
                    nz = t["f"] if i["pred"] in ("eq", "ule") else t["t"]
                    z = t["t"] if i["pred"] in ("eq", "ule") else t["f"]
                    if fn.dominates(nz, h) and not fn.dominates(z, h):
                        return True
    return False


def judge(fn, h, D, M, esz, max_paths=4000, result_max=None):
    """returns dict(paths, stores, findings=[(kind, inst, text)], not_judged=[reasons]); result_max(ssa id) -> the largest value a call result
    can have (from the constant returns of its callee), or None"""
    inside = fn.loops[h]["_set"]
    inner_heads = {x for x in fn.loops if x != h and x in inside}
    findings, notj = [], []
    need_inv = [0]
    stats = dict(paths=0, stores=0)
    seen_keys = set()

    def ilin(o, env, depth=0):
        """integer value relative to the iteration's starting M: Lin over 'M' and opaque atoms"""
        o0 = o
        if o.get("k") == "c":
            return Lin.const(o["v"])
        if o.get("k") != "v" or depth > 10:
            return None
        if o["id"] == M["id"]:
            return Lin.atom("M")
        if o["id"] in env:
            return env[o["id"]]
        d = fn.defs.get(o["id"])
        if d is None:
            return Lin.atom(o["id"])
        if d["op"] in ("zext", "sext", "trunc"):
            return ilin(d["ops"][0], env, depth + 1)
        if d["op"] in ("add", "sub"):
            a, b = ilin(d["ops"][0], env, depth + 1), ilin(d["ops"][1], env, depth + 1)
            if a is None or b is None:
                return None
            return a + b if d["op"] == "add" else a - b
        if d["op"] == "mul" and d["ops"][1].get("k") == "c":
            a = ilin(d["ops"][0], env, depth + 1)
            return None if a is None else a.scale(d["ops"][1]["v"])
        if d["op"] == "shl" and d["ops"][1].get("k") == "c":
            a = ilin(d["ops"][0], env, depth + 1)
            return None if a is None else a.scale(1 << d["ops"][1]["v"])
        return Lin.atom(o["id"])

    def plin(o, env, depth=0):
        """byte offset of a pointer from the iteration's starting cursor, or None if it is not derived from it"""
        if o.get("k") != "v" or depth > 10:
            return None
        if o["id"] == D["id"]:
            return Lin.const(0)
        if o["id"] in env:
            return env[o["id"]]
        d = fn.defs.get(o["id"])
        if d is None:
            return None
        if d["op"] == "bitcast":
            return plin(d["ops"][0], env, depth + 1)
        if d["op"] == "getelementptr":
            b = plin(d["base"], env, depth + 1)
            if b is None:
                return None
            r = b + Lin.const(d.get("coff", 0))
            for t in d.get("terms", ()):
                v = ilin(t["v"], env)
                if v is None:
                    raise NotJudged("pointer step %s" % o["id"])
                r = r + v.scale(t["stride"])
            return r
        return None

    def walk(bb, pred, env, K, depth):
        if stats["paths"] > max_paths:
            raise NotJudged("more than %d paths" % max_paths)
        env = dict(env)
        if bb in inner_heads:
            notj.append("inner loop at %s entered: the stores inside it are not judged" % bb)
            return
        for i in fn.blocks[bb]["insts"]:
            if i["op"] == "phi" and bb != h:
                inc = next((x["v"] for x in i["incoming"] if x["bb"] == pred), None)
                if inc is not None:
                    if i["ty"].endswith("*"):
                        env[i["id"]] = plin(inc, env)
                    elif i["ty"].startswith("i") and i["ty"] != "i1":
                        env[i["id"]] = ilin(inc, env)
            elif i["op"] == "call" and (i.get("callee") or "").startswith(("llvm.memcpy", "llvm.memmove", "llvm.memset", "memcpy", "memmove", "memset", "wmemcpy", "wmemset")) and i.get("args"):
                off = plin(i["args"][0], env)
                if off is not None:
                    stats["stores"] += 1
                    ln = ilin(i["args"][2], env) if len(i["args"]) > 2 else None
                    unit = 1 if not (i.get("callee") or "").startswith("wmem") else esz
                    top = None
                    if ln is not None and ln.is_const():
                        top = int(ln.c) * unit
                    elif ln is not None and len(ln.t) == 1 and ln.c == 0 and result_max is not None:
                        (a, co), = ln.t.items()
                        mx = result_max(a)
                        if mx is not None and co > 0:
                            top = int(mx * co) * unit
                    if top is None or not off.is_const():
                        notj.append("block write of a length or at an offset this domain cannot bound (line %s)" % i.get("line"))
                    elif top > 0:
                        k = (int(off.c) + top - 1) // esz
                        if k + 1 > K:
                            key = (i.get("line"), k)
                            if key not in seen_keys:
                                seen_keys.add(key)
                                findings.append(("room", i, "a block write reaching %d element(s) behind the iteration's starting cursor is made with only `%s >= %d` established for the remaining count" % (k, M["id"], K)))
            elif i["op"] == "store":
                off = plin(i["ops"][1], env)
                if off is not None:
                    stats["stores"] += 1
                    if off.is_const():
                        k = int(off.c) // esz
                        if k + 1 > K and k >= 0:
                            key = (i.get("line"), k)
                            if key not in seen_keys:
                                seen_keys.add(key)
                                findings.append(("room", i, "a store %d element(s) behind the iteration's starting cursor is reached with only `%s >= %d` established for the remaining count" % (k, M["id"], K)))
                    else:
                        notj.append("store at a variable offset (line %s)" % i.get("line"))
        t = fn.term(bb)
        if t["op"] == "ret" or t["op"] not in ("br", "switch"):
            return
        succs = []
        if t["op"] == "br" and "cond" not in t:
            succs = [(t["t"], K)]
        elif t["op"] == "br":
            kt = kf = K
            d = fn.defs.get(t["cond"].get("id")) if t["cond"].get("k") == "v" else None
            only_true = False
            if d is not None and d["op"] == "phi" and d["ty"] == "i1":
                # `a && b`: the merged condition is true only over the edge that carries b
                live = [x["v"] for x in d["incoming"] if not (x["v"].get("k") == "c" and not x["v"].get("v"))]
                if len(live) == 1 and live[0].get("k") == "v":
                    d = fn.defs.get(live[0]["id"])
                    only_true = True
            if d is not None and d["op"] == "icmp":
                a, b = ilin(d["ops"][0], env), ilin(d["ops"][1], env)
                if a is not None and b is not None:
                    diff = a - b                       # pred(a, b)
                    if set(diff.t) == {"M"} and diff.t["M"] in (1, -1):
                        c = diff.c if diff.t["M"] == 1 else -diff.c
                        pred = d["pred"] if diff.t["M"] == 1 else {"ugt": "ult", "uge": "ule", "ult": "ugt", "ule": "uge", "sgt": "slt", "sge": "sle", "slt": "sgt", "sle": "sge", "eq": "eq", "ne": "ne"}[d["pred"]]
                        # now: M + c  pred  0   i.e.  M pred -c
                        lim = -int(c)
                        if pred in ("ugt", "sgt"):
                            kt = max(K, lim + 1)
                        elif pred in ("uge", "sge"):
                            kt = max(K, lim)
                        elif pred in ("ult", "slt"):
                            kf = max(K, lim)
                        elif pred in ("ule", "sle"):
                            kf = max(K, lim + 1)
                        elif pred == "ne" and K >= lim:
                            kt = max(K, lim + 1)          # M >= lim and M != lim
                        elif pred == "eq" and K >= lim:
                            kf = max(K, lim + 1)
            if only_true:
                kf = K
            succs = [(t["t"], kt), (t["f"], kf)]
            d0 = fn.defs.get(t["cond"].get("id")) if t["cond"].get("k") == "v" else None
            if d0 is not None and d0["op"] == "phi" and d0.get("_bb") == bb and pred is not None:
                inc = next((x["v"] for x in d0["incoming"] if x["bb"] == pred), None)
                if inc is not None and inc.get("k") == "c":          # arrived over the edge that decides the merged condition
                    succs = [(t["t"], K)] if inc.get("v") else [(t["f"], K)]
        else:
            succs = [(c["bb"] if isinstance(c, dict) else c, K) for c in t.get("cases", ())] + ([(t["default"], K)] if "default" in t else [])
        for (sc, k2) in succs:
            if sc == h:
                stats["paths"] += 1
                dn = next(x["v"] for x in D["incoming"] if x["bb"] == bb)
                mn = next(x["v"] for x in M["incoming"] if x["bb"] == bb)
                dd, mm = plin(dn, env), ilin(mn, env)
                if dd is None or mm is None:
                    notj.append("back edge from %s: cursor or count not expressible" % bb)
                    continue
                if need_inv[0]:
                    used = Lin.atom("M") - mm
                    if not used.is_const() or k2 < int(used.c) + need_inv[0]:
                        key = ("inv", bb)
                        if key not in seen_keys:
                            seen_keys.add(key)
                            findings.append(("room", fn.blocks[bb]["insts"][-1], "the iteration ending in %s uses %s of the remaining count with only `%s >= %d` established: the next iteration can start without room (the count reaches 0 or wraps)" % (bb, used, M["id"], k2)))
                adv = dd                                 # bytes
                dec = (Lin.atom("M") - mm).scale(esz)   # bytes worth of count
                if not (adv - dec).is_const() or (adv - dec).c != 0:
                    key = ("lock", bb)
                    if key not in seen_keys:
                        seen_keys.add(key)
                        df = adv - dec
                        tag = " [C08-direction]" if df.is_const() and df.c < 0 else ""
                        findings.append(("lockstep", fn.blocks[bb]["insts"][-1], "along the iteration ending in %s the cursor advances by %s bytes while the remaining count is decreased by %s elements%s" % (bb, adv, (Lin.atom("M") - mm), tag)))
            elif sc in inside and depth < 200:
                walk(sc, bb, env, k2, depth + 1)
    k0 = 0
    if False and entry_ge1(fn, h, M):     # header invariants are not used: a count consumed by a callee's result cannot be carried here
        # assume-guarantee: "M >= 1 whenever the header is reached" holds on entry (a dominating `size == 0` exit) and is kept by every
        # iteration (checked below at each back edge: the path has established M >= (M - M') + 1)
        k0 = 1
    need_inv[0] = k0
    try:
        walk(h, None, {}, k0, 0)
    except NotJudged as e:
        notj.append(str(e))
    return dict(stats, findings=findings, not_judged=sorted(set(notj)), header_invariant="M >= %d" % k0)


def make_result_max(prog, fn):
    """for a call to a library function all of whose returns are integer constants: the largest of them"""
    def rm(vid):
        d = fn.defs.get(vid)
        if d is None or d["op"] != "call" or not d.get("callee"):
            return None
        cal = prog.resolve(fn, d["callee"])
        if cal is None:
            return None
        vals = []
        for bb in cal.blocks:
            t = cal.term(bb)
            if t["op"] != "ret" or not t.get("ops"):
                continue
            todo, seen = [t["ops"][0]], set()
            while todo:
                o = todo.pop()
                if o.get("k") == "c":
                    vals.append(o["v"]); continue
                if o.get("k") != "v" or o["id"] in seen:
                    return None
                seen.add(o["id"])
                dd = cal.defs.get(o["id"])
                if dd is not None and dd["op"] == "phi":
                    todo.extend(x["v"] for x in dd["incoming"])
                elif dd is not None and dd["op"] == "select":
                    todo.extend(dd["ops"][1:3])
                elif dd is not None and dd["op"] == "zext" and dd["ops"][0].get("ty") == "i1":
                    vals.extend([0, 1])
                else:
                    return None
        return max(vals) if vals else None
    return rm


MIN_PAIRS = 60


def rule(prog, report, prop, funcs=None, floor=MIN_PAIRS, broken=None):
    """C01: a store or block write without the room established for it in its iteration, and a cursor that runs ahead of its count;
    C08: a count that runs ahead of its cursor (the final clearing of `count` elements then ends before dest + dmax)."""
    pairs = paths = stores = 0
    notj = {}
    for fn in (funcs if funcs is not None else prog.allfuncs):
        if not fn.loops:
            continue
        name = fn.name[1:-4] if fn.name.startswith("_") and fn.name.endswith("_chk") else fn.name
        for (h, D, M, esz) in find_pairs(fn):
            pairs += 1
            r = judge(fn, h, D, M, esz, result_max=make_result_max(prog, fn))
            paths += r["paths"]; stores += r["stores"]
            if r["not_judged"]:
                notj["%s:%s" % (name, h)] = r["not_judged"]
            nth = {}
            for (kind, i, text) in r["findings"]:
                if kind == "room" and prop == "C01":
                    k = nth[kind] = nth.get(kind, 0) + 1
                    report("C01:no-room-established:%s:#%d" % (name, k), "B-room-before-the-store", fn.loc(i), "%s: %s" % (name, text))
                elif kind == "lockstep":
                    ahead = "count" if " -" in text.split("decreased by")[0] else "cursor"
                    # the cursor advance and the count decrease are both in the text; decide the direction from the linear forms
                    if prop == "C01" and "C08-direction" not in text:
                        report("C01:cursor-and-count-out-of-step:%s:%s" % (name, h.lstrip("%")), "B-cursor-and-count-in-lockstep", fn.loc(i), "%s: %s -- the count no longer describes the room behind the cursor" % (name, text))
                    elif prop == "C08" and "C08-direction" in text:
                        report("C08:count-ahead-of-cursor:%s:%s" % (name, h.lstrip("%")), "S-count-describes-the-slack", fn.loc(i), "%s: %s -- the slack cleared from the final cursor with the final count ends before dest + dmax" % (name, text.replace(" [C08-direction]", "")))
    if broken is not None and pairs < floor:
        broken("budget rule: only %d (cursor, count) loops found (< %d)" % (pairs, floor))
    return dict(loops=pairs, iteration_paths=paths, writes_through_the_cursor=stores, not_judged=notj)
