"""API table: roles and families of the exported functions, derived from the IR on every run and cross-checked with
the frozen family lists below (a listed function missing from the IR, or an exported function that no list knows, is
analysis-broken -- never a pass, never a violation)."""
import fnmatch, json, os

VERIF = os.path.dirname(os.path.dirname(os.path.abspath(__file__)))


def base_name(n):
    """_strcpy_s_chk -> strcpy_s"""
    if n.startswith("_") and n.endswith("_chk"):
        return n[1:-4]
    return n


def properties():
    out = {}
    with open(os.path.join(VERIF, "properties.jsonl")) as fh:
        for l in fh:
            if l.strip():
                p = json.loads(l)
                out[p["id"]] = p
    return out


def anchored(prog, pid, exported_only=True):
    """functions defined in the files the property is anchored in"""
    pats = properties()[pid]["anchors"]["files"]
    fs = prog.exported() if exported_only else prog.allfuncs
    return [f for f in fs if any(fnmatch.fnmatch(f.mod["tu"], p) for p in pats)]


# parameters that designate caller data operands (as opposed to out-parameters, sizes, flags)
OPERAND_NAMES = ("dest", "src", "str", "key", "base", "b1", "b2", "delim")
OUT_PARAM_NAMES = ("resultp", "diff", "countp", "firstp", "lastp", "substring", "substringp", "indicator", "errp", "retvalp", "lenp", "len", "ptr", "dmaxp")

HANDLER_DISPATCH = ("invoke_safe_str_constraint_handler", "invoke_safe_mem_constraint_handler")
