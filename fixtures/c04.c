/* C04 fixtures: clearing discipline on error exits */
#include <stddef.h>
#include <string.h>
extern void invoke_safe_str_constraint_handler(const char *msg, void *ptr, int error);
#define ESNULLP 400
#define ESZEROL 401
#define ESLEMAX 403
#define ESNOSPC 406
static inline void handle_error(char *dest, size_t dmax, const char *msg, int err) { memset(dest, 0, dmax); invoke_safe_str_constraint_handler(msg, dest, err); }
#define ENTRY \
    if (!dest) { invoke_safe_str_constraint_handler("dest is null", NULL, ESNULLP); return ESNULLP; } \
    if (dmax == 0) { invoke_safe_str_constraint_handler("dmax is 0", dest, ESZEROL); return ESZEROL; } \
    if (dmax > 4096) { invoke_safe_str_constraint_handler("dmax exceeds max", dest, ESLEMAX); return ESLEMAX; }
int fx4_good_s(char *dest, size_t dmax, const char *src) {
    char *orig = dest; size_t odmax = dmax; ENTRY
    if (!src) { handle_error(dest, dmax, "src is null", ESNULLP); return ESNULLP; }
    while (dmax) { *dest = *src; if (!*dest) return 0; dest++; src++; dmax--; }
    handle_error(orig, odmax, "no space", ESNOSPC); return ESNOSPC;
}
int fx4_noclear_s(char *dest, size_t dmax, const char *src) {
    ENTRY
    if (!src) { invoke_safe_str_constraint_handler("src is null", dest, ESNULLP); return ESNULLP; }   /* dest keeps its old contents */
    *dest = 0; return 0;
}
int fx4_partial_s(char *dest, size_t dmax, const char *src) {
    char *orig = dest; ENTRY
    while (dmax) { *dest = *src; if (!*dest) return 0; dest++; src++; dmax--; }
    *orig = 0;                                                          /* only the first element: the copied prefix stays behind it */
    invoke_safe_str_constraint_handler("no space", orig, ESNOSPC); return ESNOSPC;
}
int fx4_cursor_s(char *dest, size_t dmax, const char *src) {
    size_t odmax = dmax; ENTRY
    while (dmax) { *dest = *src; if (!*dest) return 0; dest++; src++; dmax--; }
    handle_error(dest, odmax, "no space", ESNOSPC); return ESNOSPC;      /* clears from the advanced cursor, not from the start */
}
