/* C18 fixtures: erase loops with and without protection against dead-store elimination */
#include <stddef.h>
#include <string.h>
int erase_plain(char *dest, size_t n) { while (n--) *dest++ = 0; return 0; }
int erase_volatile(char *dest, size_t n) { volatile char *p = dest; while (n--) *p++ = 0; return 0; }
int erase_barrier(char *dest, size_t n) { memset(dest, 0, n); __asm__ __volatile__("" ::: "memory"); return 0; }
int erase_barrier_one_path(char *dest, size_t n) {
    memset(dest, 0, n);
    if (n > 16) { __sync_synchronize(); return 0; }
    return 0;                                   /* this success path has no barrier */
}
static void prim(volatile unsigned *d, unsigned n) { while (n--) *d++ = 0; }
int erase_via_prim(unsigned *dest, size_t n) { prim(dest, (unsigned)n); return 0; }
int erase_bzero(char *dest, size_t n) { explicit_bzero(dest, n); return 0; }
