/* C18 fixtures: erase loops with and without protection against dead-store elimination */
#include <stddef.h>
#include <string.h>
int erase_plain(char *dest, size_t n) { while (n--) *dest++ = 0; return 0; }
int erase_volatile(char *dest, size_t n) { volatile char *p = dest; while (n--) *p++ = 0; return 0; }
int erase_barrier(char *dest, size_t n) { memset(dest, 0, n); __asm__ __volatile__("" ::: "memory"); return 0; }
int erase_barrier_one_path(char *dest, size_t n) {
    memset(dest, 0, n);
    if (n > 16) { __sync_synchronize(); return 0; }
    return 0;                                   /* this success path has no barrier */
}
static void prim(volatile unsigned *d, unsigned n) { while (n--) *d++ = 0; }
int erase_via_prim(unsigned *dest, size_t n) { prim(dest, (unsigned)n); return 0; }
int erase_bzero(char *dest, size_t n) { explicit_bzero(dest, n); return 0; }
/* fill-value lanes: the word store must hold the fill byte in every byte */
#include <stdint.h>
void fx_fill_good(void *dest, uint32_t len, uint8_t value) {
    volatile uint8_t *dp = dest; uint64_t v = value;
    if (value) v |= (v << 8) | (v << 16) | (v << 24) | (v << 32) | (v << 40) | (v << 48) | (v << 56);
    while (len >= 8) { *(volatile uint64_t *)dp = v; dp += 8; len -= 8; }
    while (len--) *dp++ = value;
}
void fx_fill_signext(void *dest, uint32_t len, uint8_t value) {      /* the 32-bit int pattern sign-extends into the upper half */
    volatile uint8_t *dp = dest; uint64_t v;
    v = value | (value << 8) | (value << 16) | (value << 24);
    v |= v << 32;
    while (len >= 8) { *(volatile uint64_t *)dp = v; dp += 8; len -= 8; }
    while (len--) *dp++ = value;
}
void fx_fill_missing_lane(void *dest, uint32_t len, uint8_t value) {  /* one shift forgotten */
    volatile uint8_t *dp = dest; uint64_t v = value;
    v |= (v << 8) | (v << 16) | (v << 24) | (v << 32) | (v << 40) | (v << 56);
    while (len >= 8) { *(volatile uint64_t *)dp = v; dp += 8; len -= 8; }
    while (len--) *dp++ = value;
}
/* count split: quotient and remainder must come from the same count */
void fx_split_good(void *dest, uint32_t len, uint8_t value) {
    volatile uint8_t *dp = dest; uint64_t count = len, lcount;
    for (; count && ((uintptr_t)dp & 7); count--) *dp++ = value;
    lcount = count >> 3;
    while (lcount--) { *(volatile uint64_t *)dp = 0; dp += 8; }
    count &= 7;
    for (; count; count--) *dp++ = value;
}
void fx_split_other_count(void *dest, uint32_t len, uint8_t value) {     /* tail from the original length */
    volatile uint8_t *dp = dest; uint64_t count = len, lcount;
    for (; count && ((uintptr_t)dp & 7); count--) *dp++ = value;
    lcount = count >> 3;
    while (lcount--) { *(volatile uint64_t *)dp = 0; dp += 8; }
    count = len & 7;
    for (; count; count--) *dp++ = value;
}

/* erase-length rule: callee unit x length argument = entry element size x one of the entry's counts */
extern void mem_prim_set32(uint32_t *dest, uint32_t len, uint32_t value);
int fxlen32_good(uint32_t *dest, size_t dmax, uint32_t value, size_t n) {
    if (n > dmax) { mem_prim_set32(dest, (uint32_t)dmax, 0); return 406; }
    if (value == 0) explicit_bzero(dest, n * 4); else mem_prim_set32(dest, (uint32_t)n, value);
    return 0;
}
int fxlen32_half(uint32_t *dest, size_t dmax, uint32_t value, size_t n) {
    if (n > dmax) { mem_prim_set32(dest, (uint32_t)dmax, 0); return 406; }
    if (value == 0) explicit_bzero(dest, n * 2); else mem_prim_set32(dest, (uint32_t)n, value);       /* the 16-bit sibling's factor */
    return 0;
}
