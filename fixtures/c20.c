/* C20 fixtures: allocation failure handling and leaks */
#include <stdlib.h>
#include <string.h>
extern void invoke_safe_str_constraint_handler(const char *msg, void *ptr, int error);
int fx20_good(char *dest, size_t n, const char *src) {
    char *t = malloc(n + 1);
    if (!t) { invoke_safe_str_constraint_handler("malloc failed", dest, 12); return -12; }
    memcpy(t, src, n); t[n] = 0; memcpy(dest, t, n + 1);
    free(t); return 0;
}
int fx20_unchecked(char *dest, size_t n, const char *src) {
    char *t = malloc(n + 1);
    memcpy(t, src, n);                      /* t may be NULL */
    memcpy(dest, t, n); free(t); return 0;
}
int fx20_leak(char *dest, size_t n, const char *src) {
    char *t = malloc(n + 1);
    if (!t) return -12;
    if (n > 100) { invoke_safe_str_constraint_handler("too long", dest, 7); return -7; }   /* t leaks on this exit */
    memcpy(t, src, n); memcpy(dest, t, n); free(t); return 0;
}
int fx20_realloc_leak(size_t n) {
    char *p = malloc(16); if (!p) return -12;
    p = realloc(p, n);                       /* on failure the old block is lost */
    if (!p) return -12;
    p[0] = 0; free(p); return 0;
}
int fx20_realloc_good(size_t n) {
    char *p = malloc(16), *q; if (!p) return -12;
    q = realloc(p, n);
    if (!q) { free(p); return -12; }
    q[0] = 0; free(q); return 0;
}
int fx20_flag_correlated(char *dest, unsigned flags, const char *src, size_t n) {
    char *p = NULL;
    if (flags & 8) { p = malloc(n); if (!p) return -12; memcpy(p, src, n); src = p; }
    memcpy(dest, src, n);
    if (flags & 8) free(p);
    return 0;
}
