/* C03 fixtures: termination of dest on every non-exempt return */
#include <stddef.h>
#include <string.h>
extern void invoke_safe_str_constraint_handler(const char *msg, void *ptr, int error);
static inline void handle_error(char *dest, size_t dmax, const char *msg, int err) { memset(dest, 0, dmax); invoke_safe_str_constraint_handler(msg, dest, err); }
#define ENTRY \
    if (!dest) { invoke_safe_str_constraint_handler("dest is null", NULL, 400); return 400; } \
    if (dmax == 0) { invoke_safe_str_constraint_handler("dmax is 0", dest, 401); return 401; } \
    if (dmax > 4096) { invoke_safe_str_constraint_handler("dmax exceeds max", dest, 403); return 403; }
int fx3_good_s(char *dest, size_t dmax, const char *src) {
    char *orig = dest; size_t odmax = dmax; ENTRY
    if (!src) { handle_error(dest, dmax, "src is null", 400); return 400; }
    while (dmax) { *dest = *src; if (*dest == '\0') return 0; dest++; src++; dmax--; }
    handle_error(orig, odmax, "no space", 406); return 406;
}
int fx3_trunc_s(char *dest, size_t dmax, const char *src, size_t n) {   /* strncpy-like: no terminator when src is longer than n */
    ENTRY
    while (dmax && n) { *dest = *src; if (*dest == '\0') return 0; dest++; src++; dmax--; n--; }
    return 0;
}
int fx3_cat_s(char *dest, size_t dmax, const char *src) {               /* scans for the existing terminator, then appends */
    char *orig = dest; size_t odmax = dmax; ENTRY
    while (*dest != '\0') { dest++; dmax--; if (dmax == 0) { handle_error(orig, odmax, "unterminated", 407); return 407; } }
    while (dmax) { *dest = *src; if (*dest == '\0') return 0; dest++; src++; dmax--; }
    handle_error(orig, odmax, "no space", 406); return 406;
}
int fx3_untouched_s(char *dest, size_t dmax, const char *src) {         /* returns an error without touching dest */
    ENTRY
    if (!src) { invoke_safe_str_constraint_handler("src is null", dest, 400); return 400; }
    *dest = 0; return 0;
}
/* index form with an extracted clearing helper: the count handed to the helper is a difference of two loop-carried values (benign patch B9) */
#include <wchar.h>
static inline void fx3_null_slack(wchar_t *dest, size_t dmax) {
    if (dmax > 0x20)
        memset(dest, 0, dmax * sizeof(wchar_t));
    else {
        while (dmax) { *dest = L'\0'; dmax--; dest++; }
    }
}
int fx3_index_helper_s(wchar_t *dest, size_t dmax, const wchar_t *src, size_t slen) {
    size_t i;
    if (dest == NULL || dmax == 0 || dmax > 1024 || src == NULL || slen > 1024) { invoke_safe_str_constraint_handler("fx3_index_helper_s: bad", dest, 400); return 400; }
    while (*dest != L'\0') {
        dest++; dmax--;
        if (dmax == 0) { invoke_safe_str_constraint_handler("fx3_index_helper_s: unterminated", NULL, 407); return 407; }
    }
    for (i = 0; i < dmax; i++) {
        if (i == slen) { fx3_null_slack(&dest[i], dmax - i); return 0; }
        dest[i] = src[i];
        if (dest[i] == L'\0') { fx3_null_slack(&dest[i], dmax - i); return 0; }
    }
    invoke_safe_str_constraint_handler("fx3_index_helper_s: nospc", NULL, 406);
    return 406;
}

/* a libc wide formatter that fails (-1: n or more characters requested) promises nothing about the array */
#include <stdarg.h>
extern int vswprintf(wchar_t *, size_t, const wchar_t *, va_list);
int fx3_wfmt_fail_open_s(wchar_t *dest, size_t dmax, const wchar_t *fmt, va_list ap) {
    int ret;
    if (dest == NULL || dmax == 0 || dmax > 1024) { invoke_safe_str_constraint_handler("fx3_wfmt: bad", NULL, 400); return -400; }
    if (fmt == NULL) { *dest = L'\0'; invoke_safe_str_constraint_handler("fx3_wfmt: fmt", NULL, 400); return -400; }
    ret = vswprintf(dest, dmax, fmt, ap);
    if (ret < 0) {
        invoke_safe_str_constraint_handler("fx3_wfmt: too long", NULL, 406);
        return -406;                       /* dest left as the failed vswprintf left it */
    }
    return ret;
}
int fx3_wfmt_fail_reset_s(wchar_t *dest, size_t dmax, const wchar_t *fmt, va_list ap) {
    int ret;
    if (dest == NULL || dmax == 0 || dmax > 1024) { invoke_safe_str_constraint_handler("fx3_wfmt: bad", NULL, 400); return -400; }
    if (fmt == NULL) { *dest = L'\0'; invoke_safe_str_constraint_handler("fx3_wfmt: fmt", NULL, 400); return -400; }
    ret = vswprintf(dest, dmax, fmt, ap);
    if (ret < 0) {
        *dest = L'\0';
        invoke_safe_str_constraint_handler("fx3_wfmt: too long", NULL, 406);
        return -406;
    }
    return ret;
}
/* probe after a failed call with the same format: it fails as well or needs at least the capacity that was not enough */
int fx3_wfmt_probe_s(wchar_t *dest, size_t dmax, const wchar_t *fmt, va_list ap, va_list ap2) {
    int ret; wchar_t tmp[512];
    if (dest == NULL || dmax == 0 || dmax > 500) { invoke_safe_str_constraint_handler("fx3_wfmt: bad", NULL, 400); return -400; }
    if (fmt == NULL) { *dest = L'\0'; invoke_safe_str_constraint_handler("fx3_wfmt: fmt", NULL, 400); return -400; }
    ret = vswprintf(dest, dmax, fmt, ap);
    if (ret == -1) {
        ret = vswprintf(tmp, 512, fmt, ap2);
        if (ret > 0) { *dest = L'\0'; invoke_safe_str_constraint_handler("fx3_wfmt: too long", NULL, 406); return -406; }
    }
    if (ret < 0) { *dest = L'\0'; invoke_safe_str_constraint_handler("fx3_wfmt: error", NULL, 22); return ret; }
    return ret;                 /* 0 <= ret < dmax only when the first call succeeded */
}
