/* C12 negative fixture: conforming code -- nothing static is ever modified */
#include <string.h>
#include <stdio.h>
#include <time.h>
static const char digits[] = "0123456789abcdef";
static const char *const names[] = {"a", "b", "c"};
static const char *msgs[] = {"x", "y"};      /* not const-qualified, but never written */
static int limit = 42;                       /* read only */
int hexdigit(unsigned v) { return digits[v & 15]; }
const char *name(unsigned i) { return i < 3 ? names[i] : msgs[i & 1]; }
int lim(void) { return limit; }
size_t fmt_long(long v, char *out, size_t n) {
    char buf[64];                            /* automatic scratch */
    int k = snprintf(buf, sizeof buf, "%ld", v);
    if (k < 0 || (size_t)k >= n) return 0;
    memcpy(out, buf, (size_t)k + 1);
    return (size_t)k;
}
char *safe_time(const struct tm *t, char *buf26) { return asctime_r(t, buf26); }
size_t len_of_msg(unsigned i) { return strlen(msgs[i & 1]); }
