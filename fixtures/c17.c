/* C17 fixtures: plane-table lookups */
#include <stdint.h>
#include <stddef.h>
static const uint8_t *const *const planes[17] = {0};
int fx17_checked(uint32_t cp) {
    const uint8_t *const *plane;
    if (cp > 0x10ffff) return -1;
    plane = planes[cp >> 16];
    return plane ? 1 : 0;
}
int fx17_unchecked(uint32_t cp) {
    const uint8_t *const *plane = planes[cp >> 16];
    return plane ? 1 : 0;
}
/* fold agreement: what the classifier announces must be what the table-driven emitter writes */
#include <stddef.h>
static const struct { unsigned upper, lower1, lower2; } ftbl2[] = {{0xdf, 0x73, 0x73}, {0x130, 0x69, 0x307}, {0x149, 0x2bc, 0x6e}, {0, 0, 0}};
int fx17_isw_good(const unsigned wc) {
    if (wc < 0xdf || wc > 0x149) return 0;
    if (wc == 0xdf || wc == 0x130 || wc == 0x149) return 2;
    return 0;
}
int fx17_isw_forgets(const unsigned wc) {           /* U+0149 was added to the table but not to the classifier */
    if (wc < 0xdf || wc > 0x149) return 0;
    if (wc == 0xdf || wc == 0x130) return 2;
    return 0;
}
int fx17_tow_chk(int *dest, size_t dmax, const unsigned src) {
    int i;
    if (!dest || dmax < 4) return -1;
    for (i = 0; ftbl2[i].upper; i++) {
        if (ftbl2[i].upper == src) { dest[0] = ftbl2[i].lower1; dest[1] = ftbl2[i].lower2; dest[2] = 0; return 2; }
        if (ftbl2[i].upper > src) break;
    }
    dest[0] = src; dest[1] = 0;
    return 1;
}
