/* C17 fixtures: plane-table lookups */
#include <stdint.h>
#include <stddef.h>
static const uint8_t *const *const planes[17] = {0};
int fx17_checked(uint32_t cp) {
    const uint8_t *const *plane;
    if (cp > 0x10ffff) return -1;
    plane = planes[cp >> 16];
    return plane ? 1 : 0;
}
int fx17_unchecked(uint32_t cp) {
    const uint8_t *const *plane = planes[cp >> 16];
    return plane ? 1 : 0;
}
