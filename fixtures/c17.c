/* C17 fixtures: plane-table lookups */
#include <stdint.h>
#include <stddef.h>
static const uint8_t *const *const planes[17] = {0};
int fx17_checked(uint32_t cp) {
    const uint8_t *const *plane;
    if (cp > 0x10ffff) return -1;
    plane = planes[cp >> 16];
    return plane ? 1 : 0;
}
int fx17_unchecked(uint32_t cp) {
    const uint8_t *const *plane = planes[cp >> 16];
    return plane ? 1 : 0;
}
/* fold agreement: what the classifier announces must be what the table-driven emitter writes */
#include <stddef.h>
static const struct { unsigned upper, lower1, lower2; } ftbl2[] = {{0xdf, 0x73, 0x73}, {0x130, 0x69, 0x307}, {0x149, 0x2bc, 0x6e}, {0, 0, 0}};
int fx17_isw_good(const unsigned wc) {
    if (wc < 0xdf || wc > 0x149) return 0;
    if (wc == 0xdf || wc == 0x130 || wc == 0x149) return 2;
    return 0;
}
int fx17_isw_forgets(const unsigned wc) {           /* U+0149 was added to the table but not to the classifier */
    if (wc < 0xdf || wc > 0x149) return 0;
    if (wc == 0xdf || wc == 0x130) return 2;
    return 0;
}
int fx17_tow_chk(int *dest, size_t dmax, const unsigned src) {
    int i;
    if (!dest || dmax < 4) return -1;
    for (i = 0; ftbl2[i].upper; i++) {
        if (ftbl2[i].upper == src) { dest[0] = ftbl2[i].lower1; dest[1] = ftbl2[i].lower2; dest[2] = 0; return 2; }
        if (ftbl2[i].upper > src) break;
    }
    dest[0] = src; dest[1] = 0;
    return 1;
}
/* layout agreement: a two-level code-point table whose lists exist in a 16-bit and a 32-bit layout */
typedef struct { uint16_t k, v; } fx_s;
typedef struct { uint32_t k, v; } fx_l;
static const fx_s l_0041[] = {{0x300, 0xc0}, {0x301, 0xc1}, {0, 0}};
static const fx_s l_0142[] = {{0x301, 0x1}, {0, 0}};
static const fx_l l_0250[] = {{0x10300, 0x10400}, {0, 0}};
static const fx_l l_0251[] = {{0x10301, 0x10401}, {0, 0}};
static const fx_s *row0[256] = {[0x41] = l_0041};
static const fx_s *row1[256] = {[0x42] = l_0142};
static const fx_s *row2[256] = {[0x50] = (const fx_s *)l_0250, [0x51] = (const fx_s *)l_0251};
static const fx_s **fx_tab[4] = {row0, row1, row2, 0};
#define FX_FIRST_LONG 0x250
#define FX_LOOKUP(SELECT, KEY16)                                              \
    const fx_s **row, *cell;                                                  \
    if (cp > 0x3ff) return 0;                                                 \
    row = fx_tab[cp >> 8];                                                    \
    if (!row) return 0;                                                       \
    cell = row[cp & 0xff];                                                    \
    if (!cell) return 0;                                                      \
    if (SELECT) {                                                             \
        const fx_s *i;                                                        \
        for (i = cell; i->k; i++) {                                           \
            if (KEY16 == i->k) return i->v;                                   \
            else if (KEY16 < i->k) break;                                     \
        }                                                                     \
    } else {                                                                  \
        const fx_l *i;                                                        \
        for (i = (const fx_l *)cell; i->k; i++) {                             \
            if (cp2 == i->k) return i->v;                                     \
            else if (cp2 < i->k) break;                                       \
        }                                                                     \
    }                                                                         \
    return 0;
uint32_t fx17_lay_good(uint32_t cp, uint32_t cp2) { FX_LOOKUP(cp < FX_FIRST_LONG, cp2) }
uint32_t fx17_lay_trunc_ok(uint32_t cp, uint32_t cp2) { if (cp2 > 0xffff) return 0; { FX_LOOKUP(cp < FX_FIRST_LONG, (uint16_t)cp2) } }
uint32_t fx17_lay_boundary(uint32_t cp, uint32_t cp2) { FX_LOOKUP(cp <= FX_FIRST_LONG, cp2) }
uint32_t fx17_lay_trunc(uint32_t cp, uint32_t cp2) { FX_LOOKUP(cp < FX_FIRST_LONG, (uint16_t)cp2) }
uint32_t fx17_lay_dropped(uint32_t cp, uint32_t cp2) { if (cp >= 0x251) return 0; { FX_LOOKUP(cp < FX_FIRST_LONG, cp2) } }
/* decomposition agreement: packed (length, index) values in a two-level table, value tables with rows of 1 and 2 elements */
#include <string.h>
static const uint32_t dv1[3][1] = {{0x3b}, {0x4b}, {0xb4}};
static const uint32_t dv2[2][2] = {{0x41, 0x300}, {0x41, 0x301}};
static const uint32_t *const dvt[2] = {(const uint32_t *)dv1, (const uint32_t *)dv2};
#define DA(l) ((l) << 12)
static const uint16_t drowA[256] = {[0x7d] = DA(1) | 0, [0x7e] = DA(1) | 1, [0x7f] = DA(1) | 2, [0xc0] = DA(2) | 0, [0xc1] = DA(2) | 1};
static const uint16_t *const dplaneA[2] = {drowA, 0};
#define DB(l) (((l)-1) << 12) /* the packed value of (length 1, index 0) is 0: "no decomposition" */
static const uint16_t drowB[256] = {[0x7d] = DB(1) | 0, [0x7e] = DB(1) | 1, [0x7f] = DB(1) | 2, [0xc0] = DB(2) | 0, [0xc1] = DB(2) | 1};
static const uint16_t *const dplaneB[2] = {drowB, 0};
#define FX_DECOMP(PLANE, LEN, IDXMUL)                                         \
    const uint16_t *row;                                                      \
    uint16_t vi;                                                              \
    if (dmax < 5 || cp > 0x1ff) return -1;                                    \
    row = PLANE[cp >> 8];                                                     \
    if (!row) return 0;                                                       \
    vi = row[cp & 0xff];                                                      \
    if (!vi) return 0;                                                        \
    {                                                                         \
        const int l = LEN;                                                    \
        const int i = vi & 0xfff;                                             \
        const uint32_t *tbl = dvt[l - 1];                                     \
        memcpy(dest, &tbl[i * IDXMUL], l * sizeof(uint32_t));                 \
        dest[l] = 0;                                                          \
        return l;                                                             \
    }
int fx17_dec_good(uint32_t *dest, size_t dmax, uint32_t cp) { FX_DECOMP(dplaneA, (vi >> 12), l) }
int fx17_dec_shift(uint32_t *dest, size_t dmax, uint32_t cp) { FX_DECOMP(dplaneA, (vi >> 11), l) }
int fx17_dec_stride(uint32_t *dest, size_t dmax, uint32_t cp) { FX_DECOMP(dplaneA, (vi >> 12), 2) }
int fx17_dec_zero(uint32_t *dest, size_t dmax, uint32_t cp) { FX_DECOMP(dplaneB, ((vi >> 12) + 1), l) }

/* ---- Hangul composition (UAX #15 3.12): decision table of the arithmetic part */
extern const uint32_t fx17_pairs[];
#define FX_HANGUL(LVTEST, TLAST)                                              \
    if (!cp2) return 0;                                                       \
    if (0x1100 <= cp && cp <= 0x1112 && 0x1161 <= cp2 && cp2 <= 0x1175)       \
        return 0xAC00 + ((cp - 0x1100) * 21 + (cp2 - 0x1161)) * 28;           \
    if (0xAC00 <= cp && cp <= 0xD7A3 && LVTEST && 0x11A7 < cp2 && cp2 <= TLAST) \
        return cp + (cp2 - 0x11A7);                                           \
    return fx17_pairs[(cp ^ cp2) & 0xff];
uint32_t fx17_hangul_good(uint32_t cp, uint32_t cp2) { FX_HANGUL((cp - 0xAC00) % 28 == 0, 0x11C2) }
uint32_t fx17_hangul_any_s(uint32_t cp, uint32_t cp2) { FX_HANGUL(1, 0x11C2) }
uint32_t fx17_hangul_short_t(uint32_t cp, uint32_t cp2) { FX_HANGUL((cp - 0xAC00) % 28 == 0, 0x11C1) }
uint32_t fx17_hangul_wrong_sum(uint32_t cp, uint32_t cp2) {
    if (0x1100 <= cp && cp <= 0x1112 && 0x1161 <= cp2 && cp2 <= 0x1175)
        return 0xAC00 + ((cp - 0x1100) * 21 + (cp2 - 0x1161)) * 28;
    if (0xAC00 <= cp && cp <= 0xD7A3 && (cp - 0xAC00) % 28 == 0 && 0x11A7 < cp2 && cp2 <= 0x11C2)
        return cp + (cp2 - 0x11A8);
    return fx17_pairs[(cp ^ cp2) & 0xff];
}

/* ---- Hangul decomposition: the inverse of the composition, by ties x = k*q + r */
#define FX_HDEC(NCOUNT, VEXPR, TTEST)                                         \
    uint32_t sindex = cp - 0xAC00;                                            \
    uint32_t lindex = sindex / NCOUNT;                                        \
    uint32_t vindex = VEXPR;                                                  \
    uint32_t tindex = sindex % 28;                                            \
    if (dmax < 4) return -1;                                                  \
    dest[0] = lindex + 0x1100;                                                \
    dest[1] = vindex + 0x1161;                                                \
    if (TTEST) {                                                              \
        dest[2] = tindex + 0x11A7;                                            \
        dest[3] = 0;                                                          \
        return 3;                                                             \
    }                                                                         \
    dest[2] = 0;                                                              \
    return 2;
int fx17_hdec_good(uint32_t *dest, size_t dmax, uint32_t cp) { FX_HDEC(588, (sindex % 588) / 28, tindex) }
int fx17_hdec_ncount(uint32_t *dest, size_t dmax, uint32_t cp) { FX_HDEC(560, (sindex % 560) / 28, tindex) }
int fx17_hdec_vmod(uint32_t *dest, size_t dmax, uint32_t cp) { FX_HDEC(588, (sindex % 588) / 21, tindex) }
int fx17_hdec_always3(uint32_t *dest, size_t dmax, uint32_t cp) { FX_HDEC(588, (sindex % 588) / 28, 1) }
/* room clause of the same walk (reported under C01): every slot stored lies inside the dmax elements */
int fx17_hdec_room_tight(uint32_t *dest, size_t dmax, uint32_t cp) {
    uint32_t sindex = cp - 0xAC00;
    uint32_t tindex = sindex % 28;
    const size_t len = tindex ? 3 : 2;
    if (dmax < len) return -1;                     /* the terminator at dest[len] needs dmax >= len + 1 */
    dest[0] = sindex / 588 + 0x1100;
    dest[1] = (sindex % 588) / 28 + 0x1161;
    if (tindex) dest[2] = tindex + 0x11A7;
    dest[len] = 0;
    return (int)len;
}
