/* C01 fixtures: bounded and unbounded writes in the cursor/budget idiom */
#include <stddef.h>
#include <string.h>
#include <stdio.h>
int fx1_good_copy(char *dest, size_t dmax, const char *src) {
    if (!dest || !src || dmax == 0) return 1;
    while (dmax > 0) { *dest = *src; if (*dest == '\0') return 0; dmax--; dest++; src++; }
    return 2;
}
int fx1_no_decrement(char *dest, size_t dmax, const char *src) {       /* the budget is never decremented */
    if (!dest || !src || dmax == 0) return 1;
    while (dmax > 0) { *dest = *src; if (*dest == '\0') return 0; dest++; src++; }
    return 2;
}
char *fx1_fgets_plus1(char *dest, size_t dmax) { if (!dest || dmax == 0) return NULL; return fgets(dest, (int)(dmax + 1), stdin); }
int fx1_good_index(char *dest, size_t dmax, int c) {
    if (!dest) return 1;
    for (size_t i = 0; i < dmax; i++) dest[i] = (char)c;
    return 0;
}
int fx1_off_by_one_index(char *dest, size_t dmax, int c) {
    if (!dest) return 1;
    for (size_t i = 0; i <= dmax; i++) dest[i] = (char)c;
    return 0;
}
int fx1_clear_stale(char *dest, size_t dmax, const char *src) {        /* clears from the advanced cursor with the original size */
    size_t odmax = dmax;
    if (!dest || !src || dmax == 0) return 1;
    while (dmax > 0) { *dest = *src; if (*dest == '\0') return 0; dmax--; dest++; src++; }
    memset(dest, 0, odmax);
    return 2;
}
/* wrapper rule fixtures: two _chk functions with (dest, dmax, src, slen, destbos, srcbos) */
int _fx1_copy_ok_chk(char *dest, size_t dmax, const char *src, size_t slen, size_t destbos, size_t srcbos) { (void)dest; (void)dmax; (void)src; (void)slen; return destbos > srcbos; }
int _fx1_copy_swapped_chk(char *dest, size_t dmax, const char *src, size_t slen, size_t destbos, size_t srcbos) { (void)dest; (void)dmax; (void)src; (void)slen; return destbos > srcbos; }

/* ---- (cursor, count) loops judged path by path (sa/budget.py) */
static int fxb_width(unsigned c) { if (c == 0xdf) return 2; if (c == 0x149) return 3; return c > 0x40 && c < 0x5b; }
int fxb_good(unsigned *dest, unsigned long dmax, const unsigned *src) {
    while (*src && dmax > 0) {
        int c;
        if (dmax < 5) return 406;
        c = fxb_width(*src);
        if (c > 1) { __builtin_memcpy(dest, src, c * sizeof(unsigned)); dest += c; dmax -= c; }
        else if (*src == 0xcc) { *dest++ = 0x69; *dest++ = 0x307; *dest++ = 0x300; dmax -= 3; }
        else { *dest++ = *src; dmax--; }
        src++;
    }
    if (!dmax) return 406;
    *dest = 0;
    return 0;
}
int fxb_no_room(unsigned *dest, unsigned long dmax, const unsigned *src) {
    while (*src && dmax > 0) {
        int c = fxb_width(*src);
        if (c > 1) { __builtin_memcpy(dest, src, c * sizeof(unsigned)); dest += c; dmax -= c; }       /* up to 3 elements with dmax >= 1 */
        else if (*src == 0xcc) { *dest++ = 0x69; *dest++ = 0x307; *dest++ = 0x300; dmax -= 3; }       /* 3 stores with dmax >= 1 */
        else { *dest++ = *src; dmax--; }
        src++;
    }
    if (!dmax) return 406;
    *dest = 0;
    return 0;
}
int fxb_double_dec(unsigned *dest, unsigned long dmax, const unsigned *src) {
    while (*src && dmax > 0) {
        if (dmax < 5) return 406;
        if (*src == 0x3a3) { *dest++ = 0x3c2; dmax--; dmax--; }                                       /* count decreased twice for one element */
        else { *dest++ = *src; dmax--; }
        src++;
    }
    __builtin_memset(dest, 0, dmax * sizeof(unsigned));
    return 0;
}
