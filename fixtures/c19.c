/* C19 fixtures: secret-dependent control flow / addressing vs. constant-time accumulation */
#include <stddef.h>
#include <string.h>
static const unsigned char sbox[256] = {1, 2, 3};
int bad_early_exit(const void *b1, const void *b2, size_t n) {
    const unsigned char *p = b1, *q = b2;
    for (size_t i = 0; i < n; i++)
        if (p[i] != q[i]) return p[i] < q[i] ? -1 : 1;       /* branch on secret */
    return 0;
}
int bad_table(const void *b1, const void *b2, size_t n) {
    const unsigned char *p = b1, *q = b2; int r = 0;
    for (size_t i = 0; i < n; i++) r |= sbox[p[i] ^ q[i]];     /* secret-indexed load */
    return r;
}
int bad_libc(const void *b1, const void *b2, size_t n) { return memcmp(b1, b2, n) != 0; }
int good_bcmp(const void *b1, const void *b2, size_t n) {
    const unsigned char *p = b1, *q = b2; int r = 0;
    for (; n > 0; n--) r |= *p++ ^ *q++;
    return r != 0;
}
int good_memcmp(const void *b1, const void *b2, size_t len) {
    const unsigned char *p1 = b1, *p2 = b2; int res = 0, done = 0;
    for (size_t i = 0; i < len; i++) {
        int lt = (p1[i] - p2[i]) >> 8, gt = (p2[i] - p1[i]) >> 8, cmp = lt - gt;
        res |= cmp & ~done; done |= lt | gt;
    }
    return res;
}
/* result clause: constant-time shape kept, result wrong */
int bad_result_done(const void *b1, const void *b2, size_t len) {      /* done |= cmp: a later 'less' pair overrides an earlier 'greater' one */
    const unsigned char *p1 = b1, *p2 = b2; int res = 0, done = 0;
    for (size_t i = 0; i < len; i++) {
        int lt = (p1[i] - p2[i]) >> 8, gt = (p2[i] - p1[i]) >> 8, cmp = lt - gt;
        res |= cmp & ~done; done |= cmp;
    }
    return res;
}
int bad_result_bcmp(const void *b1, const void *b2, size_t n) {         /* and-accumulated: differences in disjoint bits cancel */
    const unsigned char *p = b1, *q = b2; int r = 0xff;
    for (; n > 0; n--) r &= *p++ ^ *q++;
    return r != 0;
}
/* narrowing clause: the accumulated difference must reach the verdict with all its significant bits */
int words_narrowed(const void *b1, const void *b2, size_t n) {     /* word accumulator truncated to int before the test */
    const unsigned long *p = b1, *q = b2; unsigned long acc = 0; int ret;
    for (n /= sizeof(unsigned long); n > 0; n--) acc |= *p++ ^ *q++;
    ret = acc;
    return ret != 0;
}
int words_whole(const void *b1, const void *b2, size_t n) {        /* tested at full width */
    const unsigned long *p = b1, *q = b2; unsigned long acc = 0;
    for (n /= sizeof(unsigned long); n > 0; n--) acc |= *p++ ^ *q++;
    return acc != 0;
}
int bytes_in_long(const void *b1, const void *b2, size_t n) {      /* a wide accumulator of byte differences: only 8 significant bits, the cast loses nothing */
    const unsigned char *p = b1, *q = b2; unsigned long acc = 0; int ret;
    for (; n > 0; n--) acc |= (unsigned long)(*p++ ^ *q++);
    ret = (int)acc;
    return ret != 0;
}
