/* fixtures for C13's one-kind-per-function rule */
#include <stddef.h>
extern void invoke_safe_str_constraint_handler(const char *msg, void *ptr, int error);
extern void invoke_safe_mem_constraint_handler(const char *msg, void *ptr, int error);
int fxk_mem_good(void *dest, size_t dmax, size_t bos) {
    if (!dest) { invoke_safe_mem_constraint_handler("dest is null", NULL, 400); return 400; }
    if (dmax > bos) { invoke_safe_mem_constraint_handler("dmax exceeds dest", dest, 75); return 75; }
    return 0;
}
int fxk_mem_mixed(void *dest, size_t dmax, size_t bos) {
    if (!dest) { invoke_safe_mem_constraint_handler("dest is null", NULL, 400); return 400; }
    if (dmax == 0) { invoke_safe_mem_constraint_handler("dmax is 0", dest, 401); return 401; }
    if (dmax > bos) { invoke_safe_str_constraint_handler("dmax exceeds dest", dest, 75); return 75; }
    return 0;
}
