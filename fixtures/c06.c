/* C06 fixtures: silent truncation */
#include <stddef.h>
#include <string.h>
extern void invoke_safe_str_constraint_handler(const char *msg, void *ptr, int error);
static inline void handle_error(char *dest, size_t dmax, const char *msg, int err) { memset(dest, 0, dmax); invoke_safe_str_constraint_handler(msg, dest, err); }
int fx6_good_s(char *dest, size_t dmax, const char *src) {
    char *orig = dest; size_t odmax = dmax;
    if (!dest || !src || dmax == 0) return 400;
    while (dmax > 0) { *dest = *src; if (*dest == '\0') return 0; dmax--; dest++; src++; }
    handle_error(orig, odmax, "no space", 406); return 406;
}
int fx6_truncates_s(char *dest, size_t dmax, const char *src) {      /* terminates and reports success when the budget runs out */
    if (!dest || !src || dmax == 0) return 400;
    while (dmax > 0) { *dest = *src; if (*dest == '\0') return 0; dmax--; dest++; src++; }
    dest[-1] = '\0';
    return 0;
}
/* returned pointer: must be the address of the terminating null */
char *fx6_stp_good_s(char *dest, size_t dmax, const char *src, int *errp) {
    if (!dest || !src || !errp || dmax == 0 || dmax > 4096) { if (errp) *errp = 400; return 0; }
    while (dmax > 0) {
        *dest = *src;
        if (*dest == '\0') { char *slack = dest; while (dmax) { *slack = '\0'; dmax--; slack++; } *errp = 0; return dest; }
        dmax--; dest++; src++;
    }
    *errp = 406; return 0;
}
char *fx6_stp_advanced_s(char *dest, size_t dmax, const char *src, int *errp) {     /* the clearing loop advances dest itself */
    if (!dest || !src || !errp || dmax == 0 || dmax > 4096) { if (errp) *errp = 400; return 0; }
    while (dmax > 0) {
        *dest = *src;
        if (*dest == '\0') { while (dmax) { *dest = '\0'; dmax--; dest++; } *errp = 0; return dest; }
        dmax--; dest++; src++;
    }
    *errp = 406; return 0;
}
