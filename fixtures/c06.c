/* C06 fixtures: silent truncation */
#include <stddef.h>
#include <string.h>
extern void invoke_safe_str_constraint_handler(const char *msg, void *ptr, int error);
static inline void handle_error(char *dest, size_t dmax, const char *msg, int err) { memset(dest, 0, dmax); invoke_safe_str_constraint_handler(msg, dest, err); }
int fx6_good_s(char *dest, size_t dmax, const char *src) {
    char *orig = dest; size_t odmax = dmax;
    if (!dest || !src || dmax == 0) return 400;
    while (dmax > 0) { *dest = *src; if (*dest == '\0') return 0; dmax--; dest++; src++; }
    handle_error(orig, odmax, "no space", 406); return 406;
}
int fx6_truncates_s(char *dest, size_t dmax, const char *src) {      /* terminates and reports success when the budget runs out */
    if (!dest || !src || dmax == 0) return 400;
    while (dmax > 0) { *dest = *src; if (*dest == '\0') return 0; dmax--; dest++; src++; }
    dest[-1] = '\0';
    return 0;
}
/* returned pointer: must be the address of the terminating null */
char *fx6_stp_good_s(char *dest, size_t dmax, const char *src, int *errp) {
    if (!dest || !src || !errp || dmax == 0 || dmax > 4096) { if (errp) *errp = 400; return 0; }
    while (dmax > 0) {
        *dest = *src;
        if (*dest == '\0') { char *slack = dest; while (dmax) { *slack = '\0'; dmax--; slack++; } *errp = 0; return dest; }
        dmax--; dest++; src++;
    }
    *errp = 406; return 0;
}
char *fx6_stp_advanced_s(char *dest, size_t dmax, const char *src, int *errp) {     /* the clearing loop advances dest itself */
    if (!dest || !src || !errp || dmax == 0 || dmax > 4096) { if (errp) *errp = 400; return 0; }
    while (dmax > 0) {
        *dest = *src;
        if (*dest == '\0') { while (dmax) { *dest = '\0'; dmax--; dest++; } *errp = 0; return dest; }
        dmax--; dest++; src++;
    }
    *errp = 406; return 0;
}
/* primitive byte accounting: alignment prologue, word loop, tail -- and variants that lose or double bytes */
#include <stdint.h>
#define FX_MOVE(NAME, ALIGN_COUNT, WORDS, TAIL)                               \
    void NAME(void *dest, const void *src, uint32_t len) {                    \
        uint8_t *dp = (uint8_t *)dest;                                        \
        const uint8_t *sp = (const uint8_t *)src;                             \
        uint64_t t = (uintptr_t)sp;                                           \
        if ((t | (uintptr_t)dp) & 7) {                                        \
            if (((t ^ (uintptr_t)dp) & 7) || len < 8) t = len;                \
            else t = ALIGN_COUNT;                                             \
            len -= t;                                                         \
            do { *dp++ = *sp++; } while (--t);                                \
        }                                                                     \
        t = WORDS;                                                            \
        if (t > 0) {                                                          \
            do { *(uint64_t *)dp = *(const uint64_t *)sp; sp += 8; dp += 8; } while (--t); \
        }                                                                     \
        t = TAIL;                                                             \
        if (t > 0) {                                                          \
            do { *dp++ = *sp++; } while (--t);                                \
        }                                                                     \
    }
FX_MOVE(fx6_move_good, 8 - (t & 7), len / 8, len & 7)
FX_MOVE(fx6_move_no_tail, 8 - (t & 7), len / 8, 0)          /* the last len & 7 bytes are never copied */
FX_MOVE(fx6_move_words_wrong, 8 - (t & 7), len / 8 + 1, len & 7)   /* one word more than fits */
FX_MOVE(fx6_move_align_wrong, 16 - (t & 7), len / 8, len & 7)  /* up to 16 alignment bytes although only len >= 8 is known: len -= t may wrap */
void fx6_set_good(uint32_t *dest, uint32_t len, uint32_t value) {
    volatile uint32_t *dp = dest;
    while (len != 0) {
        switch (len) {
        default: *dp++ = value; *dp++ = value; *dp++ = value; *dp++ = value; len -= 4; break;
        case 3: *dp++ = value; /* FALLTHRU */
        case 2: *dp++ = value; /* FALLTHRU */
        case 1: *dp++ = value; len = 0; break;
        }
    }
}
void fx6_set_case_short(uint32_t *dest, uint32_t len, uint32_t value) {      /* case 3 falls into the code of case 1: one element short */
    volatile uint32_t *dp = dest;
    while (len != 0) {
        switch (len) {
        default: *dp++ = value; *dp++ = value; *dp++ = value; *dp++ = value; len -= 4; break;
        case 3: *dp++ = value; /* FALLTHRU */
        case 1: *dp++ = value; len = 0; break;
        case 2: *dp++ = value; *dp++ = value; len = 0; break;
        }
    }
}
void fx6_move_swapped(uint8_t *dest, const uint8_t *src, uint32_t len) {     /* copies src[len-1-k] ... wrong element */
    uint8_t *dp = dest;
    const uint8_t *sp = src + 1;
    while (len != 0) { *dp++ = *sp++; len--; }
}
/* announced length table next to a message table */
static const char *fx6_msgs[] = {"null ptr", "length is zero", "overlap undefined", "empty string", "not found", "no difference", "x", "yz"};
static const int fx6_lens_ok[] = {sizeof "null ptr", sizeof "length is zero", sizeof "overlap undefined", sizeof "empty string", sizeof "not found", sizeof "no difference", sizeof "x", sizeof "yz"};
static const int fx6_lens_stale[] = {sizeof "null ptr", sizeof "length is zero", sizeof "overlap", sizeof "empty string", sizeof "not found", sizeof "no difference", sizeof "x", sizeof "yz"};
const char *fx6_msg(int e) { return e >= 0 && e < 8 ? fx6_msgs[e] : ""; }
size_t fx6_len_ok(int e) { if (e >= 0 && e < 8) return fx6_lens_ok[e] - 1; return 0; }
size_t fx6_len_stale(int e) { if (e >= 0 && e < 8) return fx6_lens_stale[e] - 1; return 0; }
/* index-based and nested forms */
void fx6_set_index(uint8_t *dest, uint32_t len, uint8_t value) { uint32_t i; for (i = 0; i < len; i++) dest[i] = value; }
void fx6_set_index_from1(uint8_t *dest, uint32_t len, uint8_t value) { uint32_t i; for (i = 1; i < len; i++) dest[i] = value; }     /* dest[0] never written */
void fx6_move_nested(uint16_t *dest, const uint16_t *src, uint32_t len) {
    uint32_t i;
    while (len >= 4) { for (i = 0; i < 4; i++) dest[i] = src[i]; dest += 4; src += 4; len -= 4; }
    while (len) { *dest++ = *src++; len--; }
}
void fx6_move_nested_gap(uint16_t *dest, const uint16_t *src, uint32_t len) {      /* the inner loop copies 3 of every 4 elements */
    uint32_t i;
    while (len >= 4) { for (i = 0; i < 3; i++) dest[i] = src[i]; dest += 4; src += 4; len -= 4; }
    while (len) { *dest++ = *src++; len--; }
}

/* ---- symmetric copy loops keep the same books (sa/siblings.py) */
#define FX_SYM(STEP2, LIMIT)                                                                     \
    unsigned long n = 0;                                                                         \
    if (dest < src) {                                                                            \
        const char *bumper = src;                                                                \
        while (dmax > 0) {                                                                       \
            if (dest == bumper) return 404;                                                      \
            *dest = *src;                                                                        \
            if (*dest == 0) return 0;                                                            \
            dmax--; n++; dest++; src++;                                                          \
            if (n >= LIMIT) return 407;                                                          \
        }                                                                                        \
    } else {                                                                                     \
        const char *bumper = dest;                                                               \
        while (dmax > 0) {                                                                       \
            if (src == bumper) return 404;                                                       \
            *dest = *src;                                                                        \
            if (*dest == 0) return 0;                                                            \
            dmax--; STEP2; dest++; src++;                                                        \
            if (n >= LIMIT) return 407;                                                          \
        }                                                                                        \
    }                                                                                            \
    return 406;
int fx6_sym_good(char *dest, unsigned long dmax, const char *src, unsigned long srcbos) { FX_SYM(n++, srcbos) }
int fx6_sym_dropped_limit(char *dest, unsigned long dmax, const char *src, unsigned long srcbos) { FX_SYM((void)0, srcbos) }
int fx6_sym_dropped_budget(char *dest, unsigned long dmax, const char *src, unsigned long slen) { FX_SYM((void)0, slen) }

/* a slack clearing never starts at an element that holds result data */
extern void *memset(void *, int, unsigned long);
int fx6_ccpy_good(char *dest, unsigned long dmax, const char *src, int c, unsigned long n) {
    while (dmax > 0 && n > 0) {
        *dest = *src;
        if (*dest == (char)c) { if (n > 1) memset(dest + 1, 0, n - 1); return 0; }
        dmax--; n--; dest++; src++;
    }
    return 406;
}
int fx6_ccpy_wipes(char *dest, unsigned long dmax, const char *src, int c, unsigned long n) {
    while (dmax > 0 && n > 0) {
        *dest = *src;
        if (*dest == (char)c) { memset(dest, 0, n); return 0; }          /* starts at the stop character just copied */
        dmax--; n--; dest++; src++;
    }
    return 406;
}
int fx6_str_term_good(char *dest, unsigned long dmax, const char *src) {
    while (dmax > 0) {
        *dest = *src;
        if (*dest == 0) { memset(dest, 0, dmax); return 0; }                /* the element is the terminator: part of the cleared range */
        dmax--; dest++; src++;
    }
    return 406;
}
