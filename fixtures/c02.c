/* C02 fixtures: reads bounded by the declared size at the moment of the access */
#include <stddef.h>
#include <string.h>
size_t fx2_len_good(const char *dest, size_t dmax) { size_t n = 0; if (!dest) return 0; while (dmax && *dest) { n++; dmax--; dest++; } return n; }
size_t fx2_len_deref_first(const char *dest, size_t dmax) { size_t n = 0; if (!dest) return 0; while (*dest && dmax) { n++; dmax--; dest++; } return n; }
size_t fx2_strlen_on_bounded(const char *dest, size_t dmax) { if (!dest || !dmax) return 0; return strlen(dest); }
int fx2_back_scan_good(const char *dest, size_t dmax, int c) {
    if (!dest || !dmax) return -1;
    for (size_t i = dmax; i > 0; i--) if (dest[i - 1] == c) return (int)(i - 1);
    return -1;
}
int fx2_back_scan_unbounded(const char *dest, size_t dmax, int c) {     /* runs below the start of the buffer */
    if (!dest || !dmax) return -1;
    const char *p = dest + dmax - 1;
    while (*p != c) p--;
    return (int)(p - dest);
}
