/* C02 fixtures: reads bounded by the declared size at the moment of the access */
#include <stddef.h>
#include <string.h>
size_t fx2_len_good(const char *dest, size_t dmax) { size_t n = 0; if (!dest) return 0; while (dmax && *dest) { n++; dmax--; dest++; } return n; }
size_t fx2_len_deref_first(const char *dest, size_t dmax) { size_t n = 0; if (!dest) return 0; while (*dest && dmax) { n++; dmax--; dest++; } return n; }
size_t fx2_strlen_on_bounded(const char *dest, size_t dmax) { if (!dest || !dmax) return 0; return strlen(dest); }
int fx2_back_scan_good(const char *dest, size_t dmax, int c) {
    if (!dest || !dmax) return -1;
    for (size_t i = dmax; i > 0; i--) if (dest[i - 1] == c) return (int)(i - 1);
    return -1;
}
int fx2_back_scan_unbounded(const char *dest, size_t dmax, int c) {     /* runs below the start of the buffer */
    if (!dest || !dmax) return -1;
    const char *p = dest + dmax - 1;
    while (*p != c) p--;
    return (int)(p - dest);
}
/* measured extents: a pointer without a declared size, measured with a bounded length function, is read for at most that many elements (+ terminator) */
#include <wchar.h>
#include <stdlib.h>
size_t fx2_measured_good(char *out, const wchar_t *arg, size_t prec) {
    size_t l = wcsnlen(arg, prec);
    return wcstombs(out, arg, l);
}
size_t fx2_measured_over(char *out, const wchar_t *arg, size_t prec, size_t k) {    /* byte budget larger than the measured length: reads on behind it */
    size_t l = wcsnlen(arg, prec);
    return wcstombs(out, arg, l * k);
}
/* a search function nested in another one: the callee only reads dest, the length handed down must stay inside dmax */
extern int _memrchr_s_chk(const void *dest, size_t dmax, int ch, void **result, size_t destbos);
int fx2_nested_read_over(const char *dest, size_t dmax, void **r) {
    if (!dest || !dmax) return 1;
    return _memrchr_s_chk(dest, dmax + 1, 'x', r, (size_t)-1);
}
int _memrchr_s_chk(const void *dest, size_t dmax, int ch, void **result, size_t destbos) {
    const unsigned char *p = dest; (void)destbos;
    while (dmax) { dmax--; if (p[dmax] == (unsigned char)ch) { *result = (void *)(p + dmax); return 0; } }
    *result = 0; return 409;
}

/* a string operand and a libc block reader: the length must be measured, not the declared maximum */
extern void *memchr(const void *, int, unsigned long);
extern unsigned long strnlen(const char *, unsigned long);
unsigned long fx2_span_memchr_declared(const char *dest, unsigned long dmax, const char *src, unsigned long slen) {
    unsigned long n = 0;
    while (dmax && *dest) { if (!memchr(src, *dest, slen)) break; n++; dest++; dmax--; }        /* reads src behind its terminator */
    return n;
}
unsigned long fx2_span_memchr_measured(const char *dest, unsigned long dmax, const char *src, unsigned long slen) {
    unsigned long n = 0, len = strnlen(src, slen);
    while (dmax && *dest) { if (!memchr(src, *dest, len)) break; n++; dest++; dmax--; }
    return n;
}

/* "%.Ns": the presence of a precision is a flag, not a non-zero value */
unsigned long fx2_prec_value(const char *p, unsigned flags, unsigned long precision) { return strnlen(p, precision ? precision : (unsigned long)-1); }
unsigned long fx2_prec_flag(const char *p, unsigned flags, unsigned long precision) { return strnlen(p, (flags & 1024u) ? precision : (unsigned long)-1); }
