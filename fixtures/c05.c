/* C05 fixtures: handler discipline */
#include <stddef.h>
#include <string.h>
extern void invoke_safe_str_constraint_handler(const char *msg, void *ptr, int error);
#define ESNULLP 400
#define ESZEROL 401
#define ESLEMAX 403
#define ESNOSPC 406
static size_t len_s(const char *s, size_t n) {
    if (!s) return 0;
    if (n == 0) { invoke_safe_str_constraint_handler("len_s: n is 0", (void *)s, ESZEROL); return 0; }
    if (n > 4096) { invoke_safe_str_constraint_handler("len_s: n exceeds max", (void *)s, ESLEMAX); return 0; }
    size_t k = 0; while (n && *s) { k++; n--; s++; } return k;
}
int fx_good_s(char *dest, size_t dmax, const char *src) {
    if (!dest) { invoke_safe_str_constraint_handler("dest is null", NULL, ESNULLP); return ESNULLP; }
    if (dmax == 0) { invoke_safe_str_constraint_handler("dmax is 0", dest, ESZEROL); return ESZEROL; }
    while (dmax) { *dest = *src; if (!*dest) return 0; dest++; src++; dmax--; }
    invoke_safe_str_constraint_handler("no space", dest, ESNOSPC); return ESNOSPC;
}
int fx_twice_s(char *dest, size_t dmax) {
    if (!dest) { invoke_safe_str_constraint_handler("dest is null", NULL, ESNULLP); }
    if (!dest || dmax == 0) { invoke_safe_str_constraint_handler("bad args", dest, ESZEROL); return ESZEROL; }
    *dest = 0; return 0;
}
int fx_silent_s(char *dest, size_t dmax) { if (!dest || dmax == 0) return ESNULLP; *dest = 0; return 0; }
int fx_wrongcode_s(char *dest, size_t dmax) {
    if (dmax == 0) { invoke_safe_str_constraint_handler("dmax is 0", dest, ESNULLP); return ESZEROL; }
    if (dest) *dest = 0; return 0;
}
/* pointer result with an errno_t out-parameter: one error exit forgets to store the code */
char *fx_errp_forgotten_s(char *dest, size_t dmax, int *errp) {
    if (!errp) { invoke_safe_str_constraint_handler("errp is null", dest, ESNULLP); return 0; }
    if (!dest) { invoke_safe_str_constraint_handler("dest is null", NULL, ESNULLP); *errp = ESNULLP; return 0; }
    if (dmax == 0) { invoke_safe_str_constraint_handler("dmax is 0", dest, ESZEROL); return 0; }
    *dest = 0; *errp = 0; return dest;
}
int fx_nested_quiet_s(char *dest, size_t dmax) {      /* the nested call cannot fail: its checks are implied by ours */
    if (!dest) { invoke_safe_str_constraint_handler("dest is null", NULL, ESNULLP); return ESNULLP; }
    if (dmax == 0 || dmax > 4096) { invoke_safe_str_constraint_handler("dmax bad", dest, ESLEMAX); return ESLEMAX; }
    size_t l = len_s(dest, dmax);
    if (l == dmax) { invoke_safe_str_constraint_handler("unterminated", dest, ESNOSPC); return ESNOSPC; }
    return 0;
}
int fx_nested_noisy_s(char *dest, size_t dmax) {      /* dmax is not range-checked: len_s may report, then we report again */
    if (!dest) { invoke_safe_str_constraint_handler("dest is null", NULL, ESNULLP); return ESNULLP; }
    size_t l = len_s(dest, dmax);
    if (l == dmax) { invoke_safe_str_constraint_handler("unterminated", dest, ESNOSPC); return ESNOSPC; }
    return 0;
}

int fx_touch_first_s(char *dest, size_t dmax, const char *src) {   /* writes dest before the RSIZE check */
    if (!dest) { invoke_safe_str_constraint_handler("dest is null", NULL, ESNULLP); return ESNULLP; }
    if (dmax == 0) { invoke_safe_str_constraint_handler("dmax is 0", dest, ESZEROL); return ESZEROL; }
    dest[0] = '\0';
    if (dmax > 4096) { invoke_safe_str_constraint_handler("dmax exceeds max", dest, ESLEMAX); return ESLEMAX; }
    while (dmax) { *dest = *src; if (!*dest) return 0; dest++; src++; dmax--; }
    invoke_safe_str_constraint_handler("no space", dest, ESNOSPC); return ESNOSPC;
}
/* one report of a memory function goes to the string handler */
extern void invoke_safe_mem_constraint_handler(const char *msg, void *ptr, int error);
int fx_family_mixed_s(void *dest, size_t dmax, int ch) {
    if (!dest) { invoke_safe_mem_constraint_handler("dest is null", NULL, ESNULLP); return ESNULLP; }
    if (dmax == 0) { invoke_safe_mem_constraint_handler("dmax is 0", dest, ESZEROL); return ESZEROL; }
    if (ch > 255) { invoke_safe_str_constraint_handler("ch exceeds max", dest, ESLEMAX); return ESLEMAX; }
    return 0;
}
/* status discipline of a formatting engine: the output callback's negative status must be handed up */
typedef int (*fx_out_t)(char c, void *buffer, size_t idx, size_t maxlen);
int fx_fmt_pad_good(fx_out_t out, char *buffer, size_t idx, size_t maxlen, size_t width) {
    while (idx < width) {
        int rc = out(' ', buffer, idx++, maxlen);
        if (rc < 0)
            return rc;
    }
    return (int)idx;
}
int fx_fmt_pad_dropped(fx_out_t out, char *buffer, size_t idx, size_t maxlen, size_t width) {
    int rc = 0;
    while (idx < width) {
        out(' ', buffer, idx++, maxlen);          /* the status is lost, the stale rc is tested */
        if (rc < 0)
            return rc;
    }
    return (int)idx;
}
int fx_fmt_use(fx_out_t out, char *buffer, size_t maxlen) {
    int rc = fx_fmt_pad_good(out, buffer, 0, maxlen, 4);
    if (rc < 0)
        return rc;
    return fx_fmt_pad_dropped(out, buffer, (size_t)rc, maxlen, 8);
}

/* a null argument the function tests for must be reported, not dereferenced first */
int _fxnull_late_chk(char *dest, size_t dmax, const char *src, size_t *lenp) {
    const char *e = src + *lenp;                 /* read through lenp before the test below */
    if (dest == NULL) { invoke_safe_str_constraint_handler("fxnull: dest is null", NULL, 400); return 400; }
    if (lenp == NULL) { invoke_safe_str_constraint_handler("fxnull: lenp is null", NULL, 400); return 400; }
    *lenp = (size_t)(e - src);
    return 0;
}
int _fxnull_ok_chk(char *dest, size_t dmax, const char *src, size_t *lenp) {
    const char *e;
    if (dest == NULL) { invoke_safe_str_constraint_handler("fxnull: dest is null", NULL, 400); return 400; }
    if (lenp == NULL) { invoke_safe_str_constraint_handler("fxnull: lenp is null", NULL, 400); return 400; }
    e = src + *lenp;
    *lenp = (size_t)(e - src);
    return 0;
}
