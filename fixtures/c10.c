/* C10 fixtures: query functions that do / do not modify their operands */
#include <stddef.h>
#include <string.h>
typedef void (*handler_t)(const char *, void *, int);
extern handler_t the_handler;
static void helper_clear(char *d, size_t n) { memset(d, 0, n); }
static char *strtok_r_like(char *s, int c) { char *p = strchr(s, c); if (p) *p = 0; return p; }
int q_good_cmp(const char *dest, size_t dmax, const char *src, int *resultp) {
    while (dmax && *dest && *dest == *src) { dest++; src++; dmax--; }
    *resultp = dmax ? *dest - *src : 0;
    return 0;
}
int q_good_find(char *dest, size_t dmax, int ch, char **resultp) {
    *resultp = NULL;
    for (; dmax && *dest; dest++, dmax--) if (*dest == ch) { *resultp = dest; return 0; }
    the_handler("not found", dest, 1);
    return 1;
}
int q_bad_store(char *dest, size_t dmax) { if (dmax) dest[dmax - 1] = 0; return (int)strlen(dest); }
int q_bad_clear(char *dest, size_t dmax, const char *src) { if (!src) { helper_clear(dest, dmax); return 1; } return 0; }
int q_bad_tok(const char *dest, char *src) { return strtok_r_like(src, ',') != NULL && dest != NULL; }
/* scan completeness: a budgeted scan may give up only after it examined all `budget` elements */
size_t sc_good_while(const char *dest, size_t dmax, const char *src, size_t slen) {      /* strcspn-like, conforming */
    size_t n = 0;
    while (dmax && *dest) {
        const char *scan2 = src;
        size_t smax = slen;
        while (smax && *scan2) {
            if (*dest == *scan2) return n;
            scan2++;
            smax--;
        }
        dest++; dmax--; n++;
    }
    return n;
}
size_t sc_predecrement(const char *dest, size_t dmax, const char *src, size_t slen) {    /* the last element of the set is never tried */
    size_t n = 0;
    while (dmax && *dest) {
        const char *scan2 = src;
        size_t smax = slen;
        while (--smax && *scan2) {
            if (*dest == *scan2) return n;
            scan2++;
        }
        dest++; dmax--; n++;
    }
    return n;
}
int sc_good_dowhile(const char *dest, size_t dmax, int ch) {                               /* dmax >= 1 checked by the caller */
    do {
        if (*dest == ch) return 1;
        dest++;
    } while (--dmax);
    return 0;
}
int sc_stops_one_short(const char *dest, size_t dmax, int ch) {                            /* `> 1`: dest[dmax-1] is never compared */
    while (dmax > 1) {
        if (*dest == ch) return 1;
        dest++; dmax--;
    }
    return 0;
}
/* difference reported through *diff must not be narrowed */
#include <stdint.h>
int cmp16_good(const uint16_t *dest, size_t dlen, const uint16_t *src, size_t slen, int *diff) {
    *diff = 0;
    while (dlen && slen) { if (*dest != *src) { *diff = *dest - *src; break; } dlen--; slen--; dest++; src++; }
    return 0;
}
int cmp16_narrowed(const uint16_t *dest, size_t dlen, const uint16_t *src, size_t slen, int *diff) {
    size_t i;
    *diff = 0;
    for (i = 0; i < slen && i < dlen; i++) { const int16_t d = dest[i] - src[i]; if (d) { *diff = d; break; } }
    return 0;
}

/* ---- 'nothing found' must differ from every real answer */
int last_flag_good(const char *dest, unsigned long dmax, const char *src, unsigned long *resultp) {
    const char *rp = dest; int found = 0;
    *resultp = 0;
    while (dmax && *dest && *src) { if (*dest != *src) { found = 1; *resultp = dest - rp; } dest++; src++; dmax--; }
    return found ? 0 : 408;
}
int last_ptr_sentinel(const char *dest, unsigned long dmax, const char *src, unsigned long *resultp) {
    const char *rp, *lastp; rp = lastp = dest;
    *resultp = 0;
    while (dmax && *dest && *src) { if (*dest != *src) lastp = dest; dest++; src++; dmax--; }
    if (lastp == rp) return 408;
    *resultp = lastp - rp;
    return 0;
}
int last_idx_sentinel(const char *dest, unsigned long dmax, char c, unsigned long *resultp) {
    unsigned long i, last = 0;
    for (i = 0; i < dmax && dest[i]; i++) if (dest[i] == c) last = i;
    if (last == 0) return 409;
    *resultp = last;
    return 0;
}
int last_null_good(const char *dest, unsigned long dmax, char c, const char **lastp) {
    const char *l = 0;
    while (dmax && *dest) { if (*dest == c) l = dest; dest++; dmax--; }
    *lastp = l;
    return l ? 0 : 409;
}
/* window rule: the answer of a length-less libc searcher is filtered by the declared length */
int win_good(const char *dest, unsigned long dmax, int ch, char **resultp) {
    *resultp = strchr(dest, ch);
    if (!*resultp) return 409;
    if ((long)(*resultp - dest) >= (long)dmax) { *resultp = 0; return 409; }
    return 0;
}
int win_good_accept(const char *dest, unsigned long dmax, int ch, char **resultp) {
    char *r = strchr(dest, ch);
    *resultp = 0;
    if (r && dmax > (unsigned long)(r - dest)) { *resultp = r; return 0; }
    return 409;
}
int win_off_by_one(const char *dest, unsigned long dmax, int ch, char **resultp) {
    *resultp = strchr(dest, ch);
    if (!*resultp) return 409;
    if ((long)(*resultp - dest) > (long)dmax) { *resultp = 0; return 409; }
    return 0;
}
int win_unchecked(const char *dest, unsigned long dmax, int ch, char **resultp) {
    *resultp = strrchr(dest, ch);
    return *resultp ? 0 : 409;
}
/* signedness rule: bytes are compared as unsigned char */
int cmp8_unsigned_good(const char *dest, unsigned long dmax, const char *src, int *resultp) {
    while (dmax && *dest && *src && *dest == *src) { dest++; src++; dmax--; }
    *resultp = (unsigned char)*dest - (unsigned char)*src;
    return 0;
}
int cmp8_signed(const signed char *dest, unsigned long dmax, const signed char *src, int *resultp) {
    while (dmax && *dest && *src && *dest == *src) { dest++; src++; dmax--; }
    *resultp = *dest - *src;
    return 0;
}
