/* C10 fixtures: query functions that do / do not modify their operands */
#include <stddef.h>
#include <string.h>
typedef void (*handler_t)(const char *, void *, int);
extern handler_t the_handler;
static void helper_clear(char *d, size_t n) { memset(d, 0, n); }
static char *strtok_r_like(char *s, int c) { char *p = strchr(s, c); if (p) *p = 0; return p; }
int q_good_cmp(const char *dest, size_t dmax, const char *src, int *resultp) {
    while (dmax && *dest && *dest == *src) { dest++; src++; dmax--; }
    *resultp = dmax ? *dest - *src : 0;
    return 0;
}
int q_good_find(char *dest, size_t dmax, int ch, char **resultp) {
    *resultp = NULL;
    for (; dmax && *dest; dest++, dmax--) if (*dest == ch) { *resultp = dest; return 0; }
    the_handler("not found", dest, 1);
    return 1;
}
int q_bad_store(char *dest, size_t dmax) { if (dmax) dest[dmax - 1] = 0; return (int)strlen(dest); }
int q_bad_clear(char *dest, size_t dmax, const char *src) { if (!src) { helper_clear(dest, dmax); return 1; } return 0; }
int q_bad_tok(const char *dest, char *src) { return strtok_r_like(src, ',') != NULL && dest != NULL; }
