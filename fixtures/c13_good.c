/* C13 fixture: conforming registration (str kind) */
#include <stddef.h>
typedef void (*constraint_handler_t)(const char *, void *, int);
void ignore_handler_s(const char *m, void *p, int e);
static constraint_handler_t str_handler = NULL;
static _Thread_local constraint_handler_t thrd_str_handler = NULL;
constraint_handler_t set_str_constraint_handler_s(constraint_handler_t h) {
    constraint_handler_t prev = str_handler;
    str_handler = h ? h : ignore_handler_s;
    return prev;
}
constraint_handler_t thrd_set_str_constraint_handler_s(constraint_handler_t h) {
    constraint_handler_t prev = thrd_str_handler;
    if (h == NULL) thrd_str_handler = ignore_handler_s; else thrd_str_handler = h;
    return prev;
}
void invoke_safe_str_constraint_handler(const char *msg, void *ptr, int error) {
    constraint_handler_t h = thrd_str_handler ? thrd_str_handler : str_handler;
    if (!h) h = ignore_handler_s;
    h(msg, ptr, error);
}
