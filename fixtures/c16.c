/* C16 fixtures: comparator context forwarding */
#include <stddef.h>
typedef int (*cmpfun)(const void *, const void *, void *);
static void good_sift(char *a, char *b, cmpfun cmp, void *ctx) { if (cmp(a, b, ctx) > 0) { char t = *a; *a = *b; *b = t; } }
int good_sort(void *base, size_t n, size_t size, cmpfun compar, void *context) {
    char *p = base; for (size_t i = 1; i < n; i++) good_sift(p + (i - 1) * size, p + i * size, compar, context); return 0; }
static void bad_sift(char *a, char *b, cmpfun cmp, void *ctx) { if (cmp(a, b, NULL) > 0) { char t = *a; *a = *b; *b = t; } }
int bad_sort_null(void *base, size_t n, size_t size, cmpfun compar, void *context) {
    char *p = base; for (size_t i = 1; i < n; i++) bad_sift(p + (i - 1) * size, p + i * size, compar, context); return 0; }
static void bad2_sift(char *a, char *b, cmpfun cmp, void *ctx) { if (cmp(a, b, ctx) > 0) { char t = *a; *a = *b; *b = t; } }
int bad_sort_swapped(void *base, size_t n, size_t size, cmpfun compar, void *context) {
    char *p = base; for (size_t i = 1; i < n; i++) bad2_sift(p + (i - 1) * size, p + i * size, compar, base); return 0; }
/* bsearch bounds in the element-index domain */
#include <stddef.h>
void *fx16_bsearch_good(const void *key, const void *base, size_t nmemb, size_t size, int (*compar)(const void *, const void *, void *), void *context) {
    while (nmemb > 0) {
        void *p = (char *)base + size * (nmemb / 2);
        int sign = compar(key, p, context);
        if (!sign) return p;
        else if (nmemb == 1) break;
        else if (sign < 0) nmemb /= 2;
        else { base = p; nmemb -= nmemb / 2; }
    }
    return NULL;
}
void *fx16_bsearch_overrun(const void *key, const void *base, size_t nmemb, size_t size, int (*compar)(const void *, const void *, void *), void *context) {
    while (nmemb > 0) {
        void *p = (char *)base + size * (nmemb / 2);
        int sign = compar(key, p, context);
        if (!sign) return p;
        else if (nmemb == 1) break;
        else if (sign < 0) nmemb /= 2;
        else { base = (char *)p + size; nmemb -= nmemb / 2; }        /* steps behind the midpoint but keeps its count: runs past the end */
    }
    return NULL;
}
/* bit-scan rule */
int scan_full(unsigned long w) { return __builtin_ctzl(w); }
int scan_narrow(unsigned long w) { return __builtin_ctz(w); }
