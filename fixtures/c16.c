/* C16 fixtures: comparator context forwarding */
#include <stddef.h>
typedef int (*cmpfun)(const void *, const void *, void *);
static void good_sift(char *a, char *b, cmpfun cmp, void *ctx) { if (cmp(a, b, ctx) > 0) { char t = *a; *a = *b; *b = t; } }
int good_sort(void *base, size_t n, size_t size, cmpfun compar, void *context) {
    char *p = base; for (size_t i = 1; i < n; i++) good_sift(p + (i - 1) * size, p + i * size, compar, context); return 0; }
static void bad_sift(char *a, char *b, cmpfun cmp, void *ctx) { if (cmp(a, b, NULL) > 0) { char t = *a; *a = *b; *b = t; } }
int bad_sort_null(void *base, size_t n, size_t size, cmpfun compar, void *context) {
    char *p = base; for (size_t i = 1; i < n; i++) bad_sift(p + (i - 1) * size, p + i * size, compar, context); return 0; }
static void bad2_sift(char *a, char *b, cmpfun cmp, void *ctx) { if (cmp(a, b, ctx) > 0) { char t = *a; *a = *b; *b = t; } }
int bad_sort_swapped(void *base, size_t n, size_t size, cmpfun compar, void *context) {
    char *p = base; for (size_t i = 1; i < n; i++) bad2_sift(p + (i - 1) * size, p + i * size, compar, base); return 0; }
