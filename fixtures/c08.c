/* C08 fixtures: slack clearing must end exactly at dest + dmax */
#include <stddef.h>
#include <string.h>
#include <wchar.h>
#include <stdlib.h>
int fx8_good(wchar_t *dest, size_t dmax, const wchar_t *src) {
    if (!dest || !src || !dmax) return 1;
    while (dmax > 0) { *dest = *src; if (*dest == 0) { memset(dest, 0, dmax * sizeof(wchar_t)); return 0; } dmax--; dest++; src++; }
    return 2;
}
int fx8_wrong_unit(wchar_t *dest, size_t dmax, const wchar_t *src) {      /* bytes vs elements */
    if (!dest || !src || !dmax) return 1;
    while (dmax > 0) { *dest = *src; if (*dest == 0) { memset(dest, 0, dmax); return 0; } dmax--; dest++; src++; }
    return 2;
}
int fx8_stale_counter(char *dest, size_t dmax, const char *src) {         /* clears with the counter minus one */
    if (!dest || !src || !dmax) return 1;
    while (dmax > 0) { *dest = *src; if (*dest == 0) { memset(dest, 0, dmax - 1); return 0; } dmax--; dest++; src++; }
    return 2;
}
int fx8_loop_short(char *dest, size_t dmax, const char *src) {            /* the zeroing loop stops one element early */
    if (!dest || !src || !dmax) return 1;
    while (dmax > 0) { *dest = *src; if (*dest == 0) { while (dmax > 1) { *dest = 0; dmax--; dest++; } return 0; } dmax--; dest++; src++; }
    return 2;
}
int fx8_loop_good(char *dest, size_t dmax, const char *src) {
    if (!dest || !src || !dmax) return 1;
    while (dmax > 0) { *dest = *src; if (*dest == 0) { while (dmax) { *dest = 0; dmax--; dest++; } return 0; } dmax--; dest++; src++; }
    return 2;
}
/* start of the clearing: converter returning the count of bytes stored */
int fx8_conv_good(char *dest, size_t dmax, const wchar_t *src, size_t len) {
    if (!dest || !src || !dmax || dmax > 4096) return 1;
    size_t l = wcstombs(dest, src, len);
    if (l < dmax) { memset(&dest[l], 0, dmax - l); return 0; }
    return 2;
}
int fx8_conv_gap(char *dest, size_t dmax, const wchar_t *src, size_t len) {   /* "dest[l] already holds the NUL": not when len cut the conversion short */
    if (!dest || !src || !dmax || dmax > 4096) return 1;
    size_t l = wcstombs(dest, src, len);
    if (l < dmax) { memset(&dest[l + 1], 0, dmax - l - 1); return 0; }
    return 2;
}
int fx8_loop_gap(char *dest, size_t dmax, const char *src) {                  /* clearing starts two elements behind the cursor */
    if (!dest || !src || dmax < 4) return 1;
    while (dmax > 2) { *dest = *src; if (*dest == 0) { memset(dest + 2, 0, dmax - 2); return 0; } dmax--; dest++; src++; }
    return 2;
}
