/* C14 fixtures: a miniature tokenizer in the shape of strtok_s (dest merged with the saved context, capacity *dmaxp) */
#include <stddef.h>
extern void invoke_safe_str_constraint_handler(const char *, void *, int);
#define TOK(NAME, END_OF_STRING_CONTEXT, STORE_AT_END)                                                                   \
char *NAME(char *dest, size_t *dmaxp, const char *delim, char **ptr) {                                                    \
    size_t dlen; char *ptoken = NULL; const char *pt;                                                                     \
    if (!dmaxp || !delim || !ptr || *dmaxp == 0) return NULL;                                                             \
    if (!dest) dest = *ptr;                                                                                               \
    if (!dest) return NULL;                                                                                               \
    dlen = *dmaxp;                                                                                                        \
    while (*dest != '\0' && !ptoken) {              /* skip leading delimiters */                                       \
        if (dlen == 0) { *ptr = NULL; return NULL; }                                                                      \
        for (pt = delim; *pt; pt++) if (*dest == *pt) break;                                                              \
        if (!*pt) { ptoken = dest; break; }                                                                               \
        dest++; dlen--;                                                                                                   \
    }                                                                                                                     \
    if (!ptoken) { *ptr = dest; *dmaxp = dlen; return NULL; }                                                             \
    while (*dest != '\0') {                         /* find the end of the token */                                      \
        if (dlen == 0) { *ptr = NULL; return NULL; }                                                                      \
        for (pt = delim; *pt; pt++) if (*dest == *pt) { *dest = '\0'; *ptr = dest + 1; *dmaxp = dlen - 1; return ptoken; } \
        dest++; dlen--;                                                                                                   \
    }                                                                                                                     \
    STORE_AT_END                                                                                                          \
    *ptr = END_OF_STRING_CONTEXT; *dmaxp = dlen; return ptoken;                                                           \
}
TOK(fx14_good, dest, )
TOK(fx14_skip_terminator, dest + 1, if (dlen) dlen--;)       /* resumes behind the string's own terminator */

/* error exits hand back a null pointer */
char *fx14_err_null(char *dest, size_t *dmaxp, const char *delim, char **ptr) {
    char *tok = NULL; size_t n = *dmaxp;
    while (n && !tok) {
        if (*dest == 0) { invoke_safe_str_constraint_handler("fx14: unterminated", NULL, 407); *ptr = NULL; return tok; }   /* tok is null here */
        if (*dest != *delim) tok = dest;
        dest++; n--;
    }
    if (!tok) { invoke_safe_str_constraint_handler("fx14: empty", NULL, 407); return NULL; }
    *ptr = dest;
    return tok;
}
char *fx14_err_ptr(char *dest, size_t *dmaxp, const char *delim, char **ptr) {
    char *tok = NULL; size_t n = *dmaxp;
    while (n && !tok) {
        if (*dest != *delim) tok = dest;
        if (delim[1] != 0) { invoke_safe_str_constraint_handler("fx14: delim too long", NULL, 407); *ptr = NULL; return tok; }   /* tok may be dest */
        dest++; n--;
    }
    *ptr = dest;
    return tok;
}
