/* C12 positive fixture: every object here is mutable static state */
#include <string.h>
#include <stdio.h>
#include <time.h>
static int counter;                          /* file-scope counter */
static _Thread_local char tls_scratch[16];   /* thread-local scratch is still state across calls */
int next_id(void) { return ++counter; }
char *fmt_long(long v) {
    static char buf[64];                     /* function-static scratch written by a libc callee */
    snprintf(buf, sizeof buf, "%ld", v);
    return buf;
}
void use_tls(const char *s) { strncpy(tls_scratch, s, sizeof tls_scratch - 1); }
static char *slot;
void leak_addr(void) {
    static char cell[8];                     /* never stored to directly: its address escapes */
    extern void sink(char **);
    char *p = cell;
    sink(&p);
}
char *unsafe_time(const struct tm *t, char *s) { (void)strtok(s, " "); return asctime(t); }
