/* C09 fixtures: delegation filters and a miniature formatting engine */
#include <stdarg.h>
#include <stdio.h>
#include <string.h>
#include <wchar.h>
extern void invoke_safe_str_constraint_handler(const char *, void *, int);

int fx_nofilter(const char *fmt, va_list ap) { return vprintf(fmt, ap); }

int fx_lookbehind(const char *fmt, va_list ap) {
    const char *p;
    if ((p = strstr(fmt, "%n"))) {
        if ((p - fmt == 0) || *(p - 1) != '%') { invoke_safe_str_constraint_handler("n", 0, 22); return -22; }
    }
    return vprintf(fmt, ap);
}
/* the look-behind guard with its first disjunct inverted: a "%n" at offset 0 is let through */
int fx_lookbehind_start(const char *fmt, va_list ap) {
    const char *p;
    if ((p = strstr(fmt, "%n"))) {
        if ((p - fmt >= 1) && *(p - 1) != '%') { invoke_safe_str_constraint_handler("n", 0, 22); return -22; }
    }
    return vprintf(fmt, ap);
}
/* wide variant of the sound-shaped guard: pointer difference in elements (sdiv exact) */
int fx_lookbehind_w(const wchar_t *fmt, va_list ap) {
    const wchar_t *p;
    if ((p = wcsstr(fmt, L"%n"))) {
        if ((p - fmt == 0) || *(p - 1) != L'%') { invoke_safe_str_constraint_handler("n", 0, 22); return -22; }
    }
    return vwprintf(fmt, ap);
}
int fx_substring(const char *buf, const char *fmt, va_list ap) {
    if (strstr(fmt, "%n")) { invoke_safe_str_constraint_handler("n", 0, 22); return -1; }
    return vsscanf(buf, fmt, ap);
}
int fx_parser(const char *fmt, va_list ap) {       /* a real directive parser: not classifiable by the substring rule */
    for (const char *q = fmt; *q; q++) {
        if (*q != '%') continue;
        q++;
        if (*q == '%') continue;
        while (*q && strchr("-+ #0123456789.*hlqLjzt", *q)) q++;
        if (*q == 'n') { invoke_safe_str_constraint_handler("n", 0, 22); return -22; }
        if (!*q) break;
    }
    return vprintf(fmt, ap);
}

static int emit(char c) { return putchar(c); }
#define ENGINE(NAME, NBODY)                                                              \
int NAME(int (*out)(char), const char *fn, char *buffer, size_t n, const char *format, va_list va) { \
    size_t idx = 0;                                                                      \
    while (*format) {                                                                    \
        if (*format != '%') { out(*format++); idx++; continue; }                         \
        format++;                                                                        \
        switch (*format) {                                                               \
        case 'd': case 'i': { int v = va_arg(va, int); out('0' + (v % 10)); idx++; format++; break; } \
        case 'u': case 'x': case 'o': { unsigned v = va_arg(va, unsigned); out('0' + (v % 10)); idx++; format++; break; } \
        case 'c': out((char)va_arg(va, int)); idx++; format++; break;                    \
        case 's': { const char *p = va_arg(va, char *); while (*p) { out(*p++); idx++; } format++; break; } \
        case 'p': { void *q = va_arg(va, void *); out(q ? '1' : '0'); idx++; format++; break; } \
        case '%': out('%'); idx++; format++; break;                                      \
        case 'n': NBODY                                                                  \
        default: invoke_safe_str_constraint_handler("bad", 0, 22); return -1;            \
        }                                                                                \
    }                                                                                    \
    return (int)idx;                                                                     \
}
ENGINE(fx_engine_good, { invoke_safe_str_constraint_handler("illegal %n", 0, 22); return -1; })
ENGINE(fx_engine_bad, { int *ip = va_arg(va, int *); *ip = (int)idx; format++; break; })
/* the library's own bounded search with a bound that is not the format's length */
#include <stddef.h>
int _strstr_s_chk(char *dest, size_t dmax, const char *src, size_t slen, char **substringp, size_t destbos, size_t srcbos) {
    (void)dmax; (void)slen; (void)destbos; (void)srcbos; *substringp = strstr(dest, src); return *substringp ? 0 : 409;
}
int fx_bounded(char *out, size_t dmax, const char *fmt, va_list ap) {
    char *p;
    if (_strstr_s_chk((char *)fmt, dmax, "%n", 2, &p, (size_t)-1, (size_t)-1) == 0) { invoke_safe_str_constraint_handler("n", 0, 22); return -22; }
    return vsnprintf(out, dmax, fmt, ap);
}
